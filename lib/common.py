"""Shared machinery of /verif/check: paths, Go harness builds (overlay, tag verif), Coq build and
case evaluation, evidence writing, known findings."""
import fcntl, hashlib, json, os, re, subprocess, sys, time

VERIF = os.path.dirname(os.path.dirname(os.path.abspath(__file__)))
REPO = os.environ.get("VERIF_REPO", "/repo")
COQ = os.path.join(VERIF, "coq")
WORK = os.path.join(VERIF, "work")
EVID = os.path.join(VERIF, "evidence")

GOENV = dict(os.environ)
GOENV.update({"GOFLAGS": "-mod=mod", "GOPROXY": "off", "CGO_ENABLED": GOENV.get("CGO_ENABLED", "1")})
# GOTOOLCHAIN must stay auto and GOSUMDB default: the 1.25.5 toolchain is in the module cache
GOENV.pop("GOTOOLCHAIN", None)
GOENV.pop("GOSUMDB", None)


def log(*a):
    print(*a, file=sys.stderr, flush=True)


def sh(cmd, cwd=None, env=None, timeout=None, check=True, capture=True):
    p = subprocess.run(cmd, cwd=cwd, env=env, timeout=timeout, shell=isinstance(cmd, str),
                       stdout=subprocess.PIPE if capture else None,
                       stderr=subprocess.STDOUT if capture else None, text=True)
    if check and p.returncode != 0:
        raise RuntimeError("command failed (%d): %s\n%s" % (p.returncode, cmd, (p.stdout or "")[-4000:]))
    return p


def workdir(pid):
    # a run against another tree (VERIF_REPO) gets its own scratch directory: two runs of one check never share files
    d = os.path.join(WORK, pid if REPO == "/repo" else pid + "_" + hashlib.sha1(REPO.encode()).hexdigest()[:8])
    os.makedirs(d, exist_ok=True)
    return d


class Lock:
    def __init__(self, name):
        os.makedirs(WORK, exist_ok=True)
        self.path = os.path.join(WORK, "." + name + ".lock")

    def __enter__(self):
        self.f = open(self.path, "w")
        fcntl.flock(self.f, fcntl.LOCK_EX)
        return self

    def __exit__(self, *a):
        fcntl.flock(self.f, fcntl.LOCK_UN)
        self.f.close()


# ------------------------------------------------------------------ Go harness
# Harness discovery: every directory /verif/harness/<name>/ holds a file PKG naming the /repo package
# (relative path) its *.go files are injected into (as zz_verif_<name>_<file>), all `//go:build verif`.
def harness_files(pkg, dirs=None):
    out = []
    hroot = os.path.join(VERIF, "harness")
    for name in sorted(os.listdir(hroot)):
        d = os.path.join(hroot, name)
        pf = os.path.join(d, "PKG")
        if not os.path.isfile(pf) or open(pf).read().strip() != pkg:
            continue
        if dirs is not None and name not in dirs:
            continue
        for fn in sorted(os.listdir(d)):
            if fn.endswith(".go"):
                out.append(("zz_verif_%s_%s" % (name, fn), os.path.join(d, fn)))
    return out


def harness_pkgs():
    hroot = os.path.join(VERIF, "harness")
    pk = set()
    for name in sorted(os.listdir(hroot)):
        pf = os.path.join(hroot, name, "PKG")
        if os.path.isfile(pf):
            pk.add(open(pf).read().strip())
    return sorted(pk)


def overlay_for(pkgs, dirs=None):
    """overlay of the harness dirs for pkgs; a harness dir may hold a file ALSO naming further harness dirs
    (cross-package shims, e.g. the gossip world machinery used by the server/gossip harness)"""
    repl = {}
    hroot = os.path.join(VERIF, "harness")
    todo = []
    for pkg in pkgs:
        for name in sorted(os.listdir(hroot)):
            pf = os.path.join(hroot, name, "PKG")
            if os.path.isfile(pf) and open(pf).read().strip() == pkg and (dirs is None or name in dirs):
                todo.append(name)
    seen = set()
    while todo:
        name = todo.pop()
        if name in seen:
            continue
        seen.add(name)
        d = os.path.join(hroot, name)
        pkg = open(os.path.join(d, "PKG")).read().strip()
        for fn in sorted(os.listdir(d)):
            if fn.endswith(".go"):
                repl[os.path.join(REPO, pkg, "zz_verif_%s_%s" % (name, fn))] = os.path.join(d, fn)
        also = os.path.join(d, "ALSO")
        if os.path.isfile(also):
            todo += [x.strip() for x in open(also).read().split() if x.strip()]
    return {"Replace": repl}


def build_harness(pkg, race=False, dirs=None):
    """go test -c of the package with our harness injected through -overlay. Always rebuilt from
    the current working tree of REPO (the go build cache makes this cheap when nothing changed).
    dirs: restrict to these /verif/harness/<dir> directories (default: every directory whose PKG is pkg).
    The binary name depends on the tree and on dirs, so concurrent checks never share a path."""
    name = pkg.replace("/", "_") + ("_race" if race else "")
    if dirs is not None:
        name += "_" + "_".join(sorted(dirs))
    if REPO != "/repo":
        name += "_" + hashlib.sha1(REPO.encode()).hexdigest()[:8]
    bindir = os.path.join(WORK, "bin")
    os.makedirs(bindir, exist_ok=True)
    ov = os.path.join(bindir, name + ".overlay.json")
    with open(ov, "w") as f:
        json.dump(overlay_for([pkg], dirs), f)
    out = os.path.join(bindir, name + ".%d.test" % os.getpid())
    cmd = ["go", "test", "-c", "-tags", "verif", "-overlay", ov, "-vet=off", "-o", out]
    if race:
        cmd.append("-race")
    cmd.append("./" + pkg)
    with Lock("gobuild"):
        t0 = time.time()
        p = sh(cmd, cwd=REPO, env=GOENV, timeout=1500, check=False)
        if p.returncode != 0:
            raise BuildError("harness build failed for %s:\n%s" % (pkg, p.stdout[-6000:]))
        log("[go] built %s in %.1fs" % (name, time.time() - t0))
    final = os.path.join(bindir, name + ".test")
    os.replace(out, final)
    # a private copy for this process: another check may rebuild `final` while we still run it
    mine = os.path.join(bindir, name + ".%d.run" % os.getpid())
    import shutil, atexit
    shutil.copy2(final, mine)
    atexit.register(lambda: os.path.exists(mine) and os.remove(mine))
    return mine


class BuildError(Exception):
    pass


def run_harness(binary, inp, wd, tag="h", timeout=1200, extra_env=None, test="TestVerifHarness"):
    inpath = os.path.join(wd, tag + ".in.json")
    outpath = os.path.join(wd, tag + ".out.json")
    with open(inpath, "w") as f:
        json.dump(inp, f)
    if os.path.exists(outpath):
        os.remove(outpath)
    env = dict(GOENV)
    env.update({"VERIF_IN": inpath, "VERIF_OUT": outpath})
    if extra_env:
        env.update(extra_env)
    p = sh([binary, "-test.run", "^" + test + "$", "-test.count=1", "-test.timeout", "%ds" % timeout],
           cwd=wd, env=env, timeout=timeout + 60, check=False)
    if p.returncode != 0 or not os.path.exists(outpath):
        return None, p.stdout[-8000:]
    with open(outpath) as f:
        return json.load(f), p.stdout[-2000:]


# ------------------------------------------------------------------ Coq
def coq_make(targets=None, clean=False):
    """Full .vo build (no -vos) of the given targets (default: everything). Returns (ok, log)."""
    with Lock("coq"):
        sh([os.path.join(COQ, "gen_project.sh")], cwd=COQ)
        if clean:
            sh("make clean >/dev/null 2>&1; find . -name '*.vo' -o -name '*.glob' -o -name '*.vok' -o -name '*.vos' | xargs rm -f", cwd=COQ, check=False)
        t0 = time.time()
        cmd = ["timeout", "3000", "make", "-j16"] + (list(targets) if targets else [])
        p = sh(cmd, cwd=COQ, check=False, timeout=3100)
        log("[coq] make %s %s in %.1fs" % (" ".join(targets or ["all"]), "ok" if p.returncode == 0 else "FAILED", time.time() - t0))
        return p.returncode == 0, p.stdout


def coq_dep_files(targets):
    """the .v files of our development that the given .v files transitively require (per coqdep -sort)"""
    p = sh(["coqdep", "-Q", ".", "Piko", "-sort"] + list(targets), cwd=COQ, check=False)
    return [f for f in p.stdout.split() if f.endswith(".v") and os.path.exists(os.path.join(COQ, f))]


def coq_gate(files=None):
    """grep gate: no Admitted/admit/Axiom/Parameter/Conjecture/guard switches in the given files of the
    development (default: all)."""
    bad = []
    pat = re.compile(r"\b(Admitted|admit|Axiom|Axioms|Parameter|Parameters|Conjecture|Hypothesis|Hypotheses|Variable|Variables|Admit Obligations|bypass_check|Unset Guard Checking|Unset Positivity Checking|Unset Universe Checking|type-in-type|impredicative-set)\b")
    paths = []
    if files is None:
        for root, _, fns in os.walk(COQ):
            paths += [os.path.join(root, fn) for fn in fns if fn.endswith(".v")]
    else:
        paths = [os.path.join(COQ, f) for f in files]
    for p in paths:
        text = open(p).read()
        stripped = re.sub(r"\(\*.*?\*\)", "", text, flags=re.S)
        in_section = 0
        for ln, line in enumerate(stripped.split("\n"), 1):
            if re.match(r"\s*Section\b", line):
                in_section += 1
            if re.match(r"\s*End\b", line) and in_section:
                in_section -= 1
            m = pat.search(line)
            if m:
                if m.group(1) in ("Variable", "Variables", "Hypothesis", "Hypotheses") and in_section:
                    continue
                bad.append("%s:%d: %s" % (os.path.relpath(p, VERIF), ln, line.strip()))
    return bad


def coq_property(pid):
    """Recompile Properties/<pid>.v and capture its Print Assumptions output."""
    src = os.path.join(COQ, "Properties", pid + ".v")
    with Lock("coq"):
        p = sh(["timeout", "900", "coqc", "-Q", ".", "Piko", src], cwd=COQ, check=False)
    out = p.stdout
    theorems = re.findall(r"^\s*(?:Theorem|Corollary|Lemma|Example)\s+([A-Za-z0-9_']+)", open(src).read(), flags=re.M)
    closed = out.count("Closed under the global context")
    # axiom names start in column 0 (their types may continue on indented lines); blocks are not
    # separated by blank lines in coqc 8.16 output
    axioms = [a for a in re.findall(r"^([A-Za-z_][A-Za-z0-9_.']*)[ \t]*(?::|$)", out, flags=re.M)
              if a not in ("Axioms", "Closed")]
    return {"ok": p.returncode == 0, "log": out[-6000:], "theorems": theorems,
            "closed": closed, "axioms": sorted(set(axioms))}


def coq_chk(pid):
    """independent re-check of the compiled property file and everything it depends on (thorough tier)"""
    with Lock("coq"):
        p = sh(["timeout", "2400", "coqchk", "-silent", "-o", "-Q", ".", "Piko", "Piko.Properties." + pid], cwd=COQ, check=False, timeout=2500)
    out = p.stdout
    m = re.search(r"\* Axioms:(.*?)\n\s*\n\* Constants", out, flags=re.S)
    axioms = []
    if m and "<none>" not in m.group(1):
        axioms = [l.strip() for l in m.group(1).split("\n") if l.strip()]
    return {"ok": p.returncode == 0, "axioms": axioms, "tail": out[-1500:]}


def coq_deps_obligations(pid):
    """Obligations = Lemma/Theorem/Corollary/Example statements in the files of our development that
    Properties/<pid>.v transitively requires (per coqdep)."""
    files = coq_dep_files([os.path.join("Properties", pid + ".v")]) or [os.path.join("Properties", pid + ".v")]
    n = 0
    per = {}
    for f in files:
        path = os.path.join(COQ, f)
        text = re.sub(r"\(\*.*?\*\)", "", open(path).read(), flags=re.S)
        c = len(re.findall(r"^\s*(?:Theorem|Corollary|Lemma|Example|Fact|Proposition)\s", text, flags=re.M))
        per[f] = c
        n += c
    return n, per


def coq_eval(wd, name, body, timeout=1500):
    """Write a cases file and evaluate it with coqc (vm_compute inside). Returns coqc's output."""
    cdir = os.path.join(wd, "cases")
    os.makedirs(cdir, exist_ok=True)
    path = os.path.join(cdir, name + ".v")
    with open(path, "w") as f:
        f.write(body)
    p = sh(["timeout", str(timeout), "coqc", "-noglob", "-Q", COQ, "Piko", path], cwd=cdir, check=False, timeout=timeout + 30)
    return p.returncode, p.stdout


def coq_str(hexs):
    return '(h "%s")' % hexs


def coq_bool(b):
    return "true" if b else "false"


def coq_list(items):
    return "[" + "; ".join(items) + "]"


def hx(s):
    if isinstance(s, str):
        s = s.encode("latin-1")
    return s.hex()


# ------------------------------------------------------------------ findings / evidence
def known_findings():
    path = os.path.join(VERIF, "KNOWN_FINDINGS.txt")
    out = []
    if os.path.exists(path):
        for line in open(path):
            line = line.strip()
            if not line or line.startswith("#"):
                continue
            m = re.match(r"^(known|fixed):\s*property=(\S+)\s+(?:sig=(\S+)\s+)?(.*)$", line)
            if m:
                out.append({"kind": m.group(1), "property": m.group(2), "sig": m.group(3), "text": m.group(4)})
    return out


def write_evidence(pid, tier, seed, coverage, assumptions, wall, violations):
    os.makedirs(EVID, exist_ok=True)
    ev = {"property_id": pid, "tier": tier, "seed": seed, "level": "proof", "coverage": coverage,
          "assumptions": assumptions, "wall_s": round(wall, 2), "violations": violations}
    with open(os.path.join(EVID, pid + ".json"), "w") as f:
        json.dump(ev, f, indent=1, sort_keys=True)
        f.write("\n")


def write_replay(pid, name, obj):
    wd = workdir(pid)
    rd = os.path.join(wd, "replay")
    os.makedirs(rd, exist_ok=True)
    path = os.path.join(rd, name + ".json")
    with open(path, "w") as f:
        json.dump(obj, f, indent=1)
    return path
