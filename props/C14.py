"""C14 - watcher notifications, folded in order, always equal the visible cluster state."""
import random
from props.gossip_common import *

ID = "C14"
COQ_TARGETS = ["Run/Run_Gossip.vo"]
META = {
    "text": "Theorem (Properties/C14.v) over the Gallina model of ApplyDigest/ApplyDelta/applyDeltaEntry/UpdateLiveness/RemoveExpiredAt: for every sequence of receiver operations on one observer whose incoming entries are key-consistent (the internal flag is a function of the key, an invariant of honest owners proved in GossipP/LocalP.v), folding all emitted events (join adds a node, upsert sets, delete removes, leave/unreachable/reachable set flags, expired removes the node) yields exactly the visible view (non-internal, non-deleted entries + flags) of every remote node; a node's join precedes every other event about it; every key that disappears - also one dropped by a compaction marker whose deletion the observer never saw - is announced as deleted. Tied to the code by comparing the real watcher events of every step with the model's (multiset per step, Go iterates maps) and by folding the REAL events in their real order and comparing with the real state after every step.",
    "note": "Trusted: the recording watcher of the harness; events of one step are compared with the model as a multiset, their real order is checked by the fold monitor.",
    "technique": "Coq proof (invariant shadow = visible by induction over receiver ops) + event-fold monitor on the implementation + per-step event correspondence",
}
ASSUMPTIONS = ["incoming entries are key-consistent (internal flag determined by the key) - true of entries written by honest owners",
               "the local node is never the subject of an event (it is not: applyDeltaEntry discards it, liveness/expiry skip it)",
               "node ids are valid UTF-8 (cluster configuration); since fix U1 the real ApplyDigest/applyDeltaEntry ignore any other id, the world model applies the same filter where forged packets enter (WInject, Gossip/World.v sanitize_body)"]
TRUSTED = ["python fold monitor (props/C14.py)"]

PROFILE = {"min_nodes": 2, "max_nodes": 4, "min_ops": 20, "max_ops": 70, "nkeys": 7,
           "weights": {"upsert": 20, "delete": 10, "compact": 8, "leave": 3, "send": 20, "deliver": 24, "dup": 3, "drop": 5,
                       "join": 3, "leavestream": 3, "liveness": 8, "expire": 4}}


def visible_of(view):
    return {"left": view["left"], "unreach": view["unreach"],
            "kv": {e["k"]: e["v"] for e in view["entries"] if not e["int"] and not e["del"]}}


def monitor(case, out):
    if out.get("panic"):
        return {"step": len(out.get("obs") or []), "why": "panic/timeout: " + out["panic"], "sig": "panic"}
    ids = [n["id"] for n in case["nodes"]]
    shadow = {i: {} for i in range(len(ids))}
    views = {}
    for i, (op, ob) in enumerate(zip(case["ops"], out["obs"])):
        for ev in ob["events"]:
            sh = shadow[ev["n"]]
            k, nid = ev["kind"], ev["id"]
            if nid == ids[ev["n"]]:
                return {"step": i, "why": "event %s about the local node" % k, "sig": "local-event"}
            if k == "join":
                if nid in sh:
                    return {"step": i, "why": "join of an already announced node %s" % nid, "sig": "dup-join"}
                sh[nid] = {"left": False, "unreach": False, "kv": {}}
                continue
            if nid not in sh:
                return {"step": i, "why": "%s event about node %s before its join" % (k, nid), "sig": "before-join"}
            if k == "upsert": sh[nid]["kv"][ev["k"]] = ev["v"]
            elif k == "delete": sh[nid]["kv"].pop(ev["k"], None)
            elif k == "leave": sh[nid]["left"] = True
            elif k == "unreach": sh[nid]["unreach"] = True
            elif k == "reach": sh[nid]["unreach"] = False
            elif k == "expired": del sh[nid]
        for v in ob["views"]:
            if v["present"]:
                views[(v["n"], v["id"])] = v
            else:
                views.pop((v["n"], v["id"]), None)
        for s in ob["summary"]:
            n = s["n"]
            vis = {nid: visible_of(v) for (o, nid), v in views.items() if o == n and nid != ids[n]}
            if vis != shadow[n]:
                diff = [x for x in set(vis) | set(shadow[n]) if vis.get(x) != shadow[n].get(x)]
                return {"step": i, "why": "fold of the notifications differs from the visible state of observer %s for %r: folded %r, visible %r"
                                          % (ids[n], diff[:2], {x: shadow[n].get(x) for x in diff[:2]}, {x: vis.get(x) for x in diff[:2]}), "sig": "fold"}
    return None


CORPUS = [
    # a deletion hidden behind a compaction: the observer sees k, misses the tombstone, then receives the marker
    {"id": "corpus-hidden-delete", "nodes": [{"id": H("a"), "addr": H("10.0.0.1:7000")}, {"id": H("b"), "addr": H("10.0.0.2:7000")}],
     "ops": [{"op": "upsert", "n": 1, "k": H("k"), "v": H("v")}, {"op": "upsert", "n": 1, "k": H("j"), "v": H("w")},
             {"op": "join", "a": 0, "b": 1},
             {"op": "delete", "n": 1, "k": H("k")}, {"op": "compact", "n": 1, "th": 1},
             {"op": "send", "a": 0, "b": 1, "max": 1400}, {"op": "deliver", "i": 0, "max": 1400}, {"op": "deliver", "i": 0, "max": 1400},
             {"op": "leave", "n": 1}, {"op": "leavestream", "a": 1, "b": 0},
             {"op": "liveness", "n": 0, "levels": {H("b"): 30.0}}, {"op": "expire", "n": 0, "ref": H("b"), "d": 1}]},
]


CORPUS.append(
    # the owner deletes k, the observer sees the tombstone, the owner writes k again with the EMPTY value (equal to what a
    # tombstone holds): the key is visible again and has to be announced
    {"id": "corpus-empty-after-delete", "nodes": [{"id": H("a"), "addr": H("10.0.0.1:7000")}, {"id": H("b"), "addr": H("10.0.0.2:7000")}],
     "ops": [{"op": "upsert", "n": 1, "k": H("k"), "v": H("v")}, {"op": "join", "a": 0, "b": 1},
             {"op": "delete", "n": 1, "k": H("k")},
             {"op": "send", "a": 0, "b": 1, "max": 1400}] + [{"op": "deliver", "i": 0, "max": 1400}] * 4 +
            [{"op": "upsert", "n": 1, "k": H("k"), "v": H("")},
             {"op": "send", "a": 0, "b": 1, "max": 1400}] + [{"op": "deliver", "i": 0, "max": 1400}] * 4})


def conc_cases(rng, n):
    out = []
    for i in range(n):
        nodes = [{"id": H(IDS[j]), "addr": H("10.0.0.%d:7000" % (j + 1))} for j in range(2)]
        ref = rng.choice([H("b"), H("zz")])        # a real member or a node only ever heard of
        ops = [{"op": "upsert", "n": 1, "k": H("k"), "v": H("v")}, {"op": "join", "a": 1, "b": 0},
               {"op": "race_expire", "n": 0, "ref": ref, "i": rng.choice([5000, 20000, 40000])},
               {"op": "send", "a": 0, "b": 1, "max": 1400}, {"op": "deliver", "i": 0, "max": 1400}, {"op": "deliver", "i": 0, "max": 1400}]
        out.append({"id": "conc%d" % i, "nodes": nodes, "ops": ops})
    # the same race with a SLOW subscriber: callbacks of one kind take 150 us. With the state lock held during the callback
    # nothing can overtake it; a notification delivered after the lock was released is overtaken by the re-discovery
    for i, kind in enumerate(["expired", "join", "unreach", "all"][:max(2, n)]):
        nodes = [{"id": H(IDS[j]), "addr": H("10.0.0.%d:7000" % (j + 1))} for j in range(2)]
        ops = [{"op": "upsert", "n": 1, "k": H("k"), "v": H("v")}, {"op": "join", "a": 1, "b": 0},
               {"op": "race_expire", "n": 0, "ref": H("zz") if i % 2 == 0 else H("b"), "i": 250, "e": kind, "d": 150000},
               {"op": "send", "a": 0, "b": 1, "max": 1400}, {"op": "deliver", "i": 0, "max": 1400}, {"op": "deliver", "i": 0, "max": 1400}]
        out.append({"id": "conc-slow-%s" % kind, "nodes": nodes, "ops": ops})
    return out


def run(ctx):
    rng = random.Random(ctx["seed"])
    quick = ctx["tier"] == "quick"
    wd = ctx["wd"]
    n = 150 if quick else 4000
    cases = list(CORPUS) + [gen_world_case(rng, "g%d" % i, PROFILE) if i % 4 else (gen_parked_case(rng, "p%d" % i, nkeys=7) if i % 8 else gen_member_case(rng, "m%d" % i)) for i in range(n)]
    binary = build_harness("pkg/gossip", dirs=["gossip"])
    outs = run_world(binary, wd, cases)
    violations, known = [], []
    mon = [(c, f) for c, o in zip(cases, outs) for f in [monitor(c, o)] if f]
    # concurrency probes (monitor only; the model is sequential): a node is re-learned from digests and deltas while it
    # is being suspected and expired on other goroutines - the notifications, in the order they are delivered, must
    # still fold to the final state (every callback runs with the state lock held)
    ccases = conc_cases(rng, 4 if quick else 40)
    couts = run_world(binary, wd, ccases, tag="conc")
    for c, o in zip(ccases, couts):
        f = monitor(c, o)
        if f:
            violations.append({"what": "C14 monitor (concurrent expiry / re-discovery): %s" % f["why"], "found_input": True,
                               "replay_obj": {"property": ID, "kind": "monitor-conc", "signature": f["sig"], "why": f["why"], "case": c}})
            break
    okc = [(c, o) for c, o in zip(cases, outs) if not o.get("panic")]
    dis = correspondence(ID, wd, [c for c, _ in okc], [o for _, o in okc])
    seen = set()
    for c, f in mon:
        if f["sig"] in seen:
            continue
        seen.add(f["sig"])

        def fails(cand, sig=f["sig"]):
            oo = run_world(binary, wd, [cand], tag="shrink")[0]
            ff = monitor(cand, oo)
            return ff is not None and ff["sig"] == sig
        small = shrink_case(c, fails)
        violations.append({"what": "C14 monitor: %s (history of %d ops)" % (f["why"], len(small["ops"])), "found_input": True,
                           "replay_obj": {"property": ID, "kind": "monitor", "signature": f["sig"], "why": f["why"], "case": small,
                                          "observed": run_world(binary, wd, [small], tag="shrink")[0]}})
    if dis and not mon:
        d = dis[0]
        violations.append({"what": "model/implementation disagreement (%s) at step %d of history %s; the fold of the real events still equals the real state"
                                   % (",".join(d["names"]), d["step"], okc[d["case"]][0]["id"]), "found_input": False,
                           "replay_obj": {"broken": "corr:C14:gossip_h:world", "disagreement": d, "case": okc[d["case"]][0], "observed": okc[d["case"]][1]}})
    nev = sum(len(ob["events"]) for o in outs for ob in (o.get("obs") or []))
    kinds = {}
    for o in outs:
        for ob in (o.get("obs") or []):
            for ev in ob["events"]:
                kinds[ev["kind"]] = kinds.get(ev["kind"], 0) + 1
    cov = {"evaluations": len(cases), "distinct_nontrivial": len({json.dumps(c["ops"]) for c, o in zip(cases, outs) if any(ob["events"] for ob in (o.get("obs") or []))}),
           "rule": "random histories over 2-4 real clusterStates with a recording watcher (writes, deletes, compactions, leave, digest/delta exchange with loss/dup/reorder, streams, liveness, expiry); non-trivial = at least one watcher event; distinct by op list",
           "samples": [CORPUS[0]["ops"]],
           "correspondence": {"harness": "gossip_h world mode", "histories": len(okc), "ops": sum(len(c["ops"]) for c in cases), "distribution": op_mix(cases),
                              "events": nev, "event_kinds": kinds, "disagreements": len(dis), "seed": ctx["seed"]},
           "monitor": {"histories": len(cases), "failures": len(mon), "concurrent_probes": len(ccases)}}
    return {"coverage": cov, "violations": violations, "known": known}


def replay(path, wd):
    obj = json.load(open(path))
    case = obj["case"]
    binary = build_harness("pkg/gossip", dirs=["gossip"])
    out = run_world(binary, wd, [case], tag="replay")[0]
    print(json.dumps({"monitor": monitor(case, out)}, indent=1))
    if not out.get("panic"):
        print("model disagreements:", correspondence(ID, wd, [case], [out], tag="replay"))
    return 0
