"""C13 - gossip packets fit the size limit, decode to prefixes, survive hostile input."""
import random, re
from props.gossip_common import *
from props import wire

from props import bulk_probe
from props import consts_common
ID = "C13"
COQ_TARGETS = ["Run/Run_Gossip.vo", "Run/Run_Codec.vo"]
META = {
    "text": "Theorems (Properties/C13.v) over the byte-exact Gallina model of encodeDigest/encodeDelta/Gossip.gossip and of the packet handlers: every emitted packet is an error or at most max bytes, for every content and every max; it is the encoding of the header plus a per-node prefix of whole entries (complete nodes, then at most one partial node, nothing after), the cut is maximal (the first item left out does not fit) and at least one entry is sent whenever header + node header + first entry fit; for every decoded digest/delta whatsoever the receiver's own published state is unchanged and the handler is total. Tied to the code by (a) real encode* swept over EVERY max from 0 to full length+2 for generated contents with byte-exact comparison, (b) byte-exact comparison of every packet emitted in generated cluster histories, (c) hostile datagrams/streams against the real handlers (no panic, no hang, own state unchanged; whatever the real decoder accepts is replayed through the model and the resulting state compared). C13_packet_prefix_is_the_sources / C13_message_types_distinct: message type bytes and protocol version of the codec model are those of the current source (regenerated constants). Bulk pulls of 300-4200 entries (monitor only): every datagram fits, the pulled view has no hole, nobody's own state is touched.",
    "note": "Partial: the third-party decoder's (ugorji/go/codec) memory safety and termination on hostile bytes are tested, not proved; the model contains an encoder and the cut, the decoder is exercised through the real code. UDP itself is environment.",
    "technique": "Coq proof over a byte-exact codec model (size/prefix/maximality by induction over the truncation loop) + differential sweep over every max + hostile-input replay + translator tie for the message type bytes (regenerated constants) + bulk-pull probe (monitor only)",
}
ASSUMPTIONS = [
    "msgpack encoding as produced by ugorji/go/codec v1.3.1 MsgpackHandle with default options (validated byte-for-byte on every run)",
    "lengths < 2^32 and counts < 2^63 (Go int/uint64 ranges) - larger values cannot be constructed",
    "hostile-input robustness of the third-party decoder is observed on generated inputs only",
    "node ids are valid UTF-8 (cluster configuration); since fix U1 the real ApplyDigest/applyDeltaEntry ignore any other id, the world model applies the same filter where forged packets enter (WInject, Gossip/World.v sanitize_body)",
]
TRUSTED = ["python wire-format implementation props/wire.py (independent encoder/decoder used by the monitor and the generators)"]

BOUNDARY_LENS = [0, 1, 5, 30, 31, 32, 33, 100]
BOUNDARY_VERS = [0, 1, 2, 127, 128, 255, 256, 65535, 65536, 2 ** 32 - 1, 2 ** 32, 2 ** 63, 2 ** 64 - 1]


def gstr(rng, big=False):
    r = rng.random()
    if big and r < 0.1:
        n = rng.choice([255, 256, 300, 1000])
    elif r < 0.75:
        n = rng.choice(BOUNDARY_LENS[:7])
    else:
        n = rng.randint(0, 60)
    kind = rng.random()
    if kind < 0.7:
        return bytes(rng.choice(b"abcdefghijklmnopqrstuvwxyz0123456789:._-") for _ in range(n))
    if kind < 0.85:
        return ("é中" * n).encode("utf-8")[:n]
    return bytes(rng.randrange(256) for _ in range(n))


def gver(rng):
    return rng.choice(BOUNDARY_VERS) if rng.random() < 0.5 else rng.randrange(0, 5000)


def gentry(rng, big=False):
    return {"k": gstr(rng).hex(), "v": gstr(rng, big).hex(), "ver": gver(rng), "int": rng.random() < 0.2, "del": rng.random() < 0.3}


def gen_codec_case(rng, cid):
    kind = "digest" if rng.random() < 0.35 else "delta"
    c = {"id": cid, "kind": kind, "hid": gstr(rng).hex(), "haddr": gstr(rng).hex(), "request": rng.random() < 0.5,
         "digest": [], "delta": [], "maxes": []}
    if kind == "digest":
        for _ in range(rng.randint(0, 8)):
            c["digest"].append({"id": gstr(rng).hex(), "addr": gstr(rng).hex(), "ver": gver(rng), "left": rng.random() < 0.3})
    else:
        r = rng.random()
        if r < 0.06:
            # count boundary 127/128 (EncodeInt switches to int16)
            n = rng.choice([127, 128, 129])
            c["delta"].append({"id": gstr(rng).hex(), "addr": gstr(rng).hex(),
                               "entries": [{"k": "6b", "v": "", "ver": i + 1, "int": False, "del": False} for i in range(n)]})
            c["delta"].append({"id": "7a", "addr": "", "entries": [gentry(rng)]})
        else:
            for _ in range(rng.randint(0, 4)):
                c["delta"].append({"id": gstr(rng).hex(), "addr": gstr(rng).hex(),
                                   "entries": [gentry(rng, big=True) for _ in range(rng.randint(0, 6))]})
    return c


def shape_of(res, kind):
    if kind == "digest":
        return [("", len(res["dec_digest"] or []))]
    return [(p["id"], len(p["entries"])) for p in (res["dec_delta"] or [])]


def codec_monitor(c, out):
    """the property's own predicate on the real encoder's output; model free"""
    full_res = None
    lens = {}
    for r in out["res"]:
        if not r["err"]:
            lens[r["max"]] = len(r["bytes"]) // 2
    if not lens:
        return None
    minlen = min(lens.values())
    image = sorted(set(lens.values()))
    intended_delta = c["delta"]
    fullbytes = max(((len(r["bytes"]), r["bytes"]) for r in out["res"] if not r["err"]))[1]
    for r in out["res"]:
        m = r["max"]
        if r["err"]:
            if m >= minlen:
                return {"max": m, "why": "error although the header fits", "sig": "codec-error"}
            continue
        L = len(r["bytes"]) // 2
        if L > m:
            return {"max": m, "why": "packet of %d bytes exceeds max %d" % (L, m), "sig": "codec-size"}
        if m < minlen:
            return {"max": m, "why": "no error although the header does not fit", "sig": "codec-error"}
        if not fullbytes.startswith(r["bytes"]):
            return {"max": m, "why": "truncated packet is not a byte prefix of the full encoding", "sig": "codec-prefix"}
        best = max(x for x in image if x <= m)
        if L != best:
            return {"max": m, "why": "cut not maximal: %d bytes sent, %d would fit" % (L, best), "sig": "codec-maximal"}
        if r["dec_err"]:
            return {"max": m, "why": "the real decoder rejects an emitted packet", "sig": "codec-decode"}
        if c["kind"] == "digest":
            dec = r["dec_digest"] or []
            if dec != c["digest"][:len(dec)]:
                return {"max": m, "why": "decoded digest is not a prefix of the intended digest", "sig": "codec-prefix"}
        else:
            dec = r["dec_delta"] or []
            if len(dec) > len(intended_delta):
                return {"max": m, "why": "more nodes decoded than intended", "sig": "codec-prefix"}
            for i, (p, q) in enumerate(zip(dec, intended_delta)):
                if p["id"] != q["id"] or p["addr"] != q["addr"] or p["entries"] != q["entries"][:len(p["entries"])]:
                    return {"max": m, "why": "decoded node %d is not a prefix (whole entries, in order) of the intended node" % i, "sig": "codec-prefix"}
                if i < len(dec) - 1 and len(p["entries"]) != len(q["entries"]):
                    return {"max": m, "why": "a node before the cut is incomplete", "sig": "codec-prefix"}
    return None


def codec_case_to_coq(c, out):
    sweep = []
    for r in out["res"]:
        if r["err"]:
            sweep.append("(%d, None)" % r["max"])
        else:
            sh = coq_list(["(%s, %d)" % (cs(i), n) for i, n in shape_of(r, c["kind"])])
            sweep.append("(%d, Some (%d, %s))" % (r["max"], len(r["bytes"]) // 2, sh))
    fullbytes = max(((len(r["bytes"]), r["bytes"]) for r in out["res"] if not r["err"]), default=(0, ""))[1]
    dg = coq_list(["(D %s %s %d %s)" % (cs(d["id"]), cs(d["addr"]), d["ver"], coq_bool(d["left"])) for d in c["digest"]])
    dl = coq_list(["(DE %s %s %s)" % (cs(p["id"]), cs(p["addr"]), coq_list([c_entry(e) for e in p["entries"]])) for p in c["delta"]])
    return "(Build_ccase %s %s %s %s %s %s %s %s)" % (coq_bool(c["kind"] == "digest"), cs(c["hid"]), cs(c["haddr"]),
                                                     coq_bool(c["request"]), dg, dl, cs(fullbytes), coq_list(sweep))


def codec_correspondence(wd, cases, outs):
    import concurrent.futures as cf
    shard = min(max(4, (len(cases) + 15) // 16), 40)
    jobs = [(si, cases[si:si + shard], outs[si:si + shard]) for si in range(0, len(cases), shard)]
    hdr = ("From Coq Require Import List String NArith ZArith Bool.\n"
           "From Piko Require Import Base.Maps Base.Strs Gossip.Types Gossip.Codec Run.Run_Gossip Run.Run_Codec.\n"
           "Import ListNotations. Open Scope string_scope. Open Scope list_scope. Open Scope N_scope.\n")

    def work(job):
        si, cc, oo = job
        body = hdr + "Definition cases : list ccase := [\n" + ";\n".join(codec_case_to_coq(c, o) for c, o in zip(cc, oo)) + "].\n"
        body += "Definition M := Eval vm_compute in cmismatches cases.\nPrint M.\n"
        rc, out = coq_eval(wd, "Cases_C13_codec_%d" % si, body)
        m = re.search(r"M\s*=\s*(.*?)\s*:\s*list", out, flags=re.S)
        if rc != 0 or not m:
            raise RuntimeError("coq evaluation of codec cases failed:\n" + out[-3000:])
        txt = m.group(1).replace("%nat", "").replace("%N", "")
        return [(si + int(a), int(b)) for a, b in re.findall(r"\(\s*(\d+)\s*,\s*(\d+)\s*\)", txt)]

    dis = []
    with cf.ThreadPoolExecutor(max_workers=12) as ex:
        for r in ex.map(work, jobs):
            dis += [{"case": c, "max": m} for c, m in r]
    return dis


# ---------------------------------------------------------------- hostile packets
def mutate(rng, b):
    b = bytearray(b)
    r = rng.random()
    if not b:
        return bytes(rng.randrange(256) for _ in range(rng.randint(0, 20)))
    if r < 0.3:
        for _ in range(rng.randint(1, 4)):
            i = rng.randrange(len(b)); b[i] ^= 1 << rng.randrange(8)
    elif r < 0.5:
        b = b[:rng.randrange(len(b))]
    elif r < 0.65:
        i = rng.randrange(len(b)); b[i:i] = bytes(rng.randrange(256) for _ in range(rng.randint(1, 8)))
    elif r < 0.8:
        i = rng.randrange(len(b)); b[i] = rng.choice([0xdb, 0xda, 0xdf, 0xdd, 0xcf, 0xd3, 0xc0, 0xc1, 0x8f, 0x9f, 0xbf, 0xff])
    elif r < 0.9:
        i, j = sorted([rng.randrange(len(b)), rng.randrange(len(b))]); b = b + b[i:j]
    else:
        b = bytearray(rng.randrange(256) for _ in range(rng.randint(0, 64)))
    return bytes(b)


def structured_hostile(rng, nodes, n):
    """well-formed packets with hostile CONTENT: claims about the receiver itself, unknown ids, wild versions,
    internal flags on user keys, non-numeric / huge compaction values, wrong counts"""
    me = bytes.fromhex(nodes[n]["id"])
    other = bytes.fromhex(nodes[(n + 1) % len(nodes)]["id"])
    haddr = bytes.fromhex(nodes[(n + 1) % len(nodes)]["addr"]) if rng.random() < 0.8 else b"not-an-addr"
    ids = [me, other, b"zz", b"", b"ghost", b"\xdb", b"n\xff", b"\xed\xa0\x80", b"caf\xc3\xa9"]   # incl. ids that are not valid UTF-8 (finding U1)
    if rng.random() < 0.4:
        ents = [{"id": rng.choice(ids), "addr": rng.choice([b"10.9.9.9:1", b"", haddr]), "ver": gver(rng), "left": rng.random() < 0.3}
                for _ in range(rng.randint(0, 5))]
        return wire.digest_packet(other, haddr, rng.random() < 0.6, ents)
    parts = []
    for _ in range(rng.randint(0, 3)):
        es = []
        v = rng.choice([0, 1, 5, 100])
        for _ in range(rng.randint(0, 5)):
            v += rng.choice([0, 1, 1, 2, 10])
            k = rng.choice([b"k", b"_internal:left", b"_internal:compact", b"endpoint:e", b"proxy_addr", b""])
            val = rng.choice([b"", b"1", b"3", b"99999999999999999999999", b"-1", b"x", b"18446744073709551615", b"7"])
            es.append({"k": k, "v": val, "ver": v, "int": rng.random() < 0.5, "del": rng.random() < 0.3})
        cnt = rng.choice([len(es), len(es), len(es) + 1, 0, 100, -1, 2 ** 40])
        parts.append((rng.choice(ids), rng.choice([b"10.9.9.9:1", b""]), cnt, es))
    return wire.delta_packet(other, haddr, parts)


def world_monitor(case, out):
    """on the real observations: every emitted packet fits the max of that op and decodes (independent python
    decoder) to whole entries in strictly increasing version order per node; delivering or injecting any packet
    never changes the receiver's own entry; no panic / hang"""
    if out.get("panic"):
        return {"step": len(out.get("obs") or []), "why": "panic/timeout: " + out["panic"], "sig": "panic"}
    own = {i: n["id"] for i, n in enumerate(case["nodes"])}
    last_own = {i: (0, []) for i in own}
    for i, (op, ob) in enumerate(zip(case["ops"], out["obs"])):
        mx = op.get("max")
        for p in ob["sent"]:
            b = bytes.fromhex(p["bytes"])
            if mx is not None and len(b) > mx:
                return {"step": i, "why": "emitted packet of %d bytes exceeds max %d" % (len(b), mx), "sig": "size"}
            try:
                kind, hdr, body = wire.decode_packet(b)
            except Exception as e:
                return {"step": i, "why": "emitted packet does not decode: %r" % (e,), "sig": "emit-decode"}
            try:
                if kind == "delta":
                    for h, es in body:
                        vs = [e[b"version"] for e in es]
                        if any(x >= y for x, y in zip(vs, vs[1:])):
                            return {"step": i, "why": "delta entries of a node not in strictly increasing version order", "sig": "order"}
                        if len(es) > h[b"entries"]:
                            return {"step": i, "why": "more entries than advertised", "sig": "order"}
                    for (h, es) in body[:-1]:
                        if len(es) != h[b"entries"]:
                            return {"step": i, "why": "a node before the cut is incomplete", "sig": "order"}
            except (KeyError, TypeError, IndexError) as e:
                return {"step": i, "why": "emitted delta is not a sequence of node headers each followed by whole entries (%r)" % (e,), "sig": "emit-decode"}
        for v in ob["views"]:
            if v["id"] == own.get(v["n"]):
                cur = (v["ver"], v["entries"]) if v["present"] else None
                if op["op"] in ("deliver", "dup", "inject", "join", "leavestream", "liveness", "expire") and cur != last_own[v["n"]]:
                    return {"step": i, "why": "a received packet / liveness / expiry step changed the node's own published state", "sig": "own-changed"}
                last_own[v["n"]] = cur
    return None


def run(ctx):
    rng = random.Random(ctx["seed"])
    quick = ctx["tier"] == "quick"
    wd = ctx["wd"]
    binary = build_harness("pkg/gossip", dirs=["gossip"])
    violations, known = [], []
    # the receive loop itself (packetListener.Serve): datagrams read back to back, also ones that fill the read buffer exactly,
    # must be handled like one delivery at a time each (monitor only)
    gv, gcov = glue_probes(ID, binary, ctx["wd"], random.Random(ctx["seed"] + 17), ctx["tier"] == "quick", which=("burst",))
    violations += gv

    # ---- A. codec sweep over every max
    ncodec = 120 if quick else 1500
    ccases = [gen_codec_case(rng, "c%d" % i) for i in range(ncodec)]
    for c in ccases:
        # contents with long strings: selected sizes only (every size would be > 10^3 encodes)
        approx = sum(len(e["v"]) for p in c["delta"] for e in p["entries"]) // 2 + 60 * sum(len(p["entries"]) for p in c["delta"])
        if approx > 900:
            c["maxes"] = sorted(set([0, 10, 40, 41, 42, 43] + [rng.randrange(0, approx + 200) for _ in range(150)] + [approx + 5000]))
    t1 = time.time()
    out, logtxt = run_harness(binary, {"mode": "codec", "codec": ccases}, wd, tag="codec")
    if out is None:
        raise RuntimeError("codec harness failed:\n" + logtxt)
    couts = out["codec"]
    cmon = [(c, f) for c, o in zip(ccases, couts) for f in [codec_monitor(c, o)] if f]
    t2 = time.time()
    cdis = codec_correspondence(wd, ccases, couts)
    log("[C13] codec: harness %.1fs coq %.1fs" % (t2 - t1, time.time() - t2))
    sweep_points = sum(len(o["res"]) for o in couts)
    for c, f in cmon[:1]:
        violations.append({"what": "C13 codec monitor: %s (content %s, max %d)" % (f["why"], c["id"], f["max"]), "found_input": True,
                           "replay_obj": {"property": ID, "kind": "codec-monitor", "signature": f["sig"], "why": f["why"], "max": f["max"], "codec_case": c}})
    if cdis and not cmon:
        d = cdis[0]
        violations.append({"what": "encoder model/implementation disagreement at max %s for content %s (no size/prefix failure found)" % (d["max"], ccases[d["case"]]["id"]),
                           "found_input": False, "replay_obj": {"broken": "corr:C13:gossip_h:codec", "disagreement": d, "codec_case": ccases[d["case"]]}})

    # ---- B. cluster histories (every emitted packet compared byte for byte) + harvested packets
    nworld = 60 if quick else 1500
    wcases = [gen_world_case(rng, "w%d" % i, PROFILE_NET) for i in range(nworld)]
    wouts = run_world(binary, wd, wcases, tag="world1")
    harvested = [p["bytes"] for o in wouts for ob in (o.get("obs") or []) for p in ob["sent"]]

    # ---- C. hostile packets into the same kind of histories
    def packets(r, nodes, n):
        x = r.random()
        if x < 0.45 and harvested:
            return mutate(r, bytes.fromhex(r.choice(harvested))).hex()
        if x < 0.9:
            return structured_hostile(r, nodes, n).hex()
        return bytes(r.randrange(256) for _ in range(r.randint(0, 80))).hex()
    prof = dict(PROFILE_NET)
    prof["weights"] = dict(PROFILE_NET["weights"], inject=30)
    prof["packets"] = packets
    nhost = 80 if quick else 2500
    hcases = [gen_world_case(rng, "h%d" % i, prof) for i in range(nhost)]
    houts = run_world(binary, wd, hcases, tag="world2")
    allc, allo = wcases + hcases, wouts + houts
    wmon = [(c, f) for c, o in zip(allc, allo) for f in [world_monitor(c, o)] if f]
    okc = [(c, o) for c, o in zip(allc, allo) if not o.get("panic")]
    t3 = time.time()
    wdis = correspondence(ID, wd, [c for c, _ in okc], [o for _, o in okc])
    log("[C13] world: coq %.1fs for %d histories" % (time.time() - t3, len(okc)))
    seen = set()
    for c, f in wmon:
        if f["sig"] in seen:
            continue
        seen.add(f["sig"])

        def fails(cand, sig=f["sig"]):
            oo = run_world(binary, wd, [cand], tag="shrink")[0]
            ff = world_monitor(cand, oo)
            return ff is not None and ff["sig"] == sig
        small = shrink_case(c, fails)
        violations.append({"what": "C13 monitor: %s (history of %d ops)" % (f["why"], len(small["ops"])), "found_input": True,
                           "replay_obj": {"property": ID, "kind": "world-monitor", "signature": f["sig"], "why": f["why"], "case": small,
                                          "observed": run_world(binary, wd, [small], tag="shrink")[0]}})
    if wdis and not wmon and not cmon:
        d = wdis[0]
        violations.append({"what": "model/implementation disagreement (%s) at step %d of history %s; no size/prefix/own-state failure found"
                                   % (",".join(d["names"]), d["step"], okc[d["case"]][0]["id"]), "found_input": False,
                           "replay_obj": {"broken": "corr:C13:gossip_h:world", "disagreement": d, "case": okc[d["case"]][0], "observed": okc[d["case"]][1]}})

    # ---- D. raw hostile datagrams and streams (monitor only)
    nraw = 600 if quick else 20000
    raws = []
    for i in range(nraw):
        stream = rng.random() < 0.35
        if stream:
            base = bytes([rng.choice([3, 4, 3, 4, 1, 9]), rng.choice([0, 0, 0, 1])])
            body = mutate(rng, bytes.fromhex(rng.choice(harvested))[2:]) if harvested and rng.random() < 0.6 else bytes(rng.randrange(256) for _ in range(rng.randint(0, 60)))
            raws.append({"id": "r%d" % i, "bytes": (base + body).hex(), "stream": True})
        else:
            b = mutate(rng, bytes.fromhex(rng.choice(harvested))) if harvested and rng.random() < 0.7 else bytes(rng.randrange(256) for _ in range(rng.randint(0, 100)))
            raws.append({"id": "r%d" % i, "bytes": b.hex(), "stream": False})
    cdir = os.path.join(VERIF, "corpus", ID)
    if os.path.isdir(cdir):
        for f in sorted(os.listdir(cdir)):
            if f.endswith(".json"):
                raws.insert(0, json.load(open(os.path.join(cdir, f))))
    # a peer that joins properly and then never reads the reply (a full socket buffer in real life)
    raws.append({"id": "noread-join", "bytes": "", "stream": True, "noread": True})
    raws.append({"id": "noread-join-junk", "bytes": bytes(rng.randrange(256) for _ in range(40)).hex(), "stream": True, "noread": True})

    # a peer that goes away in the middle of a valid join request, at every byte offset: a request that is rejected is not
    # applied in part
    raws += [{"id": "joincut-%d" % k, "bytes": "", "stream": True, "joincut": k} for k in range(1, 260)]

    # a peer that connects to the stream port, sends nothing / one byte / the preamble / half a header, and then just stays:
    # the stream timeout bounds the handler from the moment the connection is accepted
    for k, hx_ in enumerate(["", "03", "0300", "030081a76e6f64655f6964", "04", "0400"]):
        raws.append({"id": "hold-%d" % k, "bytes": hx_, "stream": True, "hold": True})

    def run_raws(rs):
        """a crash of the whole process is bisected down to the datagram that causes it"""
        o, lg = run_harness(binary, {"mode": "hostile", "raw": rs}, wd, tag="hostile", timeout=600)
        if o is not None:
            return o["hostile"]
        if len(rs) == 1:
            m = re.search(r"(fatal error:[^\n]*|panic:[^\n]*|test timed out[^\n]*)", lg)
            return [{"panic": "process died: " + (m.group(1) if m else lg[-300:]), "timeout": False, "own_same": True, "err": "crash"}]
        mid = len(rs) // 2
        return run_raws(rs[:mid]) + run_raws(rs[mid:])
    routs = run_raws(raws)
    nacc = 0
    for r, o in zip(raws, routs):
        bad = None
        if o["panic"]: bad = "handler panicked: " + o["panic"]
        elif o["timeout"]: bad = "handler did not return within 15 s" + (" (the peer sent a valid join and never read the reply: the stream deadline must bound the write too)" if r.get("noread") else "") \
            + (" (the peer sent %d byte(s) and then stayed silent without closing; stream timeout 3 s)" % (len(r["bytes"]) // 2) if r.get("hold") else "")
        elif not o["own_same"]: bad = "own published state changed by a received %s" % ("stream" if r["stream"] else "datagram")
        elif r.get("joincut") and o["err"] and o.get("known", 0) > 0:
            bad = "a join request cut after %d of %d bytes was rejected (error, no reply) and yet applied in part: the receiver now knows %d node(s)" % (r["joincut"], o.get("join_len", 0), o["known"])
        elif r.get("joincut") and not o["err"] and r["joincut"] >= o.get("join_len", 10 ** 9) and o.get("known", 0) < 1:
            bad = "a complete valid join request was accepted but not applied"
        if not o["err"]: nacc += 1
        if bad:
            violations.append({"what": "C13 hostile input: " + bad, "found_input": True,
                               "replay_obj": {"property": ID, "kind": "hostile", "why": bad, "raw": r, "observed": o}})
            break

    ninj = sum(1 for c in hcases for op in c["ops"] if op["op"] == "inject")
    ndec = sum(1 for o in houts for ob in (o.get("obs") or []) if (ob.get("extra") or {}).get("dec"))
    cuts = sum(1 for o in couts for r in o["res"] if not r["err"] and r["max"] < o["full"] and len(r["bytes"]) // 2 > 0)
    cov = {"evaluations": len(ccases) + len(allc) + len(raws), "distinct_nontrivial": len({json.dumps(c, sort_keys=True) for c in ccases if c["digest"] or c["delta"]}) + len({json.dumps(c["ops"]) for c in allc}),
           "rule": "A: random digest/delta contents (string lengths and versions on format boundaries) x every max 0..full+2; B: random cluster histories (2-4 nodes); C: the same with hostile packets injected (mutated real packets, well-formed packets with hostile content, random bytes); D: raw hostile datagrams/streams. non-trivial = non-empty content / distinct op list",
           "samples": [ccases[0], hcases[0]["ops"][:6]],
           "correspondence": {"harness": "gossip_h codec + world modes", "codec_contents": len(ccases), "sweep_points": sweep_points, "truncating_points": cuts,
                              "histories": len(okc), "ops": sum(len(c["ops"]) for c in allc), "distribution": op_mix(allc),
                              "packets_compared": len(harvested) + sum(len(ob["sent"]) for o in houts for ob in (o.get("obs") or [])),
                              "injected": ninj, "injected_decodable_replayed_through_model": ndec,
                              "disagreements": len(cdis) + len(wdis), "seed": ctx["seed"]},
           "monitor": {"codec_contents": len(ccases), "histories": len(allc), "raw_hostile": len(raws), "raw_accepted_without_error": nacc,
                       "failures": len(cmon) + len(wmon)}}
    cov["glue_probes"] = gcov
    # translator half of the tie: the constants of the current source, regenerated; the theorems on them re-checked
    ccov, cviol = consts_common.regen(ctx, ID, binary)
    cov["source_constants"] = ccov
    if cviol and not any(v.get("found_input") for v in violations):
        violations.append(cviol)
    # bulk synchronisation over the datagram path (hundreds to thousands of entries; monitor only)
    bcov, bv = bulk_probe.run(ctx, ID)
    cov["bulk_pull"] = bcov
    violations += bv
    return {"coverage": cov, "violations": violations, "known": known}


def replay(path, wd):
    obj = json.load(open(path))
    if obj.get("kind") == "bulk":
        return bulk_probe.replay(obj, wd)
    binary = build_harness("pkg/gossip", dirs=["gossip"])
    if replay_glue(obj, binary, wd):
        return 0
    if "case" in obj:
        out = run_world(binary, wd, [obj["case"]], tag="replay")[0]
        print(json.dumps({"monitor": world_monitor(obj["case"], out)}, indent=1))
        print("model disagreements:", correspondence(ID, wd, [obj["case"]], [out], tag="replay") if not out.get("panic") else "n/a")
    elif "codec_case" in obj:
        out, _ = run_harness(binary, {"mode": "codec", "codec": [obj["codec_case"]]}, wd, tag="replay")
        print(json.dumps({"monitor": codec_monitor(obj["codec_case"], out["codec"][0])}, indent=1))
        print("model disagreements:", codec_correspondence(wd, [obj["codec_case"]], out["codec"]))
    elif "raw" in obj:
        out, _ = run_harness(binary, {"mode": "hostile", "raw": [obj["raw"]]}, wd, tag="replay")
        print(json.dumps(out, indent=1))
    return 0
