"""C09 - protected ports run no route without a valid, unexpired, correctly signed token."""
import random
from props.auth_common import *

ID = "C09"
COQ_TARGETS = ["Run/Run_Auth.vo"]
META = {
    "text": "Theorems (Properties/C09.v) over the Gallina model of middleware.Auth / JWTVerifier / MultiTenantVerifier and of gin's registration semantics: an accepted request carries a bearer token in the preferred header, signed by a configured key with an algorithm of that key's family, inside its validity window and matching audience/issuer; alg none, HMAC-under-public-key, wrong key and tampered tokens are rejected; on the route tables RE-EXTRACTED from the current source (go/ast) every route chain, NoRoute included, has the auth middleware ahead of every non-inert middleware and of the handler (by vm_compute + soundness lemma); a rejected request is answered 401 and reaches no handler. The model is tied to the code by sending ~1000 real requests with really signed JWTs to the three real servers and replaying them on the model inside Coq.",
    "note": "Trusted: Coq kernel+VM, the hand-written model, golang-jwt/keyfunc/crypto (abstracted as the signature relation), gin's dispatch and Abort, net/http header trimming, the go/ast extractor, the Go harness. Known finding A1: gin's trailing-slash redirect answers 301/307 before the middleware (no handler runs).",
    "technique": "Coq proof (decision-logic lemmas; route guarding by computation on regenerated tables) + model/implementation correspondence by differential replay",
}
ASSUMPTIONS = [
    "signature validity is the abstract relation: signed with that key's secret/private half, nothing altered, algorithm of the key's Go type (golang-jwt + crypto are trusted)",
    "time: the token is validated a few ms after the recorded instant; exp/nbf are generated at least 30 s away from now (wall clock, no injection point in JWTVerifier)",
    "net/http trims optional whitespace around header values; the model sees the trimmed value",
    "route paths are literals starting with '/', without '//', '.', '..' or catch-all segments (the extractor rejects anything else)",
    "gin.New() defaults (RedirectTrailingSlash on, HandleMethodNotAllowed/RedirectFixedPath/UseRawPath off); the extractor rejects writes to the engine",
    "the middleware gin.CustomRecoveryWithWriter, middleware.NewLogger and metrics.Handler never answer a request themselves (they may precede auth)",
    "tenant ids in the configuration are unique (server.go builds a map; a duplicate would silently overwrite)",
]
TRUSTED = ["python monitor (props/auth_common.py monitor_step): unauthorized by the property's own predicate => 401 and nothing reached",
           "harness/routes/main.go (go/ast route extractor, fails closed on unknown router uses)"]

PROFILE_SLOW = ("/debug/pprof/profile", "/debug/pprof/trace")


def key_configs():
    return [
        ("hmac", vc(hmac="hmacA")), ("rsa", vc(rsa="rsaA")), ("ec256", vc(ecdsa="ecA256")), ("ec384", vc(ecdsa="ecA384")),
        ("ec521", vc(ecdsa="ecA521")), ("hmac+rsa", vc(hmac="hmacA", rsa="rsaA")), ("hmac+ec", vc(hmac="hmacA", ecdsa="ecA256")),
        ("rsa+ec", vc(rsa="rsaA", ecdsa="ecA384")), ("all", vc(hmac="hmacA", rsa="rsaA", ecdsa="ecA256")),
        ("jwks", vc(jwks=JWKS_FULL)), ("jwks-rs", vc(jwks=JWKS_RS)), ("jwks-empty", vc(jwks=[])), ("nokeys", vc()),
    ]


AUD_ISS = [("", ""), ("aud1", ""), ("", "iss1"), ("aud1", "iss1")]


def concrete(path, rng):
    return "/".join((rng.choice(["e", "n2", "local", "x-1"]) if seg.startswith(":") else seg) for seg in path.split("/"))


def gen_case(rng, cid, tables, cfgs, slow_ok, per_route):
    """one deployment: cfgs = {port: vcfg or None}; every route of every port gets one valid token and
    `per_route` refusals, plus path/method variants"""
    case = {"id": cid, "wired": False}
    for port in ("proxy", "upstream", "admin"):
        c = cfgs[port]
        case[port] = portcfg(None if c is None else mtv(c), cluster=rng.random() < 0.8, registry=rng.random() < 0.8)
    steps = []
    for port in ("proxy", "upstream", "admin"):
        c = cfgs[port]
        table = build_table(tables[port], port_env(case[port]))
        good = valid_tokens(c, rng) if c else []
        bad = invalid_tokens(c, rng) if c else []
        rng.shuffle(bad)
        bi = [0]

        def next_bad():
            if not bad:
                return None
            b = bad[bi[0] % len(bad)]
            bi[0] += 1
            return b

        def with_auth(st, kind):
            """kind: none | good | bad"""
            st = dict(st)
            if kind == "good" and good:
                lab, t = rng.choice(good)
                if rng.random() < 0.3:
                    # both headers: the preferred one is right, Authorization is rubbish
                    st["xauth"] = hdr(copy.deepcopy(t)); st["auth"] = rng.choice([hdr(tok(raw="garbage")), hdr(None, prefix="Basic abc"), next_bad()[1] if bad else None])
                elif rng.random() < 0.5:
                    st["xauth"] = hdr(copy.deepcopy(t))
                else:
                    st["auth"] = hdr(copy.deepcopy(t))
                st["label"] = lab
            elif kind == "bad" and bad:
                lab, h = next_bad()
                r = rng.random()
                if r < 0.25 and good:
                    # preferred header wrong, Authorization right: must be refused
                    st["xauth"] = copy.deepcopy(h); st["auth"] = hdr(copy.deepcopy(rng.choice(good)[1]))
                    lab += "+good-in-Authorization"
                elif r < 0.6:
                    st["xauth"] = copy.deepcopy(h)
                else:
                    st["auth"] = copy.deepcopy(h)
                st["label"] = lab
            else:
                st["label"] = "no-header"
            return st

        routes = list(table["routes"])
        targets = []
        for r in routes:
            p = concrete(r["path"], rng)
            q = "seconds=1" if p in PROFILE_SLOW else ""
            base = step(port, p, method=r["method"], query=q)
            if port == "proxy":
                base["host"] = rng.choice(["e.example.com", "f.piko.example.com:8000", ""])
            nbad = per_route[port]
            kinds = ["none", "good"] + ["bad"] * nbad
            if p in PROFILE_SLOW and not slow_ok:
                kinds = ["none"] + ["bad"] * nbad
            if c is None:
                kinds = ["none"]
                if p in PROFILE_SLOW or (port == "admin" and rng.random() < 0.6):
                    continue        # unprotected port: the profile would really run for a second; sample the rest
            for k in kinds:
                targets.append(with_auth(base, k))
            # A1: the same path with the trailing slash toggled, never authenticated correctly ...
            alt = toggle_slash(p)
            if alt != "" and (port != "admin" or rng.random() < 0.5):
                targets.append(with_auth(step(port, alt, method=r["method"], query=q, host=base["host"]), rng.choice(["none", "bad"])))
                if rng.random() < 0.25 and not (p in PROFILE_SLOW) and c is not None:
                    targets.append(with_auth(step(port, alt, method=r["method"], query=q, host=base["host"]), "good"))
            # ... and another method on the same path (NoRoute chain)
            if rng.random() < (0.15 if port == "admin" else 0.5):
                m2 = rng.choice([m for m in ("GET", "POST", "PUT", "DELETE", "PATCH", "OPTIONS", "PURGE") if m != r["method"] and not any(x["path"] == r["path"] and x["method"] == m for x in routes)])
                targets.append(with_auth(step(port, p, method=m2, host=base["host"]), rng.choice(["none", "bad", "good"])))
        # NoRoute: unknown paths, the proxied application's own paths
        for p in ("/", "/unknown/path", "/_piko", "/piko/v1/upstream", "/status", "/healthz"):
            for k in ("none", "bad", "good"):
                if rng.random() < (0.25 if port == "admin" else 0.6) and (c is not None or k == "none"):
                    s = step(port, p, method=rng.choice(["GET", "GET", "POST", "OPTIONS", "DELETE"]))   # no method is exempt (a CORS preflight carries no credentials: it is refused like anything else)
                    if port == "proxy":
                        s["host"] = rng.choice(["e.example.com", "app.example.com:80", "", "localhost"])
                        if rng.random() < 0.3:
                            s["xendpoint"] = rng.choice(["e", "other"])
                    targets.append(with_auth(s, k))
        # admin forwarding is a route too
        if port == "admin":
            for fw in (PEER_ID, "nx", LOCAL_ID, ""):
                for k in (("none", "bad", "good") if c is not None else ("none",)):
                    if fw != PEER_ID and rng.random() < 0.5:
                        continue
                    targets.append(with_auth(step(port, rng.choice(["/health", "/status/cluster/nodes", "/metrics", "/nope"]), query="forward=" + fw), k))
        # a tenant header on a port without tenants is refused
        if c is not None and good:
            targets.append(dict(with_auth(step(port, routes[0]["path"] if routes and ":" not in routes[0]["path"] else "/", method="GET"), "good"), tenant="t1"))
        steps.extend(targets)
    case["steps"] = steps
    return case


def wired_cases(rng):
    """the production wiring server.NewServer(conf): which verifier each port gets"""
    out = []
    layouts = [
        {"proxy": vc(hmac="hmacA"), "upstream": vc(hmac="hmacB"), "admin": vc(ecdsa="ecA256"), "tenants": [{"id": "t1", "cfg": vc(rsa="rsaA")}]},
        {"proxy": vc(rsa="rsaA", aud="aud1"), "upstream": vc(jwks=JWKS_RS), "admin": None, "tenants": None},
        {"proxy": None, "upstream": None, "admin": vc(hmac="hmacC", iss="iss1"), "tenants": [{"id": "t1", "cfg": vc(hmac="hmacB")}, {"id": "t2", "cfg": vc(ecdsa="ecA384")}]},
        # key sets with audience / issuer: the same keys guard three ports that differ only in the audience and issuer they demand
        {"proxy": vc(jwks=JWKS_RS, aud="aud1", iss="iss1"), "upstream": vc(jwks=JWKS_RS, aud="aud2"), "admin": vc(jwks=JWKS_RS, iss="iss2"),
         "tenants": [{"id": "t1", "cfg": vc(jwks=JWKS_RS)}]},
    ]
    for li, L in enumerate(layouts):
        case = {"id": "wired-%d" % li, "wired": True}
        case["proxy"] = portcfg(None if L["proxy"] is None else mtv(L["proxy"]))
        up_default = L["upstream"] if L["upstream"] is not None else vc()
        case["upstream"] = portcfg(None if (L["upstream"] is None and not L["tenants"]) else mtv(up_default, L["tenants"]))
        case["admin"] = portcfg(None if L["admin"] is None else mtv(L["admin"]))
        allcfgs = [("proxy", L["proxy"]), ("upstream", L["upstream"]), ("admin", L["admin"])] + [("tenant:" + t["id"], t["cfg"]) for t in (L["tenants"] or [])]
        steps = []
        paths = {"proxy": [("/app", "e.example.com"), ("/_piko/v1/tcp/e", "")], "upstream": [("/piko/v1/upstream/e", "")],
                 "admin": [("/health", ""), ("/status/cluster/nodes", ""), ("/metrics", ""), ("/nothing", "")]}
        for port in ("proxy", "upstream", "admin"):
            for p, host in paths[port]:
                steps.append(dict(step(port, p, host=host), label="no-header"))
                steps.append(dict(step(port, toggle_slash(p), host=host), label="no-header"))
                for name, c in allcfgs:
                    if c is None:
                        continue
                    for lab, t in valid_tokens(c, rng)[:2]:
                        s = dict(step(port, p, host=host, auth=hdr(copy.deepcopy(t))), label="token-of:" + name)
                        steps.append(s)
                        if (name.startswith("tenant:") or port == "upstream") and lab == valid_tokens(c, random.Random(0))[0][0]:
                            for ten in ("t1", "tx"):
                                steps.append(dict(s, tenant=ten, auth=hdr(copy.deepcopy(t))))
                if case[port]["verifier"] is not None:
                    own = case[port]["verifier"]["default"]
                    inv = invalid_tokens(own, rng)
                    for lab, h in rng.sample(inv, 2) + [x for x in inv if "hmacEmpty" in x[0]]:
                        # (always) a forged HS* token signed with the zero-length secret: Config.Load turns "no HMAC
                        # secret" into an empty, non-nil key, which must not enable the HMAC family
                        steps.append(dict(step(port, p, host=host, auth=copy.deepcopy(h)), label=lab))
                    if port == "upstream":
                        for t in (L["tenants"] or []):
                            for lab, h in [x for x in invalid_tokens(t["cfg"], rng) if "hmacEmpty" in x[0]]:
                                steps.append(dict(step(port, p, host=host, auth=copy.deepcopy(h)), label=lab, tenant=t["id"]))
        if case["admin"]["verifier"] is not None:
            for lab, t in valid_tokens(L["admin"], rng)[:1]:
                steps.append(dict(step("admin", "/health", query="forward=" + PEER_ID, auth=hdr(copy.deepcopy(t))), label="forward-good"))
        steps.append(dict(step("admin", "/health", query="forward=" + PEER_ID), label="forward-no-header"))
        case["steps"] = steps
        out.append(case)
    return out


def gen_cases(rng, tables, tier):
    cases = []
    kcs = key_configs()
    rounds = 1 if tier == "quick" else 12
    n = 0
    for rd in range(rounds):
        for i, (name, kc) in enumerate(kcs):
            ai = AUD_ISS[(i + rd) % 4]
            c = dict(kc, aud=ai[0], iss=ai[1], noexp=rng.random() < 0.3)
            others = [dict(k2, aud=AUD_ISS[(j + rd) % 4][0], iss=AUD_ISS[(j + 1) % 4][1]) for j, (_, k2) in enumerate(kcs)]
            # the config under test rotates over the ports; the two other ports get another config or no verifier
            port = ("admin", "proxy", "upstream")[(i + rd) % 3]
            cfgs = {p: (rng.choice(others) if rng.random() < 0.5 else None) for p in ("proxy", "upstream", "admin")}
            cfgs[port] = c
            if port != "admin" and rng.random() < 0.7:
                cfgs["admin"] = None      # keep the (large) admin table cheap when it is not under test
            per_route = {"admin": 2 if port == "admin" else 1, "proxy": 8 if port == "proxy" else 2, "upstream": 10 if port == "upstream" else 2}
            cases.append(gen_case(rng, "d%d-%s-%s" % (n, name, port), tables, cfgs, slow_ok=(n % 12 == 0), per_route=per_route))
            n += 1
    cases.extend(wired_cases(rng))
    cases.extend(reuse_cases(rng))
    return cases


def reuse_cases(rng):
    """a token that expires in three seconds is used while valid and the very same token bytes are presented again after its
    expiry: the second request has to be refused whatever the first one left behind (the verifier keeps no memory of tokens
    it has accepted; disable_disconnect_on_expiry concerns open upstream connections, not the validity of a token)"""
    out = []
    for i, noexp in enumerate((False, True)):
        c = vc(hmac="hmacA", noexp=noexp)
        case = {"id": "reuse-%d" % i, "wired": False}
        for port in ("proxy", "upstream", "admin"):
            case[port] = portcfg(mtv(c), cluster=True, registry=True)
        t = tok(alg="HS256", key="hmacA", exp=3)
        steps = [dict(step("admin", "/health", auth=hdr(copy.deepcopy(t))), label="reuse-after-expiry", reuse_ms=4800),
                 dict(step("admin", "/status/cluster/nodes", xauth=hdr(copy.deepcopy(t))), label="reuse-after-expiry", reuse_ms=4800),
                 dict(step("proxy", "/app", host="e.example.com", auth=hdr(copy.deepcopy(t))), label="reuse-after-expiry", reuse_ms=4800),
                 dict(step("admin", "/metrics", auth=hdr(tok(alg="HS256", key="hmacA", exp=3600))), label="reuse-still-valid", reuse_ms=300)]
        case["steps"] = steps
        out.append(case)
    return out


def reuse_monitor(cases, outs):
    """-> list of failures {sig, why, case}"""
    fails = []
    n = 0
    for c, o in zip(cases, outs):
        for r in (o.get("reuse") or []):
            n += 1
            st, ob = c["steps"][r["step"]], o["obs"][r["step"]]
            times = ob.get("auth_t") or ob.get("xauth_t") or {}
            exp = times.get("exp")
            if r.get("fail"):
                fails.append({"sig": "reuse-harness", "why": "second request failed: " + r["fail"], "case": c}); continue
            if ob["status"] == 401 or exp is None:
                continue
            late = r["now_ns"] / 1e9 > exp + 0.5
            if late and r["status"] != 401:
                fails.append({"sig": "expired-token-accepted", "case": dict(c, steps=[st]),
                              "why": "%s %s %s: a token accepted %.1f s before its expiry (status %d) was presented again %.1f s AFTER its expiry and answered %d, not 401 (disable_disconnect_on_expiry=%s)"
                                     % (st["port"], st["method"], st["path"], exp - ob["now_ns"] / 1e9, ob["status"], r["now_ns"] / 1e9 - exp, r["status"], c[st["port"]]["verifier"]["default"]["noexp"])})
            if not late and r["now_ns"] / 1e9 < exp - 0.5 and r["status"] != ob["status"]:
                fails.append({"sig": "valid-token-refused-on-reuse", "case": dict(c, steps=[st]),
                              "why": "%s %s: the same unexpired token was answered %d first and %d the second time" % (st["port"], st["path"], ob["status"], r["status"])})
    return fails, n


def kinds_of(cases):
    mix = {}
    for c in cases:
        for s in c["steps"]:
            k = s.get("label", "?").split(":")[0]
            mix[k] = mix.get(k, 0) + 1
    return mix


def run(ctx):
    rng = random.Random(ctx["seed"])
    violations, known = [], []
    t0 = time.time()
    tables, pv, info = refresh_tables_and_proofs(ID, ctx, COQ_TARGETS)
    log("[%s] route tables regenerated (changed=%s) in %.1fs" % (ID, info.get("tables_changed"), time.time() - t0))
    cov_extra = {"route_tables": info}
    if tables is None:
        return {"coverage": {"explanation": "route extraction failed", "discharged": 0}, "violations": [pv], "known": []}
    binary = build_harness(HARNESS_PKG, dirs=["auth"])
    cases = gen_cases(rng, tables, ctx["tier"])
    t1 = time.time()
    v, k, stats = evaluate(ID, ctx, cases, binary, known_sigs_for(ID))
    log("[%s] %d requests in %d deployments: harness %.1fs, model %.1fs, total %.1fs" % (
        ID, sum(len(c["steps"]) for c in cases), len(cases), stats["t_harness"], stats["t_model"], time.time() - t1))
    violations += v
    known += k
    rfails, nreuse = reuse_monitor(cases, stats["outs"])
    for f in rfails[:1]:
        violations.append({"what": "C09 monitor [%s]: %s" % (f["sig"], f["why"]), "found_input": True,
                           "replay_obj": {"property": ID, "kind": "reuse", "signature": f["sig"], "why": f["why"], "case": f["case"]}})
    cov_extra["token_reuse"] = {"second_requests": nreuse, "failures": len(rfails)}
    dis = stats["dis"]
    if pv is not None:
        cov_extra["discharged"] = 0
        if not any(x.get("found_input") for x in violations):
            violations.append(pv)
        else:
            for x in violations:
                x["replay_obj"]["broken_theorem"] = pv["what"][:400]
    mon_real = [f for f in stats["failures"] if f[2]["sig"] not in known_sigs_for(ID)]
    if dis and not mon_real:
        # model and implementation disagree although no request violated the property: look harder with fresh seeds
        extra = []
        for s2 in range(1, 4):
            extra_cases = gen_cases(random.Random(ctx["seed"] + 7919 * s2), tables, "quick")
            v2, _, st2 = evaluate(ID, ctx, extra_cases, binary, known_sigs_for(ID))
            extra += v2
            if v2:
                break
        if extra:
            violations += extra
        else:
            d = dis[0]
            c, o = stats["okc"][d["case"]]
            st, ob = c["steps"][d["step"]], o["obs"][d["step"]]
            violations.append({"what": "model/implementation disagreement on %s %s %s (%s): model says %s, implementation answered %d %r select=%s addconn=%s; no property-violating request found in 3 more seeds"
                                       % (st["port"], st["method"], st["path"], st.get("label"), d["model"], ob["status"], ob["err"], ob["select"], ob["addconn"]),
                               "found_input": False,
                               "replay_obj": {"broken": "corr:C09:auth_h:serve", "disagreements": len(dis), "model": d["model"],
                                              "case": dict(c, steps=[st]), "observed": ob}})
    nreq = sum(len(c["steps"]) for c in cases)
    distinct = len({json.dumps([c[s["port"]], {k: v for k, v in s.items() if k != "label"}], sort_keys=True) for c in cases for s in c["steps"]
                    if s.get("label") != "no-header"})
    sample = []
    for c in cases[:2] + cases[-1:]:
        for s, o in list(zip(c["steps"], stats["outs"][cases.index(c)].get("obs") or []))[:3]:
            sample.append({"deployment": c["id"], "verifier": c[s["port"]]["verifier"], "request": {k: v for k, v in s.items() if v not in (None, "")},
                           "observed": {k: o[k] for k in ("status", "err", "select", "addconn", "forward")}})
    routes = {p: len(build_table(tables[p], {"verifier": True, "clusterState != nil": True, "s.registry != nil": True})["routes"]) for p in tables}
    cov = {"evaluations": nreq, "distinct_nontrivial": distinct,
           "rule": "13 key configurations (each alone, pairs, all, JWK sets, no keys) x audience/issuer, rotated over the three ports; for every route of the regenerated table: no header, one valid token, several refusals drawn from ~45 kinds (alg none, cross-family, wrong key, tampered segment/claims, header alg override, expired/nbf, aud/iss, header forms, malformed, JWKS kid/alg), trailing-slash and method variants, NoRoute paths, admin forwarding; + 3 deployments built by the real server.NewServer(conf). non-trivial = carries an authorization header; distinct by (port config, request)",
           "samples": sample,
           "correspondence": {"harness": "harness/auth (package server): real proxy/upstream/admin servers on loopback, stub manager + stub admin peer; wired cases via server.NewServer",
                              "histories": len(stats["okc"]), "ops": sum(len(c["steps"]) for c, _ in stats["okc"]),
                              "distribution": kinds_of(cases), "disagreements": len(dis), "seed": ctx["seed"], "routes_per_port": routes},
           "monitor": {"histories": nreq, "failures": len(stats["failures"]),
                       "failures_by_signature": {s: len([1 for f in stats["failures"] if f[2]["sig"] == s]) for s in {f[2]["sig"] for f in stats["failures"]}}}}
    cov.update(cov_extra)
    return {"coverage": cov, "violations": violations, "known": known}


def replay(path, wd):
    obj = json.load(open(path))
    case = obj.get("case")
    if not case:
        print(json.dumps(obj, indent=1)[:4000])
        return 0
    regen_tables(wd)
    coq_make(["Properties/%s.vo" % ID] + COQ_TARGETS)
    binary = build_harness(HARNESS_PKG, dirs=["auth"])
    out = run_cases(binary, wd, [case], tag="replay")[0]
    res = []
    for st, ob in zip(case["steps"], out.get("obs") or []):
        res.append({"request": {k: v for k, v in st.items() if v not in (None, "")}, "implementation": ob, "monitor": monitor_step(case, st, ob)})
    print(json.dumps({"deployment": out.get("panic") or "ok", "steps": res, "second_requests": out.get("reuse"),
                      "reuse_monitor": [dict(f, case=None) for f in reuse_monitor([case], [out])[0]]}, indent=1))
    if not out.get("panic"):
        print("model disagreements:", correspondence(ID, wd, [case], [out], tag="replay"))
    return 0
