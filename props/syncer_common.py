"""Generator, trace->Coq translation and helpers for the server/gossip harness (real syncer + cluster.State on the
real gossip state); used by C04, C11."""
import random
from props.gossip_common import *

EPS = ["e", "f", "e1", "E", "a:b", "nt:e", "x_addr"]      # ids with the separator and with letters of the key prefix "endpoint:"
LOOKUPS = [H(e) for e in EPS]

PROFILE_SYNC = {"min_nodes": 2, "max_nodes": 4, "min_ops": 25, "max_ops": 70,
                "weights": {"addep": 16, "rmep": 10, "compact": 6, "leave": 2, "send": 22, "deliver": 26, "dup": 3, "drop": 5,
                            "join": 3, "leavestream": 2, "liveness": 4, "upsert": 2, "delete": 1}}


def gen_sync_case(rng, cid, profile, expire=False):
    base = gen_world_case(rng, cid, dict(profile, weights={k: v for k, v in profile["weights"].items() if k not in ("addep", "rmep")}))
    nn = len(base["nodes"])
    ops = []
    # most nodes sync at once, some later (pending / missing-state paths)
    late = []
    for n in range(nn):
        if rng.random() < 0.85:
            ops.append({"op": "sync", "n": n})
        else:
            late.append(n)
    wts = profile["weights"]
    p_ep = (wts.get("addep", 0) + wts.get("rmep", 0)) / float(sum(wts.values()))
    synced = {op["n"] for op in ops if op["op"] == "sync"}
    for op in base["ops"]:
        if op["op"] == "leave" and (op["n"] % nn) not in synced:
            # a piko node publishes its addresses (Sync, in the constructor) before it can ever leave
            n0 = op["n"] % nn
            ops.append({"op": "sync", "n": n0}); synced.add(n0)
            if n0 in late: late.remove(n0)
        if rng.random() < p_ep:
            n = rng.randrange(nn)
            kind = "addep" if rng.random() < wts["addep"] / float(wts["addep"] + wts["rmep"]) else "rmep"
            ops.append({"op": kind, "n": n, "e": H(rng.choice(EPS))})
        if late and rng.random() < 0.08:
            n1 = late.pop(); ops.append({"op": "sync", "n": n1}); synced.add(n1)
        if op["op"] in ("upsert", "delete"):
            # user writes through the gossip API are not part of piko's server; keep a few with harmless keys
            op = dict(op, k=H(rng.choice(["x", "other", "y"])))
        if expire and rng.random() < 0.04:
            ops.append({"op": "expire", "n": rng.randrange(nn), "ref": base["nodes"][rng.randrange(nn)]["id"], "d": rng.choice([1, -1, 10 ** 9])})
        ops.append(op)
    for n in late:
        ops.append({"op": "sync", "n": n})
    return {"id": cid, "nodes": base["nodes"], "ops": ops, "lookups": LOOKUPS}


def run_sync_world(binary, wd, cases, tag="sync"):
    out, logtxt = run_harness(binary, {"cases": cases}, wd, tag=tag, test="TestVerifHarness_Syncer")
    if out is None:
        raise RuntimeError("syncer harness run failed:\n" + logtxt)
    return out["cases"]


STATUS = {"": "SNone", "active": "SActive", "unreachable": "SUnreach", "left": "SLeft"}


def c_cnode(n):
    eps = coq_list(["(%s, %d%%Z)" % (cs(k), v) for k, v in sorted(n["endpoints"].items())])
    return "(Build_cnode %s %s %s %s %s)" % (cs(n["id"]), STATUS[n["status"]], cs(n["proxy"]), cs(n["admin"]), eps)


def c_dump(idx, d):
    return "(Build_odump %d %s %s %s)" % (idx, coq_list([c_cnode(n) for n in d["nodes"]]), coq_list([c_cnode(n) for n in d["pending"]]),
                                          coq_list(["(%s, %s)" % (cs(e), cs(g)) for e, g in sorted(d["lookup"].items())]))


def own_endpoint_order(case, ob, n):
    """endpoint ids in the order Sync published them = version order of the endpoint: entries in the own view,
    restricted to the endpoints the node's cluster state really holds (the dump of the same step)"""
    own = case["nodes"][n]["id"]
    local = {}
    d = ((ob.get("extra") or {}).get("hook") or {}).get(str(n))
    if d:
        for nd in d["nodes"]:
            if nd["id"] == own:
                local = nd["endpoints"]
    for v in ob["views"]:
        if v["n"] == n and v["id"] == own:
            pre = "endpoint:".encode().hex()
            return [e["k"][len(pre):] for e in v["entries"] if e["k"].startswith(pre) and not e["del"] and e["k"][len(pre):] in local]
    return []


def scase_to_coq(case, out):
    nn = len(case["nodes"])
    steps = []
    inflight = 0
    synced_eps = {}
    for op, ob in zip(case["ops"], out["obs"]):
        k = op["op"]
        gob = ob
        if k == "sync":
            sop = "(SSync %d %s)" % (op["n"] % nn, coq_list([cs(x) for x in own_endpoint_order(case, ob, op["n"] % nn)]))
        elif k == "addep":
            sop = "(SAddEp %d %s)" % (op["n"] % nn, cs(op["e"]))
        elif k == "rmep":
            sop = "(SRmEp %d %s)" % (op["n"] % nn, cs(op["e"]))
        else:
            if k in ("deliver", "dup", "drop") and ob.get("skipped") and inflight == 0:
                gob = dict(ob); gob["idx"] = 0
            sop = "(SG %s)" % c_op(case, op, gob, nn)
        reports = None
        if k in ("deliver", "dup") and ob.get("extra") and "reports" in ob["extra"]:
            reports = ob["extra"]["reports"]
        dumps = []
        for idx, d in sorted(((ob.get("extra") or {}).get("hook") or {}).items()):
            dumps.append(c_dump(int(idx), d))
        steps.append("(%s, Build_sobs %s %s)" % (sop, c_obs(gob, reports), coq_list(dumps)))
        if k in ("deliver", "drop") and not (ob.get("skipped") and inflight == 0):
            inflight -= 1
        inflight += len(ob["sent"])
    specs = coq_list(["(%s, %s, %s, %s)" % (cs(n["id"]), cs(n["addr"]), cs(H("10.1.0.%d:8000" % (i + 1))), cs(H("10.1.0.%d:8001" % (i + 1))))
                      for i, n in enumerate(case["nodes"])])
    return "(Build_scase %s %s)" % (specs, coq_list(steps))


def scases_file(cases, outs):
    body = ["From Coq Require Import List String NArith ZArith Bool.",
            "From Piko Require Import Base.Maps Base.Strs Gossip.Types Gossip.Local Gossip.Apply Gossip.Codec Gossip.World Cluster.Syncer Run.Run_Gossip Run.Run_Codec Run.Run_Syncer.",
            "Import ListNotations. Open Scope string_scope. Open Scope list_scope. Open Scope N_scope.",
            "Definition cases : list scase := ["]
    body.append(";\n".join(scase_to_coq(c, o) for c, o in zip(cases, outs)))
    body.append("].")
    body.append("Definition M := Eval vm_compute in smismatches cases.")
    body.append("Print M.")
    return "\n".join(body) + "\n"


SCODE_NAMES = dict(CODE_NAMES)
SCODE_NAMES.update({9: "illegal-sync-order", 10: "unknown-node", 11: "routing-table", 12: "pending-nodes", 13: "lookup"})


def scorrespondence(pid, wd, cases, outs, tag="s"):
    import concurrent.futures as cf
    shard = min(max(6, (len(cases) + 15) // 16), 48)
    jobs = [(si, cases[si:si + shard], outs[si:si + shard]) for si in range(0, len(cases), shard)]

    def work(job):
        si, cc, oo = job
        rc, out = coq_eval(wd, "Cases_%s_%s_%d" % (pid, tag, si), scases_file(cc, oo))
        mm = parse_mismatches(out)
        if rc != 0 or mm is None:
            raise RuntimeError("coq evaluation of syncer cases failed:\n" + out[-3000:])
        return [(si + c, s, codes) for (c, s, codes) in mm]

    dis = []
    with cf.ThreadPoolExecutor(max_workers=16) as ex:
        for r in ex.map(work, jobs):
            for (c, s, codes) in r:
                dis.append({"case": c, "step": s, "codes": codes, "names": [SCODE_NAMES.get(x, str(x)) for x in codes]})
    return dis
