"""C11 - membership lifecycle: left, unreachable, recovered and expired nodes."""
import random
from props.gossip_common import *
from props import wire

from props import round_probe
from props import consts_common
ID = "C11"
COQ_TARGETS = ["Run/Run_Gossip.vo", "Run/Run_Round.vo"]
META = {
    "text": "C11_silent_stays_unreachable / C11_heard_is_reachable (Compose/LiveFD.v): with the accrual detector of C12 wired into UpdateLiveness as gossip.New does, a peer found unreachable stays unreachable under EVERY schedule of later evaluations and of messages from anybody else until the detector is told it was heard from, and is reachable at an evaluation made the instant it is heard (the real detector inside the real state behind a virtual clock is run against this: silence, recovery, expiry). Theorems (Properties/C11.v) over the Gallina model of ApplyDigest/ApplyDelta/UpdateLiveness/RemoveExpiredAt/LeaveLocal: a digest entry flagged left never creates a node; once a view is marked left it stays left until removed and the liveness evaluation skips it; a node is removed by an expiry sweep iff its expiry is set and the sweep time is after it, left/unreachable transitions stamp expiry = now + 60 s and recovery clears it; unreachable is set/cleared exactly by the detector's verdict; no operation ever marks the local node unreachable, gives it an expiry or removes it, and only its own LeaveLocal sets its left flag. The clause 'stays forgotten unless it really returns' is REFUTED on the faithful model and on the real code (finding F2, zombie re-learned from a peer's digest) and is carried as a known finding with its witness replayed on every run. Every clause is also checked on every step of generated histories of real clusterStates (scripted failure detector) by an independent monitor, and model and implementation are compared field by field. Round 6: C11_round_contacts_unreachable / C11_round_never_self_nor_departed (Gossip/Round.v: every unreachable peer keeps being contacted by gossipRound, which is what lets it be heard from again; a round never addresses the node itself nor a departed peer), tied to real gossipRound calls; C11_expiry_and_marker_are_the_sources on the constants regenerated from the compiled source (coq/generated/Constants.v).",
    "note": "The phi detector itself is C12; here its verdict is an oracle input. Routing status mirroring is checked with C04's harness. Trusted: as C02.",
    "technique": "Coq proof of the lifecycle clauses on the receiver model + refutation witness (F2) + per-step lifecycle monitor and model/implementation correspondence + translator tie for nodeExpiry / the left marker (regenerated constants) + peer-selection model",
}
ASSUMPTIONS = ["the failure detector's suspicion levels are inputs (scripted in the harness)",
               "wall-clock 'now' is read back from the stamped expiry (oracle), so expiry = now + 60 s is checked as 'expiry set' on the implementation and exactly on the model",
               "node ids are valid UTF-8 (cluster configuration); since fix U1 the real ApplyDigest/applyDeltaEntry ignore any other id, the world model applies the same filter where forged packets enter (WInject, Gossip/World.v sanitize_body)"]
TRUSTED = ["python lifecycle monitor (props/C11.py)"]


def monitor(case, out):
    if out.get("panic"):
        return {"step": len(out.get("obs") or []), "why": "panic/timeout: " + out["panic"], "sig": "panic"}
    ids = [n["id"] for n in case["nodes"]]
    nn = len(ids)
    views = {}
    for i, nid in enumerate(ids):
        views[(i, nid)] = {"present": True, "ver": 0, "entries": [], "left": False, "unreach": False, "expiry": 0}
    inflight = []
    expired_at = {}          # (observer, id) -> step at which observer expired id
    last_step_of = {i: -1 for i in range(nn)}   # last step at which node i itself acted as owner/sender
    for i, (op, ob) in enumerate(zip(case["ops"], out["obs"])):
        k = op["op"]
        delivered = None
        if k in ("deliver", "dup", "drop") and not ob.get("skipped") and inflight:
            delivered = inflight[ob["idx"]]
            if k != "dup":
                inflight = inflight[:ob["idx"]] + inflight[ob["idx"] + 1:]
        if k in ("upsert", "delete", "compact", "leave"): last_step_of[op["n"] % nn] = i
        if k == "send": last_step_of[op["a"] % nn] = i
        if k in ("join", "leavestream"): last_step_of[op["a"] % nn] = i
        before = dict(views)
        for v in ob["views"]:
            if v["present"]:
                views[(v["n"], v["id"])] = v
            else:
                views.pop((v["n"], v["id"]), None)
        # --- local node immune
        for n in range(nn):
            me = views.get((n, ids[n]))
            if me is None:
                return {"step": i, "why": "the local node %s was removed from its own state" % ids[n], "sig": "local-removed"}
            if me["unreach"] or me["expiry"] != 0:
                return {"step": i, "why": "the local node %s is marked unreachable / given an expiry" % ids[n], "sig": "local-marked"}
            was = before.get((n, ids[n]))
            if me["left"] and not (was and was["left"]) and not (k == "leave" and op["n"] % nn == n):
                return {"step": i, "why": "the local node %s became left without its own leave" % ids[n], "sig": "local-left"}
        for ev in ob["events"]:
            if ev["id"] == ids[ev["n"]]:
                return {"step": i, "why": "membership event about the local node", "sig": "local-event"}
        # --- left is final; expiry bookkeeping
        for key, v in views.items():
            o, x = key
            if x == ids[o]:
                continue
            was = before.get(key)
            if was is not None and was["left"] and not v["left"]:
                return {"step": i, "why": "%s no longer considers %s left" % (ids[o], x), "sig": "left-not-final"}
            if was is not None and v["left"] and not was["left"] and was["expiry"] != 0 and v["expiry"] <= was["expiry"]:
                # "is forgotten after the expiry period": the period counts from the moment the observer learns of the departure,
                # not from an earlier moment at which it merely suspected the node
                return {"step": i, "why": "%s learned that %s left while holding it as unreachable; the expiry period was not restarted (deadline unchanged)" % (ids[o], x),
                        "sig": "leave-keeps-old-deadline"}
            if (v["left"] or v["unreach"]) and v["expiry"] == 0:
                return {"step": i, "why": "%s holds %s as left/unreachable without an expiry" % (ids[o], x), "sig": "no-expiry"}
            if not v["left"] and not v["unreach"] and v["expiry"] != 0:
                return {"step": i, "why": "%s holds %s as live but with an expiry" % (ids[o], x), "sig": "stale-expiry"}
        # --- "seen as left by every node that learns of it": an observer that has caught up with everything a departed node
        # published knows that it left (observers that expired the node in between are the business of finding F3)
        for xi, x in enumerate(ids):
            own = views.get((xi, x))
            if own is None or not own["left"]:
                continue
            for o in range(nn):
                v = views.get((o, x))
                if o == xi or v is None or (o, x) in expired_at:
                    continue
                if v["ver"] >= own["ver"] and not v["left"]:
                    return {"step": i, "why": "%s has caught up with the departed node %s (version %d of %d) but does not consider it left"
                                              % (ids[o], x, v["ver"], own["ver"]), "sig": "left-not-learned"}
        # --- liveness verdicts
        if k == "liveness":
            n = op["n"] % nn
            for (o, x), v in views.items():
                if o != n or x == ids[n] or v["left"]:
                    continue
                want = op["levels"].get(x, 0.0) > 20.0
                if v["unreach"] != want:
                    return {"step": i, "why": "%s: unreachable flag of %s is %s but the detector says %s" % (ids[n], x, v["unreach"], want), "sig": "liveness"}
        # --- expiry sweep
        if k == "expire":
            n = op["n"] % nn
            t = ob["t"]
            for (o, x), v in before.items():
                if o != n:
                    continue
                should = v["expiry"] != 0 and t > v["expiry"]
                gone = (o, x) not in views
                if should != gone:
                    return {"step": i, "why": "%s: node %s %s by the sweep at t (expiry %s, t-expiry %s ns)" %
                                              (ids[n], x, "not removed" if should else "removed", v["expiry"], t - v["expiry"] if v["expiry"] else None), "sig": "expiry"}
                if gone:
                    expired_at[(o, x)] = i
        # --- no re-learning of left nodes from a digest; zombies
        for ev in ob["events"]:
            if ev["kind"] != "join":
                continue
            o, x = ev["n"], ev["id"]
            if delivered is not None:
                try:
                    kind, hdr, body = wire.decode_packet(bytes.fromhex(delivered["bytes"]))
                except Exception:
                    kind = None
                if kind == "digest":
                    ent = [d for d in body if d[b"id"].hex() == x]
                    if ent and all(d[b"left"] for d in ent):
                        return {"step": i, "why": "%s learned %s from a digest entry flagged left" % (ids[o], x), "sig": "relearn-left"}
            if (o, x) in expired_at and x in ids:
                xi = ids.index(x)
                if last_step_of[xi] < expired_at[(o, x)]:
                    nv = views.get((o, x))
                    fresh = delivered is not None and k in ("deliver", "dup") and delivered.get("origin", -1) > expired_at[(o, x)]
                    if nv is not None and nv["left"] and fresh:
                        return {"step": i, "why": "%s had forgotten the LEFT node %s (expired at step %d) and re-learned it at step %d from a peer although %s has not taken a step since"
                                                  % (ids[o], x, expired_at[(o, x)], i, x), "sig": "relearn-left"}
                    return {"step": i, "why": "%s had forgotten %s (expired at step %d) and re-learned it at step %d although %s has not taken a step since"
                                              % (ids[o], x, expired_at[(o, x)], i, x), "sig": "F2-zombie"}
        # causal origin of the new packets: a delta reply inherits the origin of the digest it answers
        for p in ob["sent"]:
            q = dict(p)
            if p["bytes"].startswith("02") and delivered is not None:
                q["origin"] = delivered.get("origin", i)
            else:
                q["origin"] = i
            inflight.append(q)
    return None


def f2_witness():
    nodes = [{"id": H(x), "addr": H("10.0.0.%d:7000" % (i + 1))} for i, x in enumerate(["b", "c", "x"])]
    ops = [{"op": "upsert", "n": 2, "k": H("k"), "v": H("v")},
           {"op": "join", "a": 2, "b": 0}, {"op": "join", "a": 2, "b": 1},     # x joins b and c; then x "crashes" (takes no further step)
           {"op": "join", "a": 1, "b": 0},                                        # c and b know each other
           {"op": "liveness", "n": 0, "levels": {H("x"): 30.0}},                  # b suspects x
           {"op": "expire", "n": 0, "ref": H("x"), "d": 1},                       # ... and forgets it
           {"op": "send", "a": 1, "b": 0, "max": 1400},                           # c (has not expired x yet) gossips with b
           {"op": "deliver", "i": 0, "max": 1400}]                                # b re-learns x as live from c's digest
    return {"id": "corpus-f2", "nodes": nodes, "ops": ops}


def left_relearn_witness():
    """x left and told b and c; b has expired it, c not yet; b gossips with c: c must not push x back (seeded
    change C11-2: the digest handler answering with the nodes the sender does not list)"""
    nodes = [{"id": H(x), "addr": H("10.0.0.%d:7000" % (i + 1))} for i, x in enumerate(["b", "c", "x"])]
    D = {"op": "deliver", "i": 0, "max": 1400}
    ops = [{"op": "upsert", "n": 2, "k": H("k"), "v": H("v")},
           {"op": "join", "a": 2, "b": 0}, {"op": "join", "a": 2, "b": 1}, {"op": "join", "a": 1, "b": 0},
           {"op": "leave", "n": 2}, {"op": "leavestream", "a": 2, "b": 0}, {"op": "leavestream", "a": 2, "b": 1},
           {"op": "expire", "n": 0, "ref": H("x"), "d": 1},
           {"op": "send", "a": 0, "b": 1, "max": 1400}, D, D, D, D]
    return {"id": "corpus-left-relearn", "nodes": nodes, "ops": ops}


def left_compact_witness(late_join=True):
    """x declares itself left and then compacts its state (what a busy node's shutdown does: closing the upstreams leaves
    a pile of tombstones); whoever catches up with x afterwards - through the join stream or datagram exchanges - must
    still learn that it left"""
    nodes = [{"id": H(x), "addr": H("10.0.0.%d:7000" % (i + 1))} for i, x in enumerate(["b", "c", "x"])]
    D = {"op": "deliver", "i": 0, "max": 1400}
    ops = [{"op": "upsert", "n": 2, "k": H("endpoint:e"), "v": H("1")}, {"op": "upsert", "n": 2, "k": H("endpoint:f"), "v": H("1")},
           {"op": "join", "a": 2, "b": 0},
           {"op": "delete", "n": 2, "k": H("endpoint:e")}, {"op": "delete", "n": 2, "k": H("endpoint:f")},
           {"op": "leave", "n": 2}, {"op": "compact", "n": 2, "th": 1}]
    if late_join:
        ops += [{"op": "join", "a": 1, "b": 2}]
    ops += [{"op": "send", "a": 0, "b": 2, "max": 1400}, D, D, D, D, {"op": "send", "a": 0, "b": 2, "max": 1400}, D, D, D, D]
    return {"id": "corpus-left-compact" + ("-join" if late_join else ""), "nodes": nodes, "ops": ops}


CORPUS = [f2_witness(), left_relearn_witness(), left_compact_witness(True), left_compact_witness(False)]


def run(ctx):
    rng = random.Random(ctx["seed"])
    quick = ctx["tier"] == "quick"
    wd = ctx["wd"]
    n = 150 if quick else 4000
    cases = list(CORPUS) + [gen_world_case(rng, "g%d" % i, PROFILE_MEMBER) if i % 3 else gen_member_case(rng, "m%d" % i) for i in range(n)]
    binary = build_harness("pkg/gossip", dirs=["gossip"])
    outs = run_world(binary, wd, cases)
    kf = {k["sig"]: k for k in known_findings() if k["property"] == ID and k["kind"] == "known"}
    violations, known = [], []
    # glue probes (monitor only): the code around the modelled handlers - unreachable peers keep being contacted, a completed exchange reaches the failure detector
    gv, gcov = glue_probes(ID, binary, wd, rng, quick, which=('round', 'heartbeat', 'rediscover'))
    violations += gv
    # peer selection against the model Gossip/Round.v (real gossipRound on memberships with live, suspected and departed peers)
    rcov, rv = round_probe.run(ctx, ID, {"round"})
    violations += rv
    # the real accrual detector wired into the real state behind a virtual clock (silence, recovery, expiry)
    fv, fcov = fd_probe(ID, binary, wd, rng, quick)
    violations += fv
    mon = [(c, f) for c, o in zip(cases, outs) for f in [monitor(c, o)] if f]
    okc = [(c, o) for c, o in zip(cases, outs) if not o.get("panic")]
    dis = correspondence(ID, wd, [c for c, _ in okc], [o for _, o in okc])
    seen = set()
    nknown = 0
    for c, f in mon:
        if f["sig"] in kf:
            nknown += 1
        if f["sig"] in seen:
            continue
        seen.add(f["sig"])
        if f["sig"] in kf:
            known.append("sig=%s %s [history %s, step %d: %s]" % (f["sig"], kf[f["sig"]]["text"], c["id"], f["step"], f["why"]))
            continue

        def fails(cand, sig=f["sig"]):
            oo = run_world(binary, wd, [cand], tag="shrink")[0]
            ff = monitor(cand, oo)
            return ff is not None and ff["sig"] == sig
        small = shrink_case(c, fails)
        violations.append({"what": "C11 monitor: %s (history of %d ops)" % (f["why"], len(small["ops"])), "found_input": True,
                           "replay_obj": {"property": ID, "kind": "monitor", "signature": f["sig"], "why": f["why"], "case": small,
                                          "observed": run_world(binary, wd, [small], tag="shrink")[0]}})
    if "F2-zombie" in kf and "F2-zombie" not in seen:
        violations.append({"what": "the F2 witness no longer reproduces: KNOWN_FINDINGS.txt is stale", "found_input": False,
                           "replay_obj": {"broken": "known-finding:F2", "case": CORPUS[0]}})
    if dis and not [1 for _, f in mon if f["sig"] not in kf]:
        d = dis[0]
        violations.append({"what": "model/implementation disagreement (%s) at step %d of history %s; no lifecycle failure found"
                                   % (",".join(d["names"]), d["step"], okc[d["case"]][0]["id"]), "found_input": False,
                           "replay_obj": {"broken": "corr:C11:gossip_h:world", "disagreement": d, "case": okc[d["case"]][0], "observed": okc[d["case"]][1]}})
    kinds = {}
    for o in outs:
        for ob in (o.get("obs") or []):
            for ev in ob["events"]:
                kinds[ev["kind"]] = kinds.get(ev["kind"], 0) + 1
    cov = {"evaluations": len(cases), "distinct_nontrivial": len({json.dumps(c["ops"]) for c in cases if any(op["op"] in ("liveness", "expire", "leave") for op in c["ops"])}),
           "rule": "random histories over 2-4 real clusterStates with a scripted detector: leave, leave streams, liveness verdicts around the threshold, expiry sweeps around the stamped expiry (-1 ns, 0, +1 ns, +1 s, +1 h), digest/delta exchange with loss/dup/reorder; non-trivial = contains leave/liveness/expire; corpus = F2 zombie witness",
           "samples": [CORPUS[0]["ops"]],
           "correspondence": {"harness": "gossip_h world mode", "histories": len(okc), "ops": sum(len(c["ops"]) for c in cases), "distribution": op_mix(cases),
                              "event_kinds": kinds, "disagreements": len(dis), "seed": ctx["seed"]},
           "monitor": {"histories": len(cases), "failures": len(mon), "failures_known": nknown}}
    cov["glue_probes"] = gcov
    cov["peer_selection_model"] = rcov
    cov["real_detector"] = fcov
    # translator half of the tie: the constants of the current source, regenerated; the theorems on them re-checked
    ccov, cviol = consts_common.regen(ctx, ID, binary)
    cov["source_constants"] = ccov
    if cviol and not any(v.get("found_input") for v in violations):
        violations.append(cviol)
    return {"coverage": cov, "violations": violations, "known": known}


def replay(path, wd):
    obj = json.load(open(path))
    if obj.get("kind") == "members":
        return round_probe.replay(obj, wd)
    case = obj["case"]
    binary = build_harness("pkg/gossip", dirs=["gossip"])
    if replay_glue(obj, binary, wd):
        return 0
    out = run_world(binary, wd, [case], tag="replay")[0]
    print(json.dumps({"monitor": monitor(case, out)}, indent=1))
    if not out.get("panic"):
        print("model disagreements:", correspondence(ID, wd, [case], [out], tag="replay"))
    return 0
