"""C03 - gossip converges: every live node ends up with every live node's exact state."""
import random
from props.gossip_common import *
from props.C02 import Tracker, ekey

from props import round_probe
from props import bulk_probe
ID = "C03"
COQ_TARGETS = ["Run/Run_Gossip.vo", "Run/Run_Round.vo"]
META = {
    "text": "Theorems (Properties/C03.v) over the Gallina world model: a caught-up view equals the owner's state exactly (keys, values, tombstones, version); no step of the world other than a local write ever increases the total deficit PsiAll or moves any reported version backwards (loss, duplication, reordering, truncation, relays, streams included); one complete digest/delta exchange a <- b on a quiet network, composed from the real handlers (WSend + deliveries), strictly decreases PsiAll whenever a is behind b's own state, a's digest lists b and the first entry of the reply fits (C03_pull_makes_progress: whatever node the cut reply starts with - id closure of the cluster is proved as an invariant); hence ANY sequence of at least PsiAll all-pairs rounds of such exchanges ends with PsiAll = 0 and a quiet network (C03_rounds_converge), and PsiAll = 0 means every view IS the owner's state (C03_converged_views); a concrete two-node instance satisfies every hypothesis (C03_rounds_example). The same schedules are run on the REAL nodes on every run: after a random lossy/compacting prefix and a backlog of mixed-size entries larger than one packet, all-pairs rounds of loss-free exchanges with packet sizes 215..1400; an independent monitor checks the deficit never increases, strictly decreases every round until all live views equal the owners' states, and model and implementation agree on every packet and view. Who a running node exchanges with is modelled too (Gossip/Round.v, gossipRound over LiveNodes/UnreachableNodes with Go's map order and random numbers as oracles): every live and every unreachable peer is the target for a whole residue class of the random number, a sequence of rounds hitting every residue contacts them all, and what a round sends is a legal observation (C03_round_reaches_every_live_peer, C03_rounds_cover, C03_round_targets_legal) - compared with ~2000 real gossipRound calls per run on memberships with live, suspected and departed peers. Bulk pulls of 300-4200 entries through the real datagram exchange (monitor only: every datagram fits, no hole below the reported version after any round, final view = owner's state). The legality check the harness applies to real rounds is proved sound and complete for the model (C03_round_targets_legal, C03_round_legal_complete); the variant 'cap the delta before the sort' is refuted (C03_capped_delta_variant_refuted).",
    "note": "Partial: that the running node's random peer selection and timers produce such a schedule (fairness), and exchanges overlapping in time, are not modelled (for arbitrary interleavings only no-regress is proved). An entry larger than max_packet_size - headers blocks dissemination for ever (finding G1, KNOWN_FINDINGS.txt): the theorems carry the hypothesis 'roomy', the witness is replayed on every run.",
    "technique": "Coq proof (deficit measure: monotone + strict progress per exchange under 'fits') + convergence campaigns on real nodes with a deficit monitor + model/implementation correspondence + peer-selection model with legality check of real rounds + bulk-pull probe (monitor only)",
}
ASSUMPTIONS = ["every single entry fits a packet together with the headers (otherwise: known finding G1)",
               "fair schedule: every ordered pair of live nodes exchanges in every round, packets of the round are not lost",
               "no local writes during the convergence phase"]
TRUSTED = ["python deficit monitor (props/C03.py)"]

PREFIX = {"min_nodes": 2, "max_nodes": 4, "min_ops": 15, "max_ops": 45,
          "weights": {"upsert": 30, "delete": 12, "compact": 8, "leave": 2, "send": 18, "deliver": 16, "dup": 2, "drop": 10, "join": 2}}


def exchange(a, b, mx):
    return [{"op": "send", "a": a, "b": b, "max": mx}] + [{"op": "deliver", "i": 0, "max": mx} for _ in range(4)]


def gen_case(rng, cid, rounds):
    c = gen_world_case(rng, cid, PREFIX)
    nn = len(c["nodes"])
    ops = list(c["ops"])
    # a backlog larger than one packet, with entries of mixed sizes (so that the cut falls between a large and a
    # small entry): the convergence phase then has to move it in several partial deltas
    for n in range(nn):
        if rng.random() < 0.8:
            for _ in range(rng.randint(3, 9)):
                ops.append({"op": "upsert", "n": n, "k": H("b%d" % rng.randrange(12)), "v": H("x" * rng.choice([0, 1, 5, 20, 45, 60]))})
            if rng.random() < 0.3:
                ops.append({"op": "delete", "n": n, "k": H("b%d" % rng.randrange(12))})
    # earlier packets are lost
    ops += [{"op": "drop", "i": 0} for _ in range(60)]
    # everybody gets to know everybody (connected knowledge graph): one join per node to node 0
    for n in range(1, nn):
        ops.append({"op": "join", "a": n, "b": 0})
    # a node that has left is gone: it told (at least) one live node on its way out and takes no part in the rounds,
    # so the others have to learn its final state - left marker included - through relays
    gone = sorted({op["n"] % nn for op in ops if op["op"] == "leave"})
    alive = [i for i in range(nn) if i not in gone]
    if len(alive) >= 2 or not gone:
        for y in gone:
            ops.append({"op": "leavestream", "a": y, "b": rng.choice(alive)})
    else:
        alive = list(range(nn))       # (nearly) everybody left: keep them talking, as before
    start = len(ops)
    marks = []
    for r in range(rounds):
        pairs = [(a, b) for a in alive for b in alive if a != b]
        rng.shuffle(pairs)
        for a, b in pairs:
            ops += exchange(a, b, rng.choice([215, 230, 260, 300, 350, 420, 600, 1400]))
        marks.append(len(ops))
    return dict(c, ops=ops, phase_start=start, round_ends=marks)


def deficit(tr, live):
    """number of log versions of y that live observer o has not reached, over ordered pairs (o, y):
    y live, or y left but already known to o"""
    total = 0
    per = {}
    for o, oid in enumerate(tr.ids):
        if oid not in live:
            continue
        for y in tr.ids:
            if y == oid:
                continue
            V = tr.views.get((o, y))
            if V is None:
                if y not in live:
                    continue
                d = len({e[2] for e in tr.logs[y]}) + 1
            else:
                d = len({e[2] for e in tr.logs[y] if e[2] > V["ver"]})
            per[(oid, y)] = d
            total += d
    return total, per


def converged(tr, live):
    for o, oid in enumerate(tr.ids):
        if oid not in live:
            continue
        for y in live:
            if y == oid:
                continue
            V = tr.views.get((o, y))
            O = tr.own(y)
            if V is None or V["ver"] != O["ver"] or sorted(map(ekey, V["entries"])) != sorted(map(ekey, O["entries"])):
                return False
    return True


def monitor(case, out):
    if out.get("panic"):
        return {"step": len(out.get("obs") or []), "why": "panic/timeout: " + out["panic"], "sig": "panic"}
    tr = Tracker(case)
    start = case["phase_start"]
    ends = set(case["round_ends"])
    live = set(tr.ids)
    prev = None
    round_start_d = None
    minmax = min([op["max"] for op in case["ops"][start:] if "max" in op] or [1400])
    for i, (op, ob) in enumerate(zip(case["ops"], out["obs"])):
        tr.update(ob)
        if op["op"] == "leave":
            live.discard(tr.ids[op["n"] % len(tr.ids)])
        if i < start - 1:
            continue
        d, per = deficit(tr, live)
        # per ordered pair (observer, owner): what the observer still misses never grows. (A pair may APPEAR: a node
        # that left is counted from the moment the observer first hears of it - from a peer that does not know yet
        # that it left - so the total may go up without anything being lost.)
        if prev is not None:
            worse = sorted(k for k in per if k in prev and per[k] > prev[k])
            if worse:
                k = worse[0]
                return {"step": i, "why": "what %s misses of %s grew from %d to %d versions without any local write"
                                          % (bytes.fromhex(k[0]).decode("latin-1"), bytes.fromhex(k[1]).decode("latin-1"), prev[k], per[k]), "sig": "regress"}
        prev = per
        if i == start - 1:
            round_start_d = per
        if (i + 1) in ends:
            progressed = any(k not in round_start_d or per[k] < round_start_d[k] for k in per) or any(k not in per for k in round_start_d)
            if not progressed and (d > 0 or not converged(tr, live)):
                big = [e for y in live for e in tr.own(y)["entries"] if (len(e["k"]) + len(e["v"])) // 2 + 90 > minmax]
                return {"step": i, "why": "a full round of loss-free all-pairs exchanges made no progress (deficit %d) although views differ from the owners' states (live nodes, and nodes that left and are known to the observer): %r"
                                          % (d, {k: v for k, v in per.items() if v}), "sig": "G1-oversize" if big else "stuck"}
            round_start_d = per
    d, per = deficit(tr, live)
    if d > 0 or not converged(tr, live):
        return {"step": len(case["ops"]) - 1, "why": "not converged after %d rounds (deficit %d still decreasing)" % (len(ends), d), "sig": "slow"}
    return None


def g1_witness():
    a, b = {"id": H("a"), "addr": H("10.0.0.1:7000")}, {"id": H("b"), "addr": H("10.0.0.2:7000")}
    ops = [{"op": "upsert", "n": 1, "k": H("k1"), "v": H("1")}, {"op": "upsert", "n": 1, "k": H("big"), "v": H("x" * 2000)},
           {"op": "upsert", "n": 1, "k": H("k3"), "v": H("3")}, {"op": "send", "a": 0, "b": 1, "max": 1400},
           {"op": "deliver", "i": 0, "max": 1400}, {"op": "deliver", "i": 0, "max": 1400}, {"op": "deliver", "i": 0, "max": 1400}, {"op": "deliver", "i": 0, "max": 1400}]
    start = len(ops)
    ends = []
    for r in range(3):
        ops += exchange(0, 1, 1400) + exchange(1, 0, 1400)
        ends.append(len(ops))
    return {"id": "corpus-g1", "nodes": [a, b], "ops": ops, "phase_start": start, "round_ends": ends}


def many_small_witness(nkeys=450, mx=400, rounds=46):
    """an owner with far more (tiny) outstanding entries than a datagram has BYTES: every partial delta announces the number of
    entries outstanding for the node, not the number it carries; the backlog still drains, a little every round
    (seeded changes C03-10 / C13-9: a decoder sanity check rejecting such packets)"""
    a, b = {"id": H("a"), "addr": H("10.0.0.1:7000")}, {"id": H("b"), "addr": H("10.0.0.2:7000")}
    ops = [{"op": "upsert", "n": 1, "k": H("k%03d" % j), "v": H("")} for j in range(nkeys)]
    ops += [{"op": "join", "a": 0, "b": 1}] if False else exchange(0, 1, 1400)[:1] + [{"op": "deliver", "i": 0, "max": 1400}] * 4
    start = len(ops)
    ends = []
    for r in range(rounds):
        ops += exchange(0, 1, mx) + exchange(1, 0, mx)
        ends.append(len(ops))
    return {"id": "corpus-many-small", "nodes": [a, b], "ops": ops, "phase_start": start, "round_ends": ends}


CORPUS = [g1_witness(), many_small_witness()]


def run(ctx):
    rng = random.Random(ctx["seed"])
    quick = ctx["tier"] == "quick"
    wd = ctx["wd"]
    n = 60 if quick else 1500
    rounds = 6
    cases = list(CORPUS) + [gen_case(rng, "g%d" % i, rounds) for i in range(n)]
    binary = build_harness("pkg/gossip", dirs=["gossip"])
    outs = run_world(binary, wd, cases)
    kf = {k["sig"]: k for k in known_findings() if k["property"] == ID and k["kind"] == "known"}
    violations, known = [], []
    # glue probes (monitor only): the code around the modelled handlers - receive loop, peer selection of gossipRound, heartbeat of a completed exchange
    gv, gcov = glue_probes(ID, binary, wd, rng, quick, which=('burst', 'round', 'heartbeat', 'rediscover'))
    violations += gv
    # peer selection against the model Gossip/Round.v (real gossipRound on memberships with live, suspected and departed peers)
    rcov, rv = round_probe.run(ctx, ID, {"round"})
    violations += rv
    mon = [(c, f) for c, o in zip(cases, outs) for f in [monitor(c, o)] if f]
    okc = [(c, o) for c, o in zip(cases, outs) if not o.get("panic")]
    dis = correspondence(ID, wd, [c for c, _ in okc], [o for _, o in okc])
    seen = set()
    for c, f in mon:
        if f["sig"] in seen:
            continue
        seen.add(f["sig"])
        if f["sig"] in kf:
            known.append("sig=%s %s [history %s, step %d: %s]" % (f["sig"], kf[f["sig"]]["text"], c["id"], f["step"], f["why"][:300]))
            continue
        violations.append({"what": "C03 monitor: %s (history of %d ops)" % (f["why"][:400], len(c["ops"])), "found_input": True,
                           "replay_obj": {"property": ID, "kind": "monitor", "signature": f["sig"], "why": f["why"], "case": c}})
    if "G1-oversize" in kf and "G1-oversize" not in seen:
        violations.append({"what": "the G1 witness no longer reproduces: KNOWN_FINDINGS.txt is stale", "found_input": False,
                           "replay_obj": {"broken": "known-finding:G1", "case": CORPUS[0]}})
    if dis and not [1 for _, f in mon if f["sig"] not in kf]:
        d = dis[0]
        violations.append({"what": "model/implementation disagreement (%s) at step %d of history %s; convergence still observed"
                                   % (",".join(d["names"]), d["step"], okc[d["case"]][0]["id"]), "found_input": False,
                           "replay_obj": {"broken": "corr:C03:gossip_h:world", "disagreement": d, "case": okc[d["case"]][0]}})
    from props import wire
    ncut = nfull = 0
    for c, o in okc:
        for ob in (o.get("obs") or [])[c["phase_start"]:]:
            for pkt in ob["sent"]:
                try:
                    kind, hdr, body = wire.decode_packet(bytes.fromhex(pkt["bytes"]))
                    if kind == "delta" and body:
                        if any(len(es) < h[b"entries"] for h, es in body): ncut += 1
                        else: nfull += 1
                except Exception:
                    pass
    cov = {"evaluations": len(cases), "distinct_nontrivial": len({json.dumps(c["ops"][:c["phase_start"]]) for c in cases}),
           "rule": "random lossy prefix (writes, deletes, compactions, leave, partial exchanges, all pending packets dropped) on 2-4 real nodes, then %d rounds of loss-free all-pairs exchanges with max packet size in {215..1400} (every entry fits, most deltas do not); non-trivial/distinct by prefix; corpus = G1 oversize witness" % rounds,
           "samples": [cases[1]["ops"][:cases[1]["phase_start"]][:12]],
           "correspondence": {"harness": "gossip_h world mode", "histories": len(okc), "ops": sum(len(c["ops"]) for c in cases), "distribution": op_mix(cases),
                              "convergence_phase_deltas_cut_by_packet_size": ncut, "convergence_phase_deltas_complete": nfull,
                              "disagreements": len(dis), "seed": ctx["seed"]},
           "monitor": {"histories": len(cases), "failures": len(mon), "failures_known": len([1 for _, f in mon if f["sig"] in kf])}}
    cov["glue_probes"] = gcov
    cov["peer_selection_model"] = rcov
    # bulk synchronisation over the datagram path (hundreds to thousands of entries; monitor only)
    bcov, bv = bulk_probe.run(ctx, ID)
    cov["bulk_pull"] = bcov
    violations += bv
    return {"coverage": cov, "violations": violations, "known": known}


def replay(path, wd):
    obj = json.load(open(path))
    if obj.get("kind") == "bulk":
        return bulk_probe.replay(obj, wd)
    if obj.get("kind") == "members":
        return round_probe.replay(obj, wd)
    case = obj["case"]
    binary = build_harness("pkg/gossip", dirs=["gossip"])
    if replay_glue(obj, binary, wd):
        return 0
    out = run_world(binary, wd, [case], tag="replay")[0]
    print(json.dumps({"monitor": monitor(case, out)}, indent=1))
    if not out.get("panic"):
        print("model disagreements:", correspondence(ID, wd, [case], [out], tag="replay"))
    return 0
