"""C05 - advertised upstream counts equal the upstreams actually registered."""
from props.upstream_common import *

ID = "C05"
COQ_TARGETS = ["Run/Run_Upstream.vo"]
META = {
    "text": "C05_peers_routing_table_tells_the_truth (Compose/EndToEnd.v): once a peer's gossip view has caught up, its routing table lists this node with a positive count for ep exactly when this node's manager holds an upstream for ep (C05 + C02/C03 + C14 + C04 composed). Theorems (Properties/C05.v) over the Gallina model of LoadBalancedManager.AddConn/RemoveConn composed with cluster.State.AddLocalEndpoint/"
            "RemoveLocalEndpoint/LocalEndpointListeners, the syncer's onLocalEndpointUpdate and the gossip state's UpsertLocal/DeleteLocal (Piko.Gossip.Local): "
            "after every op sequence (connects, disconnects of registered, already removed, never registered and twice registered upstreams, selections, remote-node "
            "updates) and for every endpoint e: cluster count = length of the balancer of e = number of connected upstreams by the history's own bookkeeping, the live "
            "gossip entry endpoint:<e> is exactly strconv.Itoa of it and absent iff it is 0, and strconv.Atoi of the entry gives it back (below 2^63); so an endpoint is "
            "advertised iff at least one upstream is connected. C05_refuted_pinned: the model of the pinned RemoveConn (decrement regardless) breaks the equation on "
            "[add u1 e; add u2 e; remove u1; remove u1] (defect D1, fixed in /repo; the witness is the first corpus entry). The model is tied to the code by replaying "
            "generated scripts on the real LoadBalancedManager + cluster.State + server/gossip syncer + pkg/gossip state and on the model inside Coq after every op.",
    "note": "Proof for all sequential histories. For schedules the statement rests on the manager mutex being held across the whole chain (AddConn/RemoveConn -> "
            "cluster.State -> subscriber -> gossip state); this is exercised by the concurrent mode (8 goroutines, quiescent state compared with the model; race detector "
            "in the thorough tier), not proved here (C20).",
    "technique": "Coq proof (invariant over op lists linking balancers, cluster counts and gossip entries) + model/implementation correspondence by differential replay",
}
ASSUMPTIONS = [
    "counts are modelled unbounded; strconv.Atoi(strconv.Itoa(n)) = n is proved for n < 2^63",
    "the gossip state is written only through the syncer subscriber (the harness uses a one hour gossip interval, so CompactLocal never runs during a script; compaction keeps live keys, C17)",
    "sequential semantics: AddConn/RemoveConn are atomic under LoadBalancedManager.mu (exercised by the concurrent mode, proved under C20)",
    "the node starts with no local endpoints (Sync's initial endpoint loop is empty)",
]
TRUSTED = ["python C05 monitor (props/upstream_common.py monitor_c05) as the independent oracle: script bookkeeping vs Endpoints() vs cluster counts vs decoded gossip entries"]


def run(ctx):
    return run_property(ctx, ID, monitor_c05, [1, 2, 3], "counts")


def replay(path, wd):
    return replay_property(path, wd, ID, monitor_c05)
