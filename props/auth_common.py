"""Shared machinery of C09 / C10: route-table extraction, request/token generators, the python monitors,
trace -> Coq translation and the correspondence evaluation (harness/auth, coq/Run/Run_Auth.v)."""
import copy, json, os, random, re, sys, time
sys.path.insert(0, os.path.dirname(os.path.dirname(os.path.abspath(__file__))))
from lib.common import *

HARNESS_PKG = "server"
HARNESS_TEST = "TestVerifHarness_Auth"
GEN_V = os.path.join(COQ, "generated", "RouteTables.v")
LOCAL_ID, PEER_ID = "local", "n2"

KEY_FAMILY = {"hmacA": "FHmac", "hmacB": "FHmac", "hmacC": "FHmac", "hmacEmpty": "FHmac", "rsaA": "FRsa", "rsaB": "FRsa",
              "ecA256": "FEcdsa", "ecB256": "FEcdsa", "ecA384": "FEcdsa", "ecA521": "FEcdsa", "edA": "FEd"}
EC_ALG = {"ecA256": "ES256", "ecB256": "ES256", "ecA384": "ES384", "ecA521": "ES512"}


def alg_family(a):
    if a in ("HS256", "HS384", "HS512"): return "FHmac"
    if a in ("RS256", "RS384", "RS512", "PS256", "PS384", "PS512"): return "FRsa"
    if a in ("ES256", "ES384", "ES512"): return "FEcdsa"
    if a == "EdDSA": return "FEd"
    return None


# ------------------------------------------------------------------ route tables (regenerated on every run)
class ExtractError(Exception):
    pass


def regen_tables(wd):
    """run the go/ast extractor on the CURRENT tree; rewrite coq/generated/RouteTables.v when it changed.
    returns (tables, changed)"""
    jpath = os.path.join(wd, "routes.json")
    vtmp = os.path.join(wd, "RouteTables.v.new")
    src = os.path.join(VERIF, "harness", "routes", "main.go")
    # the extractor only uses the standard library: compile it once per source version, run it on the current tree
    exe = os.path.join(WORK, "bin", "routes_extract_" + hashlib.sha1(open(src, "rb").read()).hexdigest()[:12])
    if not os.path.exists(exe):
        os.makedirs(os.path.dirname(exe), exist_ok=True)
        b = sh(["go", "build", "-o", exe + ".tmp%d" % os.getpid(), src], cwd=REPO, env=GOENV, timeout=900, check=False)
        if b.returncode != 0:
            raise ExtractError("extractor does not build: " + b.stdout[-2000:])
        os.replace(exe + ".tmp%d" % os.getpid(), exe)
    p = sh([exe, "-repo", REPO, "-v", vtmp, "-json", jpath], cwd=REPO, env=GOENV, timeout=600, check=False)
    if p.returncode != 0:
        raise ExtractError(p.stdout[-3000:])
    new = open(vtmp).read()
    changed = False
    old = open(GEN_V).read() if os.path.exists(GEN_V) else None
    if old != new:
        with Lock("coq"):      # only a real change touches the shared Coq tree
            os.makedirs(os.path.dirname(GEN_V), exist_ok=True)
            with open(GEN_V, "w") as f:
                f.write(new)
            changed = True
    os.remove(vtmp)
    return json.load(open(jpath)), changed


def holds(env, cond):
    return all(env.get(l["name"], False) == l["val"] for l in cond)


def join_paths(base, rel):
    if rel == "":
        return base
    return (base[:-1] if base.endswith("/") else base) + rel


def build_table(ops, env):
    """python replica of gin's registration semantics - used ONLY to pick request paths and to describe coverage
    (the guard theorem and the model run on the Coq side)"""
    groups = {"": ("/", [])}
    routes, noroute, allnoroute = [], [], []
    for o in ops:
        if not holds(env, o["cond"]):
            continue
        k = o["kind"]
        if k == "use":
            if o["group"] in groups:
                b, h = groups[o["group"]]
                groups[o["group"]] = (b, h + o["mws"])
                if o["group"] == "":
                    allnoroute = groups[""][1] + noroute
        elif k == "group":
            if o["parent"] in groups:
                b, h = groups[o["parent"]]
                groups[o["group"]] = (join_paths(b, o["prefix"]), h + o["mws"])
        elif k == "handle":
            if o["group"] in groups:
                b, h = groups[o["group"]]
                routes.append({"method": o["method"], "path": join_paths(b, o["path"]), "mws": h + o["mws"], "handler": o["handler"]})
        elif k == "noroute":
            noroute = o["mws"]
            allnoroute = groups[""][1] + noroute
    return {"routes": routes, "noroute": allnoroute}


def port_env(pc):
    return {"verifier": pc["verifier"] is not None, "clusterState != nil": pc["cluster"], "s.registry != nil": pc["registry"]}


# ------------------------------------------------------------------ specs
def vc(**k):
    d = {"hmac": "", "rsa": "", "ecdsa": "", "jwks": None, "aud": "", "iss": "", "noexp": False}
    d.update(k)
    return d


def tok(**k):
    d = {"raw": None, "alg": "HS256", "hdr_alg": "", "key": "hmacA", "kid": None, "exp": None, "nbf": None, "aud": None,
         "aud_single": False, "iss": None, "endpoints": None, "has_eps": False, "tamper": ""}
    d.update(k)
    if d["endpoints"] is not None:
        d["has_eps"] = True
    return d


def hdr(t, prefix="Bearer ", suffix=""):
    return {"prefix": prefix, "tok": t, "suffix": suffix}


def step(port, path, **k):
    d = {"port": port, "method": "GET", "path": path, "query": "", "host": "", "xendpoint": "", "xauth": None, "auth": None, "tenant": ""}
    d.update(k)
    return d


def mtv(default, tenants=None):
    return {"default": default, "tenants": tenants}


def portcfg(verifier, cluster=True, registry=True):
    return {"verifier": verifier, "cluster": cluster, "registry": registry}


JWKS_FULL = [{"kid": "r1", "key": "rsaA", "alg": ""}, {"kid": "e1", "key": "ecA256", "alg": "ES256"},
             {"kid": "h1", "key": "hmacB", "alg": ""}, {"kid": "d1", "key": "edA", "alg": ""},
             {"kid": "e3", "key": "ecA384", "alg": ""}]
JWKS_RS = [{"kid": "r1", "key": "rsaA", "alg": "RS256"}]


def cfg_keys(c):
    """[(key name, kid or None, jwk alg or '')] configured in a verifier config"""
    if c["jwks"] is not None:
        return [(j["key"], j["kid"], j["alg"]) for j in c["jwks"]]
    return [(c[s], None, "") for s in ("hmac", "rsa", "ecdsa") if c[s]]


def enabled(c):
    return bool(c["hmac"] or c["rsa"] or c["ecdsa"] or c["jwks"] is not None)


def algs_for(key, jwks):
    f = KEY_FAMILY[key]
    if f == "FHmac": return ["HS256", "HS384", "HS512"]
    if f == "FRsa": return ["RS256", "RS384", "RS512"] + (["PS256"] if jwks else [])
    if f == "FEcdsa": return [EC_ALG[key]]
    return ["EdDSA"]


def good_claims(c, rng):
    """claims that satisfy config c"""
    k = {}
    r = rng.random()
    if r < 0.5: k["exp"] = rng.choice([30, 60, 3600])
    if rng.random() < 0.3: k["nbf"] = rng.choice([-30, -3600, 0])
    if c["aud"]:
        k["aud"] = rng.choice([[c["aud"]], [c["aud"]], ["other", c["aud"]], ["", c["aud"]]])
        k["aud_single"] = rng.random() < 0.5
    elif rng.random() < 0.2:
        k["aud"] = ["whatever"]
    if c["iss"]:
        k["iss"] = c["iss"]
    elif rng.random() < 0.2:
        k["iss"] = "someone"
    return k


def valid_tokens(c, rng):
    out = []
    jw = c["jwks"] is not None
    for key, kid, jalg in cfg_keys(c):
        for a in algs_for(key, jw):
            if jalg and jalg != a:
                continue
            out.append(("valid:%s:%s" % (a, key), tok(alg=a, key=key, kid=kid, **good_claims(c, rng))))
        if jw:
            a = algs_for(key, True)[0]
            out.append(("valid-nokid:%s:%s" % (a, key), tok(alg=a, key=key, kid=None, **good_claims(c, rng))))
    if not enabled(c):
        out.append(("valid-empty-secret", tok(alg="HS256", key="hmacEmpty", **good_claims(c, rng))))
    return out


def invalid_tokens(c, rng):
    """(label, header spec) pairs every one of which must be refused under config c"""
    out = []
    gc = lambda: good_claims(c, rng)
    keys = cfg_keys(c)
    jw = c["jwks"] is not None
    base = None
    for key, kid, jalg in keys:
        a = algs_for(key, jw)[0]
        if not jalg or jalg == a:
            base = (key, kid, a)
            break

    def T(label, t, **h):
        out.append((label, hdr(t, **h)))

    anykid = keys[0][1] if keys else None
    # algorithm none, with and without a kid
    T("alg-none", tok(alg="none", key="", kid=anykid, **gc()))
    T("alg-none-nokid", tok(alg="none", key="", **gc()))
    # wrong keys of every family
    for a, k in (("HS256", "hmacC"), ("RS256", "rsaB"), ("ES256", "ecB256"), ("EdDSA", "edA"), ("PS256", "rsaB"), ("HS512", "hmacEmpty")):
        if any(k == kk for kk, _, _ in keys):
            continue
        if k == "hmacEmpty" and not enabled(c):
            continue
        T("wrong-key:%s:%s" % (a, k), tok(alg=a, key=k, kid=anykid, **gc()))
    # cross family: HMAC keyed with the PEM of a configured public key
    for key, kid, _ in keys:
        if KEY_FAMILY[key] in ("FRsa", "FEcdsa"):
            T("confusion:HS256:" + key, tok(alg="HS256", key=key, kid=kid, **gc()))
            T("confusion-nokid:HS384:" + key, tok(alg="HS384", key=key, **gc()))
    if not jw:
        # PS* / EdDSA are never in the valid methods of static keys
        if c["rsa"]:
            T("ps256-static", tok(alg="PS256", key=c["rsa"], **gc()))
        T("eddsa-static", tok(alg="EdDSA", key="edA", **gc()))
        # a family that is not configured, signed by the key that WOULD be right for another port
        if not c["hmac"] and enabled(c): T("family-not-configured:HS256", tok(alg="HS256", key="hmacA", **gc()))
        if not c["rsa"] and enabled(c): T("family-not-configured:RS256", tok(alg="RS256", key="rsaA", **gc()))
        if not c["ecdsa"] and enabled(c): T("family-not-configured:ES256", tok(alg="ES256", key="ecA256", **gc()))
    if base:
        key, kid, a = base
        for seg in ("header", "payload", "signature", "claims"):
            T("tamper-" + seg, tok(alg=a, key=key, kid=kid, tamper=seg, exp=3600, endpoints=["zz"], **{k: v for k, v in gc().items() if k != "exp"}))
        other = {"FHmac": "HS384" if a == "HS256" else "HS256", "FRsa": "RS384" if a == "RS256" else "RS256",
                 "FEcdsa": "ES384" if a == "ES256" else "ES256", "FEd": "HS256"}[KEY_FAMILY[key]]
        for ha in (other, "none", a.lower(), "XS256", ""):
            if ha == "":
                continue
            T("hdr-alg:" + ha, tok(alg=a, key=key, kid=kid, hdr_alg=ha, **gc()))
        g = gc(); g["exp"] = rng.choice([-30, -3600])
        T("expired", tok(alg=a, key=key, kid=kid, **g))
        g = gc(); g["nbf"] = rng.choice([30, 3600])
        T("not-yet-valid", tok(alg=a, key=key, kid=kid, **g))
        g = gc(); g["exp"] = -30; g["nbf"] = 30
        T("expired+nbf", tok(alg=a, key=key, kid=kid, **g))
        if c["aud"]:
            for lab, aud in (("aud-mismatch", ["other"]), ("aud-missing", None), ("aud-empty", [""]), ("aud-case", [c["aud"].upper()]), ("aud-prefix", [c["aud"] + "x"])):
                g = gc(); g["aud"] = aud
                T(lab, tok(alg=a, key=key, kid=kid, **g))
            g = gc(); g["aud"] = ["other"]; g["exp"] = -30
            T("expired+aud", tok(alg=a, key=key, kid=kid, **g))
        if c["iss"]:
            for lab, iss in (("iss-mismatch", "other"), ("iss-missing", None), ("iss-empty", ""), ("iss-prefix", c["iss"] + "x")):
                g = gc(); g["iss"] = iss
                T(lab, tok(alg=a, key=key, kid=kid, **g))
        good = lambda: tok(alg=a, key=key, kid=kid, **gc())
        # header forms around a perfectly good token
        for lab, pre, suf in (("hdr-no-space", "Bearer", ""), ("hdr-lower", "bearer ", ""), ("hdr-upper", "BEARER ", ""), ("hdr-basic", "Basic ", ""),
                              ("hdr-bare-token", "", ""), ("hdr-two-spaces", "Bearer  ", ""), ("hdr-tab", "Bearer\t", ""), ("hdr-trailing", "Bearer ", " x"),
                              ("hdr-token-scheme", "Token ", "")):
            T(lab, good(), prefix=pre, suffix=suf)
        if jw:
            T("jwks-unknown-kid", tok(alg=a, key=key, kid="nope", **gc()))
            others = [(k2, kid2, ja2) for k2, kid2, ja2 in keys if k2 != key]
            if others:
                T("jwks-kid-of-other-key", tok(alg=a, key=key, kid=others[0][1], **gc()))
            for k2, kid2, ja2 in keys:
                if ja2:
                    alts = [x for x in algs_for(k2, True) + ["RS384", "RS512", "PS256"] if x != ja2 and alg_family(x) == KEY_FAMILY[k2] and (KEY_FAMILY[k2] != "FEcdsa")]
                    if alts:
                        T("jwks-alg-param-mismatch:" + alts[0], tok(alg=alts[0], key=k2, kid=kid2, **gc()))
    # header without any token / malformed token strings
    out.append(("hdr-scheme-only", hdr(None, prefix="Bearer ", suffix="")))
    out.append(("hdr-scheme-only-nospace", hdr(None, prefix="Bearer", suffix="")))
    for raw in ("garbage", "a.b", "a.b.c.d", "e30.e30.", "..", "e30.e30.e30"):
        out.append(("raw:" + raw, hdr(tok(raw=raw))))
    return out


# ------------------------------------------------------------------ abstract view of a step (as the server sees it)
def strip_ows(s):
    return s.strip(" \t")


def header_seen(h, tag):
    """(value the server sees with minted tokens replaced by the placeholder @tag, is the token minted?)"""
    if h is None:
        return "", False
    if h["tok"] is None:
        return strip_ows(h["prefix"] + h["suffix"]), False
    if h["tok"]["raw"] is not None:
        return strip_ows(h["prefix"] + h["tok"]["raw"] + h["suffix"]), False
    return strip_ows(h["prefix"] + "@" + tag + h["suffix"]), True


def abstract_token(t, times):
    """fields of the abstract token (coq Auth/Token.v) of a minted token"""
    a = t["hdr_alg"] or t["alg"]
    by = t["key"] if (t["key"] and a == t["alg"]) else None
    return {"alg": a, "by": by, "intact": t["tamper"] == "", "kid": t["kid"],
            "exp": (times or {}).get("exp"), "nbf": (times or {}).get("nbf"),
            "aud": list(t["aud"] or []), "iss": t["iss"], "eps": list(t["endpoints"] or []) if t["has_eps"] else []}


# ------------------------------------------------------------------ monitors (independent of the Coq model)
def authorized_under(c, t, times, now_ns):
    """the property's predicate: signed by a configured key with an algorithm of that key's family, intact,
    not expired / not before, audience and issuer as configured. Returns (ok, why-not)"""
    if t["raw"] is not None: return False, "malformed token"
    if t["tamper"]: return False, "tampered " + t["tamper"]
    a = t["hdr_alg"] or t["alg"]
    if a != t["alg"]: return False, "header alg differs from the signature's"
    fam = alg_family(a)
    if fam is None: return False, "alg " + a
    if not t["key"] or t["key"] not in [k for k, _, _ in cfg_keys(c)]: return False, "not signed by a configured key"
    if KEY_FAMILY[t["key"]] != fam: return False, "algorithm of another family than the key"
    if times.get("exp") is not None and not now_ns < times["exp"] * 10 ** 9: return False, "expired"
    if times.get("nbf") is not None and not times["nbf"] * 10 ** 9 <= now_ns: return False, "not yet valid"
    if c["aud"] and c["aud"] not in (t["aud"] or []): return False, "audience"
    if c["iss"] and t["iss"] != c["iss"]: return False, "issuer"
    return True, ""


def request_authorized(pc, st, ob):
    """(authorized?, why-not, token spec or None) for a request against a port WITH a verifier"""
    m = pc["verifier"]
    which, h = ("xauth", st["xauth"]) if header_seen(st["xauth"], "x")[0] != "" else ("auth", st["auth"])
    seen, minted = header_seen(h, "x")
    if seen == "": return False, "no authorization header", None
    if h["prefix"] != "Bearer " or h["suffix"] != "" or h["tok"] is None: return False, "not a bearer header", None
    tenants = m["tenants"] or []
    if tenants:
        cs = [t["cfg"] for t in tenants if t["id"] == st["tenant"]]
        if st["tenant"] == "" or not cs: return False, "no / unknown tenant", None
        c = cs[0]
    else:
        if st["tenant"] != "": return False, "tenant named but none configured", None
        c = m["default"]
    times = ob.get(which + "_t") or {}
    ok, why = authorized_under(c, h["tok"], times, ob["now_ns"])
    return ok, why, h["tok"]


def named_endpoint(st, handler):
    """python's own derivation of the endpoint a request names (for the C10 monitor)"""
    if handler in ("s.proxyTCPRoute", "s.upstreamRoute"):
        return st["path"].rstrip("/").split("/")[-1]
    if st["xendpoint"]:
        return st["xendpoint"]
    host = st["host"]
    if host.count(":") == 1:
        host = host.split(":")[0]
    if not host or re.fullmatch(r"\d+\.\d+\.\d+\.\d+", host) or "." not in host:
        return ""
    return host.split(".")[0]


def toggle_slash(p):
    return p[:-1] if p.endswith("/") else p + "/"


def monitor_step(case, st, ob):
    """returns None or {sig, why}. Safety direction of C09 + C10:
    unauthorized -> 401 and nothing reached; reached endpoint must be permitted by the token and be the one named."""
    pc = case[st["port"]]
    if ob.get("fail"):
        return {"sig": "harness-failure", "why": "harness: " + ob["fail"]}
    effects = list(ob["select"]) + list(ob["addconn"])
    if pc["verifier"] is None:
        return None
    protected = any(enabled(c) for c in [pc["verifier"]["default"]] + [t["cfg"] for t in (pc["verifier"]["tenants"] or [])])
    if not protected:
        return None     # a verifier without any key is not "configured with authentication" (server.go never builds one)
    ok, why, t = request_authorized(pc, st, ob)
    if not ok:
        if ob["status"] == 401 and not effects and ob["forward"] == 0:
            return None
        if ob["status"] in (301, 307) and not effects and ob["forward"] == 0 and ob.get("location", "").split("?")[0] == toggle_slash(st["path"]):
            return {"sig": "gin-trailing-slash-redirect",
                    "why": "unauthorized request (%s) answered %d (trailing-slash redirect to %s) instead of 401; no handler ran" % (why, ob["status"], ob["location"])}
        if effects or ob["forward"]:
            return {"sig": "unauthorized-reached-upstream", "why": "unauthorized request (%s) reached select=%s addconn=%s forward=%d, status %d" % (why, ob["select"], ob["addconn"], ob["forward"], ob["status"])}
        return {"sig": "unauthorized-not-401", "why": "unauthorized request (%s) answered %d %r instead of 401" % (why, ob["status"], ob["err"])}
    # authorized: "a token listing no endpoints may use any", and one that lists the named endpoint may use that one
    if ob["status"] == 401 and not effects and "not permitted" in (ob.get("err") or ""):
        handler = "s.upstreamRoute" if (st["port"] == "upstream" and st["path"].startswith("/piko/v1/upstream/")) else (
            "s.proxyTCPRoute" if st["method"] == "GET" and re.fullmatch(r"/_piko/v1/tcp/[^/]+", st["path"]) else "s.proxyHTTPRoute")
        try:
            want = named_endpoint(st, handler)
        except Exception:
            want = None
        if st["port"] in ("proxy", "upstream") and want:
            if not (t["has_eps"] and t["endpoints"]):
                return {"sig": "unrestricted-token-refused", "why": "a valid token that lists no endpoints was refused (401 %r) for endpoint %r" % (ob["err"], want)}
            if want in t["endpoints"]:
                return {"sig": "permitted-endpoint-refused", "why": "a valid token listing %s was refused (401 %r) for endpoint %r" % (t["endpoints"], ob["err"], want)}
    # authorized: endpoint confinement
    if effects:
        if len(effects) != 1:
            return {"sig": "multiple-routings", "why": "one request caused %s" % effects}
        e = effects[0]
        if t["has_eps"] and t["endpoints"] and e not in t["endpoints"]:
            return {"sig": "endpoint-not-permitted", "why": "token lists endpoints %s but the request reached endpoint %r" % (t["endpoints"], e)}
        handler = "s.upstreamRoute" if ob["addconn"] else (
            "s.proxyTCPRoute" if st["method"] == "GET" and re.fullmatch(r"/_piko/v1/tcp/[^/]+", st["path"]) else "s.proxyHTTPRoute")
        want = named_endpoint(st, handler)
        if e != want:
            return {"sig": "routed-other-endpoint", "why": "request names endpoint %r but %r was routed" % (want, e)}
    return None


# ------------------------------------------------------------------ trace -> Coq
_INTERN = None     # per case file: distinct strings are defined once (elaborating string literals dominates coqc time)


def cs(s):
    if _INTERN is None:
        return '(h "%s")' % s.encode("latin-1").hex()
    if s not in _INTERN:
        _INTERN[s] = "s%d" % len(_INTERN)
    return _INTERN[s]


def copt(v, f):
    return "None" if v is None else "(Some %s)" % f(v)


def cz(n):
    return "(%d)%%Z" % n


def coz(n):
    return "NZ" if n is None else "(SZ %d)" % n if n >= 0 else "(SZ (%d))" % n


def cos(v):
    return "NS" if v is None else "(SS %s)" % cs(v)


def ckey(name):
    # the zero-length secret is the model's empty_hmac_key (k_id "")
    return "(K %s %s)" % (cs("" if name == "hmacEmpty" else name), KEY_FAMILY[name])


def c_vcfg(c):
    jw = "None"
    if c["jwks"] is not None:
        jw = "(Some %s)" % coq_list(["(Jk %s %s %s)" % (cs(j["kid"]), ckey(j["key"]), cos(j["alg"] or None))
                                     for j in c["jwks"]])
    return "(Vc %s %s %s %s %s %s %s)" % (copt(c["hmac"] or None, ckey), copt(c["rsa"] or None, ckey), copt(c["ecdsa"] or None, ckey),
                                         jw, cs(c["aud"]), cs(c["iss"]), coq_bool(c["noexp"]))


def c_portcfg(pc, wired_nodes):
    v = "None"
    if pc["verifier"] is not None:
        m = pc["verifier"]
        v = "(Some (Mt %s %s))" % (
            c_vcfg(m["default"]), coq_list(["(%s, %s)" % (cs(t["id"]), c_vcfg(t["cfg"])) for t in (m["tenants"] or [])]))
    cl = "(Some (%s, %s))" % (cs(LOCAL_ID), coq_list([cs(n) for n in wired_nodes])) if pc["cluster"] else "None"
    return "(Pc %s %s %s)" % (v, cl, coq_bool(pc["registry"]))


def c_token(a):
    return "(Tk %s %s %s %s %s %s %s %s %s)" % (
        cs(a["alg"]), copt(a["by"], ckey), coq_bool(a["intact"]), cos(a["kid"]), coz(a["exp"]), coz(a["nbf"]),
        coq_list([cs(x) for x in a["aud"]]), cos(a["iss"]), coq_list([cs(x) for x in a["eps"]]))


def forward_of(query):
    for kv in query.split("&"):
        if kv.startswith("forward="):
            return kv[len("forward="):]
        if kv == "forward":
            return ""
    return None


def c_step(st, ob):
    xa, xm = header_seen(st["xauth"], "x")
    au, am = header_seen(st["auth"], "a")
    toks = []
    if xm: toks.append("(%s, %s)" % (cs("@x"), c_token(abstract_token(st["xauth"]["tok"], ob.get("xauth_t")))))
    if am: toks.append("(%s, %s)" % (cs("@a"), c_token(abstract_token(st["auth"]["tok"], ob.get("auth_t")))))
    port = {"proxy": "PProxy", "upstream": "PUpstream", "admin": "PAdmin"}[st["port"]]
    host = st["host"] or "127.0.0.1:1"     # the client sends the listener address: an IP literal
    rq = "(Rq %s %s %s %s %s %s %s %s)" % (cs(st["method"]), cs(st["path"]), cs(host), cs(st["xendpoint"]), cs(xa), cs(au),
                                          cs(strip_ows(st["tenant"])), cos(forward_of(st["query"])))
    o = "(Ob %d %s %s %s %d)" % (ob["status"], cs(ob["err"]), coq_list([cs(x) for x in ob["select"]]),
                                 coq_list([cs(x) for x in ob["addconn"]]), ob["forward"])
    return "(St %s %s %s %d %s)" % (port, rq, coq_list(toks), ob["now_ns"], o)


def case_to_coq(case, out):
    nodes = [PEER_ID]
    return "(Cs %s %s %s %s %s)" % (
        coq_bool(case.get("wired", False)), c_portcfg(case["proxy"], nodes), c_portcfg(case["upstream"], nodes), c_portcfg(case["admin"], nodes),
        coq_list([c_step(s, o) for s, o in zip(case["steps"], out["obs"])]))


def cases_file(cases, outs):
    global _INTERN
    _INTERN = {}
    try:
        terms = ";\n".join(case_to_coq(c, o) for c, o in zip(cases, outs))
        table = ['Definition %s := h "%s".' % (n, s.encode("latin-1").hex()) for s, n in _INTERN.items()]
    finally:
        _INTERN = None
    body = ["From Coq Require Import List String NArith ZArith Bool.",
            "From Piko Require Import Base.Strs Auth.Token Auth.Verify Auth.Routes Auth.Serve Run.Run_Auth.",
            "Import ListNotations. Open Scope string_scope. Open Scope list_scope. Open Scope N_scope."]
    body += table
    body.append("Definition cases : list acase := [")
    body.append(terms)
    body.append("].")
    body.append("Definition M := Eval vm_compute in mismatches cases.")
    body.append("Print M.")
    return "\n".join(body) + "\n"


def parse_mismatches(out):
    m = re.search(r"M\s*=\s*(.*?)\s*:\s*list", out, flags=re.S)
    if not m:
        return None
    txt = m.group(1).strip()
    if txt == "[]":
        return []
    res = []
    # elements look like (k, i, <outcome term>)
    for mm in re.finditer(r"\(\s*(\d+)(?:%nat)?\s*,\s*(\d+)(?:%nat)?\s*,\s*([^;\]]*?)\)\s*(?=;|\])", txt, flags=re.S):
        res.append((int(mm.group(1)), int(mm.group(2)), " ".join(mm.group(3).split())))
    if not res:
        res.append((0, 0, txt[:300]))
    return res


def coq_eval_batch(wd, name, body, timeout=900):
    """like lib.common.coq_eval but through `coqtop -batch -l` (no .vo is written: 2x faster for these files)"""
    cdir = os.path.join(wd, "cases")
    os.makedirs(cdir, exist_ok=True)
    path = os.path.join(cdir, name + ".v")
    with open(path, "w") as f:
        f.write(body)
    p = sh(["timeout", str(timeout), "coqtop", "-Q", COQ, "Piko", "-batch", "-l", path], cwd=cdir, check=False, timeout=timeout + 30)
    return p.returncode, p.stdout


def correspondence(pid, wd, cases, outs, shard=2, tag="c"):
    """evaluate the model on the observed requests inside Coq. returns [{case, step, model}]"""
    import concurrent.futures as cf
    # the texts are produced serially (the string interner is module state), evaluated in parallel
    jobs = [(si, cases_file(cases[si:si + shard], outs[si:si + shard])) for si in range(0, len(cases), shard)]

    def work(job):
        si, body = job
        rc, out = coq_eval_batch(wd, "Cases_%s_%s_%d" % (pid, tag, si), body)
        mm = parse_mismatches(out)
        if rc != 0 or mm is None:
            raise RuntimeError("coq evaluation of cases failed:\n" + out[-3000:])
        return [(si + c, s, model) for (c, s, model) in mm]

    dis = []
    with cf.ThreadPoolExecutor(max_workers=8) as ex:
        for r in ex.map(work, jobs):
            for (c, s, model) in r:
                dis.append({"case": c, "step": s, "model": decode_hex_strings(model)})
    return dis


def decode_hex_strings(term):
    """Coq prints strings verbatim; keep the term readable and bounded"""
    return term[:300]


def run_cases(binary, wd, cases, tag="auth"):
    out, logtxt = run_harness(binary, {"cases": cases}, wd, tag=tag, test=HARNESS_TEST, timeout=900)
    if out is None:
        raise RuntimeError("harness run failed:\n" + logtxt)
    return out["cases"]


# ------------------------------------------------------------------ shared driver
def evaluate(pid, ctx, cases, binary, known_sigs):
    """runs the cases, the monitor and the correspondence; returns (violations, known, stats)"""
    wd = ctx["wd"]
    t0 = time.time()
    outs = run_cases(binary, wd, cases)
    t_harness = time.time() - t0
    violations, known = [], []
    failures = []   # (case index, step index, failure)
    ran = []
    for ci, (c, o) in enumerate(zip(cases, outs)):
        if o.get("panic") or len(o.get("obs") or []) != len(c["steps"]):
            failures.append((ci, len(o.get("obs") or []), {"sig": "harness-failure", "why": "deployment failed: %s" % o.get("panic")}))
            continue
        ran.append(ci)
        for si, (st, ob) in enumerate(zip(c["steps"], o["obs"])):
            f = monitor_step(c, st, ob)
            if f:
                failures.append((ci, si, f))
    okc = [(cases[i], outs[i]) for i in ran if not any(ob.get("fail") for ob in outs[i]["obs"])]
    t0 = time.time()
    dis = correspondence(pid, wd, [c for c, _ in okc], [o for _, o in okc])
    t_model = time.time() - t0
    seen = {}
    for ci, si, f in failures:
        seen.setdefault(f["sig"], []).append((ci, si, f))
    for sig, lst in sorted(seen.items()):
        ci, si, f = lst[0]
        c = cases[ci]
        single = dict(c, steps=[c["steps"][si]] if si < len(c["steps"]) else [], id=c["id"] + "/step%d" % si)
        # re-run the single request on a fresh deployment: the failure must not depend on the rest of the script
        confirmed, ob2 = False, None
        if single["steps"] and sig != "harness-failure":
            o2 = run_cases(binary, wd, [single], tag="shrink")[0]
            if not o2.get("panic") and o2.get("obs"):
                ob2 = o2["obs"][0]
                f2 = monitor_step(single, single["steps"][0], ob2)
                confirmed = f2 is not None and f2["sig"] == sig
        rep = {"property": pid, "kind": "monitor", "signature": sig, "why": f["why"], "occurrences": len(lst),
               "case": single if confirmed else dict(c, steps=c["steps"][: si + 1]),
               "observed": ob2 if confirmed else (outs[ci]["obs"][si] if si < len(outs[ci].get("obs") or []) else None),
               "examples": [{"port": cases[a]["steps"][b]["port"], "method": cases[a]["steps"][b]["method"], "path": cases[a]["steps"][b]["path"]}
                            for a, b, _ in lst[:12] if b < len(cases[a]["steps"])]}
        if sig in known_sigs:
            ex = sorted({"%s %s %s" % (e["port"], e["method"], e["path"]) for e in rep["examples"]})
            known.append("sig=%s %s [%d requests, e.g. %s]" % (sig, known_sigs[sig], len(lst), "; ".join(ex[:4])))
            write_replay(pid, "known_" + sig, rep)
        else:
            violations.append({"what": "%s monitor: %s (%d requests)" % (pid, f["why"], len(lst)), "found_input": True, "replay_obj": rep})
    stats = {"outs": outs, "dis": dis, "failures": failures, "okc": okc, "t_harness": t_harness, "t_model": t_model}
    return violations, known, stats


def known_sigs_for(pid):
    return {k["sig"]: k["text"] for k in known_findings() if k["kind"] == "known" and k["property"] == pid and k["sig"]}


def refresh_tables_and_proofs(pid, ctx, coq_targets):
    """regenerate generated/RouteTables.v from the current tree and, when it changed, rebuild the proofs.
    When the theorems do not check on the new tables the previous (good) file is put back, so that the shared
    Coq tree keeps building; the rejected tables are kept in the work directory and in the replay file.
    returns (tables, proof_violation or None, info)"""
    old = open(GEN_V).read() if os.path.exists(GEN_V) else None
    try:
        tables, changed = regen_tables(ctx["wd"])
    except ExtractError as e:
        return None, {"what": "route extractor cannot follow the registration code of the current tree: " + str(e)[-600:], "found_input": False,
                      "replay_obj": {"broken": "corr:%s:routes-extractor" % pid, "log": str(e)[-3000:]}}, {"tables_changed": None}
    info = {"tables_changed": changed}
    pv = None
    if changed or not ctx.get("proof_ok", True):
        targets = ["Properties/%s.vo" % pid] + list(coq_targets)
        ok, mlog = coq_make(targets)
        prop = coq_property(pid) if ok else {"ok": False, "log": mlog[-3000:]}
        info["rebuilt"] = bool(ok and prop["ok"])
        if not (ok and prop["ok"]):
            txt = (mlog if not ok else prop["log"])[-2500:]
            m = re.search(r'File "\./([^"]+)", line (\d+)', txt)
            where = (" (%s line %s)" % (m.group(1), m.group(2))) if m else ""
            pv = {"what": "theorem no longer checks on the route tables regenerated from the current source%s: %s" % (where, txt[-700:]),
                  "found_input": False, "replay_obj": {"broken": "theorem:Properties/%s.v" % pid, "detail": txt, "tables": tables}}
            if changed and old is not None:
                rejected = os.path.join(ctx["wd"], "RouteTables.rejected.v")
                with Lock("coq"):
                    os.replace(GEN_V, rejected)
                    with open(GEN_V, "w") as f:
                        f.write(old)
                ok2, _ = coq_make(targets)
                info["restored_previous_tables"] = ok2
                pv["replay_obj"]["rejected_tables_file"] = rejected
    return tables, pv, info
