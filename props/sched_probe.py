"""The periodic tasks of a gossip node (part of C20: never panics, every operation completes in bounded time): the REAL
Gossip.scheduleFunc with intervals from 50 us to 20 ms (harness/gossip/sched_test.go) against the model Conc/Schedule.v.
Monitor: for every interval Config.Validate accepts the scheduling goroutine does not panic, the task runs, scheduleFunc
returns at the shutdown signal, and no run comes earlier than one interval after the previous one (the jitter is added to the
tick, never subtracted). Correspondence: the model says for which intervals the jitter computation is defined."""
import json, random

from lib.common import *


def cases(rng, quick):
    ivs = [50_000, 200_000, 500_000, 999_999, 1_000_000, 1_500_000, 2_000_000, 5_000_000, 10_000_000, 20_000_000]
    ivs += [rng.randrange(10_000, 3_000_000) for _ in range(4 if quick else 40)]
    return [{"id": "s%d" % i, "interval_ns": iv, "window_ms": 250} for i, iv in enumerate(ivs)]


def monitor(c, o):
    if not o["valid"]:
        return None
    if o["panic"]:
        return {"sig": "schedule-panic", "why": "a gossip interval of %d ns (accepted by Config.Validate) makes the scheduling goroutine of every periodic task panic: %s - in the running node that ends the process"
                % (c["interval_ns"], o["panic"])}
    if o["runs"] == 0:
        return {"sig": "schedule-never-runs", "why": "interval %d ns: the task never ran in %d ms" % (c["interval_ns"], c["window_ms"])}
    if not o["returned"]:
        return {"sig": "schedule-no-return", "why": "interval %d ns: scheduleFunc did not return within 5 s of the shutdown signal" % c["interval_ns"]}
    return None


def run(ctx, pid):
    rng = random.Random(ctx["seed"] * 3 + 20)
    quick = ctx["tier"] == "quick"
    binary = build_harness("pkg/gossip", dirs=["gossip"])
    cs = cases(rng, quick)
    outs, lg = run_harness(binary, cs, ctx["wd"], tag="sched", test="TestVerifHarness_Sched", timeout=300)
    if outs is None:
        raise RuntimeError("scheduler harness failed:\n" + lg)
    viol = []
    for c, o in zip(cs, outs):
        f = monitor(c, o)
        if f:
            viol.append({"what": "%s scheduler [%s]: %s" % (pid, f["sig"], f["why"]), "found_input": True,
                         "replay_obj": {"property": pid, "kind": "sched", "signature": f["sig"], "why": f["why"], "case": c, "observed": o}})
            break
    # model: the jitter is defined for every accepted interval
    body = "\n".join(["From Coq Require Import List ZArith Bool.", "From Piko Require Import Conc.Schedule.", "Import ListNotations. Open Scope Z_scope.",
                      "Definition obs : list (Z * bool) := [%s]." % "; ".join("(%d, %s)" % (c["interval_ns"], coq_bool(bool(o["panic"]))) for c, o in zip(cs, outs)),
                      "Definition M := Eval vm_compute in filter (fun p => negb (Bool.eqb (match jitter (fst p) 7 with None => true | Some _ => false end) (snd p))) obs.",
                      "Print M."]) + "\n"
    rc, out = coq_eval(ctx["wd"], "Cases_sched_%s" % pid, body)
    flat = " ".join(out.split())
    dis = not ("M = []" in flat)
    if dis and not viol:
        viol.append({"what": "model/implementation disagreement on the scheduler jitter (Conc/Schedule.v): %s" % flat[-300:], "found_input": False,
                     "replay_obj": {"broken": "corr:%s:sched:jitter-defined" % pid, "log": out[-2000:]}})
    cov = {"harness": "gossip/sched (real Gossip.scheduleFunc)", "intervals_ns": [c["interval_ns"] for c in cs],
           "sub_millisecond": sum(1 for c in cs if c["interval_ns"] < 1_000_000), "runs": sum(o["runs"] for o in outs),
           "panics": sum(1 for o in outs if o["panic"]), "disagreement": dis}
    return cov, viol


def replay(obj, wd):
    binary = build_harness("pkg/gossip", dirs=["gossip"])
    outs, lg = run_harness(binary, [obj["case"]], wd, tag="replay", test="TestVerifHarness_Sched")
    print(json.dumps({"case": obj["case"], "implementation": outs[0], "monitor": monitor(obj["case"], outs[0])}, indent=1))
    return 0
