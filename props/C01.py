"""C01 - requests reach only upstreams of the addressed endpoint, from any node."""
from props.proxy_common import *
from props import urlpath_probe

ID = "C01"
COQ_TARGETS = ["Run/Run_Proxy.vo", "Run/Run_ProxyDyn.vo", "ProxyP/DynamicP.vo", "Run/Run_UrlPath.vo"]
META = {
    "text": "Composition (Compose/*.v): C01_settled_from_convergence and C01_end_to_end derive the proxy model's [settled] - and hence 'served iff some node's manager holds an upstream for E, else 502' - from the lower layers: managers' registries (C05 invariant), converged gossip views (C03_converged_views + id closure), watcher fold (C14) and syncer table (C04). Theorems (Properties/C01.v) over the Gallina cluster model of piko's proxy data path (EndpointIDFromRequest incl. net.SplitHostPort/net.ParseIP, gin route "
            "choice, LoadBalancedManager.Select, State.LookupEndpoint, the per-hop request transformation of ServeHTTPWithUpstream+ReverseProxy incl. keepControlHeaders, "
            "NodeUpstream dial): for every cluster size, placement, (inconsistent) views, entry node and addressing mode a delivered request is served by an upstream "
            "registered under the addressed endpoint or answered 400/401/502/504; with settled views every node serves E iff a reachable node has an upstream for E and "
            "answers 502 iff none has; the TCP route uses the path parameter; the pinned transform is refuted (H2). The model is tied to server/proxy, server/upstream and "
            "server/cluster by driving 1..4 REAL proxy.Server instances (real LoadBalancedManager + cluster.State, injected views, scripted upstreams) and comparing status, "
            "answering upstream, per-node handler invocations and the request recorded by the upstream with the model inside Coq, plus ~5000 hosts compared directly with "
            "EndpointIDFromRequest. The endpoint id's way from the client into the route is modelled too (Proxy/UrlPath.v: net/url path escaping in client.Dialer / client.Upstream, "
            "net/http's decoding, gin's parameter match): for every byte string the id is routed under its own name or not at all (C01_url_roundtrip, C01_dialled_only_named, "
            "C01_dialled_is_named; the string-concatenation variant is refuted), compared with the real client rendering + real request parser + gin on ~190 ids per run.",
    "note": "Partial: net/http parsing, httputil.ReverseProxy, gin dispatch, gorilla/websocket and TCP are environment (exercised, not proved); the one ReverseProxy behaviour the "
            "property depends on (hop-by-hop removal after piko's header edits) is in the model. Token verification (401) is modelled as an abstract permitted-endpoints list and not "
            "exercised here (C10).",
    "technique": "Coq proof on an executable Gallina model (case analysis on one handler step, forwarding lemma: control headers survive a hop) + model/implementation "
                 "correspondence by differential testing on real servers + independent python monitor",
}
ASSUMPTIONS = [
    "header names are HTTP tokens and header values printable ASCII/TAB (what net/http hands to a handler); Connection header values are ASCII (strings.TrimSpace = textproto.TrimString on them)",
    "the TCP route is addressed with one unescaped non-empty path segment and a real websocket handshake (a trailing slash is answered by gin's 301 redirect, a non-websocket GET by gorilla's 400; both outside the model)",
    "one proxy listener per advertised address (wf_cluster: NoDup addresses and node ids); upstream registration only through AddConn, so a balancer is never empty",
    "all nodes verify tokens with the same configuration (the abstract token of a request is the same at both hops); auth disabled in the harness",
    "http.Transport adds 'Connection: close' to inter-node requests (DisableKeepAlives); an end-to-end header literally named 'Close' would therefore be dropped at a second hop - not generated, not modelled",
    "churn (upstreams connecting/disconnecting while requests are in flight) is not exercised: cluster state is static per case",
]
TRUSTED = ["python monitor C01 (props/proxy_common.py monitor_c01) with its own reading of Host / x-piko-endpoint (regex + ipaddress) as the independent oracle",
           "scripted upstream listeners of the harness stamp (endpoint, upstream id) into the HTTP response / TCP stream"]


def run(ctx):
    res = run_property(ctx, ID, 34, 5000)
    # the endpoint id on its way from the client into the route (real client.Dialer / Upstream, net/http parser, gin) vs Proxy/UrlPath.v
    ucov, uviol = urlpath_probe.run(ctx, ID)
    res["coverage"]["url_path"] = ucov
    res["violations"] = list(res.get("violations") or []) + uviol
    return res


def replay(path, wd):
    import json
    obj = json.load(open(path))
    if obj.get("kind") == "urlpath":
        return urlpath_probe.replay(obj, wd)
    return replay_property(ID, path, wd)
