"""C10 - tokens are confined to their endpoints and tenants."""
import random
from props.auth_common import *

from props import urlpath_probe
ID = "C10"
COQ_TARGETS = ["Run/Run_UrlPath.vo", "Run/Run_Auth.vo"]
META = {
    "text": "Theorems (Properties/C10.v) over the Gallina model of Token.EndpointPermitted, the three route functions (proxyHTTPRoute, proxyTCPRoute, upstreamRoute) and MultiTenantVerifier: a token with a non-empty endpoint list is permitted on E iff E is literally in the list; the endpoint evaluated by EndpointPermitted is the endpoint handed to Select / AddConn for every way of naming the target (Host label, x-piko-endpoint, path parameter, conflicting combinations); with a tenant table a request is accepted only under a configured tenant whose own verifier accepts the token, no/unknown tenant is 401, the default verifier is unreachable, and without tenants any tenant header is 401. The model is tied to the code by ~900 real requests (claim sets x target namings x ports, tenant tables x tokens x tenant headers) against the real servers, replayed on the model inside Coq. The endpoint named by URL path (listen and TCP dial) is covered by Proxy/UrlPath.v: net/url escaping on the client, net/http decoding and gin's parameter match on the server - for every byte string the route parameter that is checked against the token is the id the client named, or there is no route (C10_path_named_endpoint_is_the_clients); tied to the real client rendering + request parser + gin on ~190 ids per run.",
    "note": "Trusted: Coq kernel+VM, the hand-written model, golang-jwt/keyfunc/crypto (abstracted as the signature relation), gin's dispatch and parameter extraction, net/http Host handling, the Go harness. The second-node hop of a forwarded request (H2, fixed in 5024de3) is covered by C01/C06, not here.",
    "technique": "Coq proof (decision-logic lemmas) + model/implementation correspondence by differential replay",
}
ASSUMPTIONS = [
    "signature validity is the abstract relation: signed with that key's secret/private half, nothing altered, algorithm of the key's Go type (golang-jwt + crypto are trusted)",
    "Host values are of the forms name(.name)*[:port] or a.b.c.d[:port] (no IPv6 literals / brackets); endpoint ids in paths use unreserved URL characters",
    "tenant ids in the configuration are unique (server.go builds a map; a duplicate would silently overwrite)",
    "only the first node's check-then-route is modelled; what a second node derives from a forwarded request is C01/C06 (H2)",
]
TRUSTED = ["python monitor (props/auth_common.py monitor_step): an endpoint reached under a token with a non-empty list is literally in the list and is the endpoint the request names; accepted only under the named tenant's configuration"]

NAMES = ["e", "e1", "E", "e.x", "f", "ee", "e-"]
CLAIMS = [None, [], ["e"], ["e", "f"], ["e1"], ["E"], ["e.x"], ["ee"], [""], ["f", "e-", "zz"]]


def namings(rng):
    """(kind, step fields, named endpoint) for the proxy HTTP route"""
    out = []
    for n in NAMES:
        if "." not in n:
            out.append(("host", {"host": n + ".example.com"}))
            out.append(("host+port", {"host": n + ".piko.example.com:8000"}))
        out.append(("header", {"xendpoint": n, "host": rng.choice(["", "localhost", "127.0.0.1:8000"])}))
    out.append(("host-dotted", {"host": "e.x.example.com"}))                     # label e
    for a, b in (("e", "f"), ("f", "e"), ("e1", "e"), ("E", "e"), ("e", "e.x"), ("ee", "e")):
        out.append(("conflict", {"host": a + ".example.com", "xendpoint": b}))     # the header wins
    for h in ("", "localhost", "127.0.0.1:8000", "10.0.0.1", "example"):
        out.append(("none", {"host": h}))                                          # no endpoint: 400
    return out


def gen_cases(rng, tables, tier):
    cases = []
    reps = 1 if tier == "quick" else 10
    for rep in range(reps):
        # --- endpoint confinement: claim sets x target namings x (proxy http, proxy tcp, upstream)
        for ci, (cname, c) in enumerate([("hmac", vc(hmac="hmacA")), ("jwks", vc(jwks=JWKS_FULL)), ("rsa+aud", vc(rsa="rsaA", aud="aud1"))]):
            case = {"id": "ep%d-%s" % (rep, cname), "wired": False, "proxy": portcfg(mtv(c)), "upstream": portcfg(mtv(c)),
                    "admin": portcfg(None)}
            good = valid_tokens(c, rng)
            steps = []

            def T(claims):
                lab, t = rng.choice(good)
                t = copy.deepcopy(t)
                t["endpoints"] = claims
                t["has_eps"] = claims is not None
                return hdr(t)

            nm = namings(rng)
            for claims in CLAIMS:
                picks = nm if (ci == 0 and claims in (["e"], ["e", "f"], ["E"], None)) else rng.sample(nm, 9)
                for kind, f in picks:
                    steps.append(dict(step("proxy", rng.choice(["/", "/app/x", "/_piko/v1/other"]), method=rng.choice(["GET", "POST"]),
                                           **f, **{rng.choice(["auth", "xauth"]): T(claims)}), label="http:%s:%s" % (kind, claims)))
                for n in (NAMES if ci == 0 else rng.sample(NAMES, 4)):
                    extra = rng.choice([{}, {"xendpoint": "e"}, {"host": "f.example.com"}, {"xendpoint": "f", "host": "e.example.com"}])
                    steps.append(dict(step("proxy", "/_piko/v1/tcp/" + n, **extra, auth=T(claims)), label="tcp:%s" % claims))
                    steps.append(dict(step("upstream", "/piko/v1/upstream/" + n, **extra, auth=T(claims)), label="upstream:%s" % claims))
            # near-miss tokens on an unprotected admin port are irrelevant; an invalid token never routes
            for lab, h in rng.sample(invalid_tokens(c, rng), 6):
                steps.append(dict(step("proxy", "/_piko/v1/tcp/e", auth=copy.deepcopy(h)), label="invalid:" + lab))
                steps.append(dict(step("upstream", "/piko/v1/upstream/e", auth=copy.deepcopy(h)), label="invalid:" + lab))
            case["steps"] = steps
            cases.append(case)
        # --- no verifier at all: nothing is checked, everything routes (the `ok` branch of c.Get)
        case = {"id": "ep%d-open" % rep, "wired": False, "proxy": portcfg(None), "upstream": portcfg(None), "admin": portcfg(None), "steps": []}
        for kind, f in rng.sample(namings(rng), 10):
            case["steps"].append(dict(step("proxy", "/x", **f), label="open:" + kind))
        for n in NAMES:
            case["steps"].append(dict(step("proxy", "/_piko/v1/tcp/" + n), label="open:tcp"))
            case["steps"].append(dict(step("upstream", "/piko/v1/upstream/" + n, auth=hdr(tok(endpoints=["zz"]))), label="open:upstream"))
        cases.append(case)
        # --- tenants
        tables_t = [
            ("none", vc(hmac="hmacA"), None),
            ("empty", vc(hmac="hmacA"), []),
            ("t1", vc(hmac="hmacA"), [{"id": "t1", "cfg": vc(hmac="hmacB")}]),
            ("t1t2", vc(hmac="hmacA"), [{"id": "t1", "cfg": vc(hmac="hmacB")}, {"id": "t2", "cfg": vc(rsa="rsaA", iss="iss1")}]),
            ("t1t2-nodefault", vc(), [{"id": "t1", "cfg": vc(hmac="hmacB", aud="aud1")}, {"id": "t2", "cfg": vc(jwks=JWKS_RS)}]),
            ("samekey", vc(hmac="hmacA"), [{"id": "t1", "cfg": vc(hmac="hmacA")}, {"id": "t2", "cfg": vc(hmac="hmacB")}]),
        ]
        for tname, dflt, tenants in tables_t:
            m = mtv(dflt, tenants)
            case = {"id": "tn%d-%s" % (rep, tname), "wired": False, "proxy": portcfg(mtv(vc(hmac="hmacA"))), "upstream": portcfg(m), "admin": portcfg(mtv(vc(hmac="hmacC")))}
            cfgs = [("default", dflt)] + [(t["id"], t["cfg"]) for t in (tenants or [])] + [("stranger", vc(hmac="hmacC")), ("stranger-ec", vc(ecdsa="ecA256"))]
            steps = []
            for owner, c in cfgs:
                toks = valid_tokens(c, rng) or []
                for lab, t in (toks[:1] + ([rng.choice(toks)] if len(toks) > 1 else [])):
                    for ten in ("", "t1", "t2", "tx", "T1", "default", "t1,t2"):
                        for claims in ((None, ["e"], ["f"]) if ten in ("", "t1", "t2") else (None,)):
                            tt = copy.deepcopy(t)
                            tt["endpoints"] = claims
                            tt["has_eps"] = claims is not None
                            steps.append(dict(step("upstream", "/piko/v1/upstream/e", tenant=ten, **{rng.choice(["auth", "xauth"]): hdr(tt)}),
                                              label="tenant:%s:token-of-%s" % (ten or "-", owner)))
            # empty-secret token against the (possibly key-less) default verifier, with and without a tenant
            for ten in ("", "t1", "tx"):
                steps.append(dict(step("upstream", "/piko/v1/upstream/e", tenant=ten, auth=hdr(tok(alg="HS256", key="hmacEmpty"))), label="tenant:%s:empty-secret" % (ten or "-")))
                steps.append(dict(step("upstream", "/piko/v1/upstream/e", tenant=ten), label="tenant:%s:no-header" % (ten or "-")))
            # a tenant header on the ports that never have tenants (server.go passes nil)
            for port, key, path in (("proxy", "hmacA", "/_piko/v1/tcp/e"), ("admin", "hmacC", "/health")):
                for ten in ("t1", "tx"):
                    steps.append(dict(step(port, path, tenant=ten, auth=hdr(tok(alg="HS256", key=key))), label="tenant-on-" + port))
                steps.append(dict(step(port, path, auth=hdr(tok(alg="HS256", key=key))), label="no-tenant-on-" + port))
            case["steps"] = steps
            cases.append(case)
    # --- the production wiring with tenants
    L = {"id": "wired-tenants", "wired": True, "proxy": portcfg(mtv(vc(hmac="hmacA"))),
         "upstream": portcfg(mtv(vc(hmac="hmacA"), [{"id": "t1", "cfg": vc(hmac="hmacB")}, {"id": "t2", "cfg": vc(ecdsa="ecA256")}])),
         "admin": portcfg(None), "steps": []}
    # hmacEmpty: a forged HS* token signed with the zero-length secret. Config.Load turns "no HMAC secret" into an
    # empty non-nil key; tenant t2 (ECDSA only) must still refuse the HMAC family
    for key, alg in (("hmacA", "HS256"), ("hmacB", "HS256"), ("ecA256", "ES256"), ("hmacC", "HS512"), ("hmacEmpty", "HS256")):
        for ten in ("", "t1", "t2", "tx"):
            for claims in (None, ["e"], ["f"]):
                L["steps"].append(dict(step("upstream", "/piko/v1/upstream/e", tenant=ten, auth=hdr(tok(alg=alg, key=key, endpoints=claims))), label="wired:tenant:%s:%s" % (ten or "-", key)))
        for n in ("e", "f", "E"):
            L["steps"].append(dict(step("proxy", "/_piko/v1/tcp/" + n, auth=hdr(tok(alg=alg, key=key, endpoints=["e"]))), label="wired:tcp"))
            L["steps"].append(dict(step("proxy", "/x", host=n + ".example.com", xauth=hdr(tok(alg=alg, key=key, endpoints=["e", "E"]))), label="wired:http"))
    cases.append(L)
    # tenants only: no default key on the upstream port - the port is still guarded, and only by the tenants' keys
    L2 = {"id": "wired-tenants-only", "wired": True, "proxy": portcfg(None),
          "upstream": portcfg(mtv(vc(), [{"id": "t1", "cfg": vc(hmac="hmacB")}, {"id": "t2", "cfg": vc(ecdsa="ecA256")}])),
          "admin": portcfg(None), "steps": []}
    L2["steps"].append(dict(step("upstream", "/piko/v1/upstream/e"), label="wired:tenant:-:none"))
    for key, alg in (("hmacA", "HS256"), ("hmacB", "HS256"), ("ecA256", "ES256"), ("hmacEmpty", "HS256")):
        for ten in ("", "t1", "t2", "tx"):
            for claims in (None, ["e"], ["f"]):
                L2["steps"].append(dict(step("upstream", "/piko/v1/upstream/e", tenant=ten, auth=hdr(tok(alg=alg, key=key, endpoints=claims))), label="wired:tenant:%s:%s" % (ten or "-", key)))
    cases.append(L2)
    return cases


def kinds_of(cases):
    mix = {}
    for c in cases:
        for s in c["steps"]:
            k = ":".join(s.get("label", "?").split(":")[:2]) if s.get("label", "").startswith("tenant") else s.get("label", "?").split(":")[0]
            mix[k] = mix.get(k, 0) + 1
    return mix


def run(ctx):
    rng = random.Random(ctx["seed"])
    violations, known = [], []
    t0 = time.time()
    tables, pv, info = refresh_tables_and_proofs(ID, ctx, COQ_TARGETS)
    log("[%s] route tables regenerated (changed=%s) in %.1fs" % (ID, info.get("tables_changed"), time.time() - t0))
    cov_extra = {"route_tables": info}
    if tables is None:
        return {"coverage": {"explanation": "route extraction failed", "discharged": 0}, "violations": [pv], "known": []}
    binary = build_harness(HARNESS_PKG, dirs=["auth"])
    cases = gen_cases(rng, tables, ctx["tier"])
    t1 = time.time()
    v, k, stats = evaluate(ID, ctx, cases, binary, known_sigs_for(ID))
    log("[%s] %d requests in %d deployments: harness %.1fs, model %.1fs, total %.1fs" % (
        ID, sum(len(c["steps"]) for c in cases), len(cases), stats["t_harness"], stats["t_model"], time.time() - t1))
    violations += v
    known += k
    dis = stats["dis"]
    if pv is not None:
        cov_extra["discharged"] = 0
        if not any(x.get("found_input") for x in violations):
            violations.append(pv)
    mon_real = [f for f in stats["failures"] if f[2]["sig"] not in known_sigs_for(ID)]
    if dis and not mon_real:
        extra = []
        for s2 in range(1, 4):
            v2, _, _ = evaluate(ID, ctx, gen_cases(random.Random(ctx["seed"] + 7919 * s2), tables, "quick"), binary, known_sigs_for(ID))
            extra += v2
            if v2:
                break
        if extra:
            violations += extra
        else:
            d = dis[0]
            c, o = stats["okc"][d["case"]]
            st, ob = c["steps"][d["step"]], o["obs"][d["step"]]
            violations.append({"what": "model/implementation disagreement on %s %s %s (%s): model says %s, implementation answered %d %r select=%s addconn=%s; no property-violating request found in 3 more seeds"
                                       % (st["port"], st["method"], st["path"], st.get("label"), d["model"], ob["status"], ob["err"], ob["select"], ob["addconn"]),
                               "found_input": False,
                               "replay_obj": {"broken": "corr:C10:auth_h:serve", "disagreements": len(dis), "model": d["model"],
                                              "case": dict(c, steps=[st]), "observed": ob}})
    # ---- the real data path (monitor only): proxy servers that verify tokens in front of real managers and scripted upstreams
    # registered under endpoint ids a URL / host parser would fold together; the endpoint the token was checked for must be the
    # endpoint whose upstream gets the request - through keep-alive, connection reuse and a second node
    from props import proxy_common as px
    pbin = build_harness(px.PKG)
    tclusters = [px.gen_token_cluster(random.Random(ctx["seed"] * 31 + i), "tok%d" % i) for i in range(6 if ctx["tier"] == "quick" else 60)]
    touts = px.run_clusters(pbin, ctx["wd"], tclusters, tag="tok")["clusters"]
    tfail = None
    for cl, co in zip(tclusters, touts):
        if co.get("panic"):
            tfail = (cl, len(co.get("requests") or []), px.fail("panic", "harness panic/watchdog: " + co["panic"]))
            break
        for ri, (rq, ob) in enumerate(zip(cl["requests"], co["requests"])):
            f = px.monitor_token_path(cl, ri, rq, ob)
            if f:
                tfail = (cl, ri, f)
                break
        if tfail:
            break
    if tfail:
        cl, ri, f = tfail
        small = dict(cl, requests=cl["requests"][:ri + 1])
        violations.append({"what": "C10 data-path monitor [%s]: %s (cluster %s, request %d)" % (f["sig"], f["why"], cl["id"], ri), "found_input": True,
                           "replay_obj": {"property": ID, "kind": "token-path", "signature": f["sig"], "why": f["why"], "cluster": small}})
    cov_extra["data_path"] = {"clusters": len(tclusters), "requests": sum(len(c["requests"]) for c in tclusters),
                              "served": sum(1 for co in touts for ob in (co.get("requests") or []) if ob.get("stamped")),
                              "refused_401": sum(1 for co in touts for ob in (co.get("requests") or []) if ob["status"] == 401)}
    nreq = sum(len(c["steps"]) for c in cases)
    routed = sum(1 for o in stats["outs"] for ob in (o.get("obs") or []) if ob["select"] or ob["addconn"])
    distinct = len({json.dumps([c[s["port"]], {k: v for k, v in s.items() if k != "label"}], sort_keys=True) for c in cases for s in c["steps"]
                    if (s["auth"] or s["xauth"])})
    sample = []
    for c in (cases[0], cases[-2], cases[-1]):
        for s, o in list(zip(c["steps"], stats["outs"][cases.index(c)].get("obs") or []))[:3]:
            sample.append({"deployment": c["id"], "verifier": c[s["port"]]["verifier"], "request": {k: v for k, v in s.items() if v not in (None, "")},
                           "observed": {k: o[k] for k in ("status", "err", "select", "addconn", "forward")}})
    cov = {"evaluations": nreq, "distinct_nontrivial": distinct,
           "rule": "endpoint claim sets (absent, [], [e], [e,f], [e1], [E], [e.x], [ee], [\"\"], [f,e-,zz]) x target namings (Host label with/without port, x-piko-endpoint, dotted host, conflicting Host+header, no endpoint) on the proxy HTTP route, x 7 near-miss names on /_piko/v1/tcp/:id and /piko/v1/upstream/:id (with distracting Host/header), under 3 key configurations; 6 tenant tables x tokens of (default, each tenant, strangers, empty secret) x 7 tenant header values x claim sets on the upstream port, tenant headers on proxy/admin; one deployment through the real server.NewServer with tenants. non-trivial = carries a token; distinct by (port config, request)",
           "samples": sample,
           "correspondence": {"harness": "harness/auth (package server): real proxy/upstream/admin servers on loopback, stub manager recording Select/AddConn endpoints",
                              "histories": len(stats["okc"]), "ops": sum(len(c["steps"]) for c, _ in stats["okc"]), "routed_requests": routed,
                              "distribution": kinds_of(cases), "disagreements": len(dis), "seed": ctx["seed"]},
           "monitor": {"histories": nreq, "failures": len(stats["failures"]),
                       "failures_by_signature": {s: len([1 for f in stats["failures"] if f[2]["sig"] == s]) for s in {f[2]["sig"] for f in stats["failures"]}}}}
    cov.update(cov_extra)
    ucov, uviol = urlpath_probe.run(ctx, ID)
    cov["url_path"] = ucov
    violations += uviol
    return {"coverage": cov, "violations": violations, "known": known}


def replay(path, wd):
    obj = json.load(open(path))
    if obj.get("kind") == "urlpath":
        return urlpath_probe.replay(obj, wd)
    if obj.get("kind") == "token-path":
        from props import proxy_common as px
        cl = obj["cluster"]
        co = px.run_clusters(build_harness(px.PKG), wd, [cl], tag="replay")["clusters"][0]
        print(json.dumps({"monitor": [{"request": ri, **f} for ri, (rq, ob) in enumerate(zip(cl["requests"], co.get("requests") or []))
                                      for f in [px.monitor_token_path(cl, ri, rq, ob)] if f], "panic": co.get("panic")}, indent=1))
        return 0
    case = obj.get("case")
    if not case:
        print(json.dumps(obj, indent=1)[:4000])
        return 0
    regen_tables(wd)
    coq_make(["Properties/%s.vo" % ID] + COQ_TARGETS)
    binary = build_harness(HARNESS_PKG, dirs=["auth"])
    out = run_cases(binary, wd, [case], tag="replay")[0]
    res = []
    for st, ob in zip(case["steps"], out.get("obs") or []):
        res.append({"request": {k: v for k, v in st.items() if v not in (None, "")}, "implementation": ob, "monitor": monitor_step(case, st, ob)})
    print(json.dumps({"deployment": out.get("panic") or "ok", "steps": res}, indent=1))
    if not out.get("panic"):
        print("model disagreements:", correspondence(ID, wd, [case], [out], tag="replay"))
    return 0
