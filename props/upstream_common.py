"""Generator, independent monitors, trace->Coq translation and the shared run loop for the upstream harness
(harness/upstream, package server/upstream) - used by C15 and C05."""
import json, os, random, re, sys, time
sys.path.insert(0, os.path.dirname(os.path.dirname(os.path.abspath(__file__))))
from lib.common import *

PKG = "server/upstream"
TEST = "TestVerifHarness_Upstream"
HDIRS = ["upstream"]                      # only our own harness directory is injected (others share the package)
EPS = ["e", "e1", "E", "\xe9:1"]          # near-miss endpoint names on purpose; one that is not UTF-8 and has a colon
SEL_EPS = ["e", "e1", "E", "x", ""]       # selects also ask for endpoints nobody registers
REMOTES = ["r1", "r2", "r3"]
STATUSES = ["active", "active", "active", "unreachable", "left"]
LOCAL = {"id": "n0", "gaddr": "10.0.0.1:8003", "paddr": "10.0.0.1:8000", "aaddr": "10.0.0.1:8002"}
CODE_NAMES = {1: "Endpoints()", 2: "cluster-local-endpoints", 3: "gossip-state", 4: "selection", 5: "balancer-internals", 6: "balancer-direct"}


def H(s):
    return s.encode("latin-1").hex()


def UH(hs):
    return bytes.fromhex(hs).decode("latin-1")


def local_spec():
    return {k: H(v) for k, v in LOCAL.items()}


# ---------------------------------------------------------------- script semantics (the property's own notions)
class Script:
    """What the op script MEANS, independent of the Coq model and of the implementation: which upstreams are
    connected (a multiset per endpoint; connecting twice counts twice; disconnecting something that is not
    connected changes nothing) and which remote nodes could serve an endpoint."""

    def __init__(self, local_id):
        self.local = local_id
        self.reg = {}        # endpoint -> list of uids (connected, in connection order)
        self.remote = {}     # node id -> {"st": status, "eps": {endpoint: n}}
        self.ever = {}       # endpoint -> set of uids ever connected

    def apply(self, op):
        k = op["op"]
        if k == "add":
            self.reg.setdefault(op["e"], []).append(op["u"])
            self.ever.setdefault(op["e"], set()).add(op["u"])
            return "add"
        if k == "remove":
            l = self.reg.get(op["e"], [])
            if op["u"] in l:
                l.remove(op["u"])
                if not l:
                    del self.reg[op["e"]]
                return "removed"
            return "noop"
        if k == "addnode":
            if op["id"] != self.local:
                self.remote[op["id"]] = {"st": op["st"], "eps": {ep["e"]: ep["n"] for ep in op["eps"]}}
        elif k == "rmnode":
            if op["id"] != self.local:
                self.remote.pop(op["id"], None)
        elif k == "status":
            if op["id"] in self.remote:
                self.remote[op["id"]]["st"] = op["st"]
        elif k == "remoteep":
            if op["id"] in self.remote:
                self.remote[op["id"]]["eps"][op["e"]] = op["n"]
        elif k == "remoteepdel":
            if op["id"] in self.remote:
                self.remote[op["id"]]["eps"].pop(op["e"], None)
        return None

    def count(self, e):
        return len(self.reg.get(e, []))

    def counts(self):
        return {e: len(l) for e, l in self.reg.items() if l}

    def candidates(self, e):
        return {i for i, n in self.remote.items() if n["st"] == H("active") and n["eps"].get(e, 0) > 0}


class Churn:
    """bounded waiting under churn (C15_no_starvation_churn), evaluated on the connect/disconnect/select history of one
    endpoint: an upstream u that stays connected is selected within (1 + f) * (M - 1) + 1 selections, where M is the
    largest number of upstreams connected meanwhile and f counts the disconnects of an upstream that had connected
    before u (stored in front of it). The window of u restarts whenever u is selected (or one of its duplicate
    registrations is removed)."""

    def __init__(self):
        self.order = []
        self.w = {}          # uid -> [selections that did not return it, disconnects in front of it, max set size]

    def add(self, u):
        self.order.append(u)
        self.w.setdefault(u, [0, 0, len(self.order)])
        for w in self.w.values():
            w[2] = max(w[2], len(self.order))

    def remove(self, u):
        if u not in self.order:
            return
        i = self.order.index(u)
        for v, w in self.w.items():
            if v != u and self.order.index(v) > i:
                w[1] += 1
        self.order.pop(i)
        if u in self.order:
            self.w[u] = [0, 0, len(self.order)]
        else:
            self.w.pop(u, None)

    def select(self, u):
        """returns (uid, waited, bound) of an upstream that has now waited longer than the bound, or None"""
        bad = None
        for v, w in self.w.items():
            if v == u:
                w[0], w[1], w[2] = 0, 0, len(self.order)
            else:
                w[0] += 1
                if w[0] > (1 + w[1]) * (w[2] - 1):
                    bad = (v, w[0], (1 + w[1]) * (w[2] - 1))
        return bad


# ---------------------------------------------------------------- monitors
def monitor_c15(case, out):
    """C15 on the implementation's observed behaviour: validity of every selection, no crash / nil, round-robin
    fairness over windows of a stable set, bounded waiting (no starvation) under churn."""
    if out.get("panic"):
        return {"step": len(out.get("obs") or []), "why": "selector crashed or hung: " + out["panic"][:300], "sig": "panic"}
    sc = Script(case["local"]["id"])
    runs = {}      # endpoint -> results since the registered set last changed
    wait = {}      # (endpoint, uid) -> [selections of that endpoint that did not return uid, allowance]
    churn = {}     # endpoint -> Churn
    for i, (op, ob) in enumerate(zip(case["ops"], out["obs"])):
        k = op["op"]
        if k in ("add", "remove"):
            e = op["e"]
            what = sc.apply(op)
            if what in ("add", "removed"):
                runs.pop(e, None)
            if what == "add":
                churn.setdefault(e, Churn()).add(op["u"])
            if what == "removed":
                churn.setdefault(e, Churn()).remove(op["u"])
            if what == "add":
                for (ee, u), w in wait.items():
                    if ee == e:
                        w[1] += 1
                wait[(e, op["u"])] = [0, sc.count(e)]
            if what == "removed":
                if op["u"] not in sc.reg.get(e, []):
                    wait.pop((e, op["u"]), None)
                # removing an upstream in front of the cursor makes the cursor skip the upstream that was due
                # next (Remove keeps nextIndex): the skipped one is due again within one cycle of the smaller
                # set (C15_no_starvation: every removal of another upstream costs at most one more cycle)
                for (ee, u), w in wait.items():
                    if ee == e and u != op["u"]:
                        w[1] = w[0] + max(w[1] - w[0], sc.count(e))
            continue
        if k != "select":
            sc.apply(op)
            continue
        e, s = op["e"], ob["sel"]
        reg = sc.reg.get(e, [])
        kind = s["kind"]
        if kind in ("nil", "foreign", ""):
            return {"step": i, "why": "Select returned ok with a nil/unknown upstream (kind %r)" % kind, "sig": "nil"}
        if kind == "local":
            if s["selep"] != e:
                return {"step": i, "why": "selected upstream belongs to endpoint %r, asked for %r" % (UH(s["selep"]), UH(e)), "sig": "wrong-endpoint"}
            if s["u"] not in reg:
                was = s["u"] in sc.ever.get(e, set())
                return {"step": i, "why": "selected upstream %d is %s for endpoint %r" % (s["u"], "no longer registered (removed earlier)" if was else "not registered", UH(e)),
                        "sig": "removed-selected" if was else "unregistered-selected"}
            if s["fwd"]:
                return {"step": i, "why": "local upstream marked as forward", "sig": "wrong-endpoint"}
            # fairness over a stable set
            r = runs.setdefault(e, [])
            r.append(s["u"])
            n = len(reg)
            if len(r) >= n and sorted(r[-n:]) != sorted(reg):
                return {"step": i, "why": "the last %d selections for %r (%s) are not a permutation of the %d stable upstreams %s"
                        % (n, UH(e), r[-n:], n, sorted(reg)), "sig": "fairness"}
            # bounded waiting: sharp bound under churn
            bad = churn.setdefault(e, Churn()).select(s["u"])
            if bad:
                return {"step": i, "why": "upstream %d of %r kept waiting under churn: not selected in %d selections, bound (1 + disconnects in front of it) * (largest set - 1) = %d"
                        % (bad[0], UH(e), bad[1], bad[2]), "sig": "starvation-churn"}
            # bounded waiting
            for (ee, u), w in wait.items():
                if ee != e:
                    continue
                if u == s["u"]:
                    w[0], w[1] = 0, n
                else:
                    w[0] += 1
                    if w[0] >= w[1]:
                        return {"step": i, "why": "upstream %d of %r starved: not selected in %d selections (bound from set size, additions and removals: %d)"
                                % (u, UH(e), w[0], w[1]), "sig": "starvation"}
        elif kind == "remote":
            if not op["allow"]:
                return {"step": i, "why": "request that may not be forwarded received remote node %r" % UH(s["id"]), "sig": "remote-not-allowed"}
            if reg:
                return {"step": i, "why": "remote node returned although %d local upstream(s) are registered for %r" % (len(reg), UH(e)), "sig": "remote-over-local"}
            if s["id"] not in sc.candidates(e):
                return {"step": i, "why": "remote node %r is not an active node advertising %r" % (UH(s["id"]), UH(e)), "sig": "remote-invalid"}
            if s["selep"] != e or not s["fwd"]:
                return {"step": i, "why": "remote upstream carries endpoint %r / forward=%s" % (UH(s["selep"]), s["fwd"]), "sig": "wrong-endpoint"}
        elif kind == "none":
            if reg:
                return {"step": i, "why": "no upstream returned although %d are registered for %r" % (len(reg), UH(e)), "sig": "starvation"}
            if op["allow"] and sc.candidates(e):
                return {"step": i, "why": "no upstream returned although forwarding is allowed and %s advertise %r" % (sorted(UH(x) for x in sc.candidates(e)), UH(e)), "sig": "remote-missed"}
        else:
            return {"step": i, "why": "unknown selection kind %r" % kind, "sig": "nil"}
    if len(out["obs"]) != len(case["ops"]):
        return {"step": len(out["obs"]), "why": "script did not run to completion", "sig": "panic"}
    return None


def advertised(ob):
    """endpoint -> count as a remote node would decode it from the live gossip entries; None on garbage"""
    adv = {}
    pre = H("endpoint:")
    for en in ob["gents"]:
        if en["del"] or en["int"] or not en["k"].startswith(pre):
            continue
        v = UH(en["v"])
        if not re.fullmatch(r"[+-]?[0-9]+", v):
            return None
        adv[en["k"][len(pre):]] = int(v)
    return adv


def counts_failure(want, ob, i):
    eps = {x["e"]: x["n"] for x in ob["eps"]}
    loc = {x["e"]: x["n"] for x in ob["local"]}
    adv = advertised(ob)
    if eps != want:
        return {"step": i, "why": "Endpoints() %s differs from the connected upstreams %s" % (pp(eps), pp(want)), "sig": "registered"}
    if loc != want:
        return {"step": i, "why": "cluster state advertises %s, connected upstreams are %s" % (pp(loc), pp(want)), "sig": "counts"}
    if adv is None or adv != want:
        return {"step": i, "why": "gossip entries advertise %s, connected upstreams are %s" % (pp(adv), pp(want)), "sig": "counts-gossip"}
    return None


def pp(d):
    if d is None:
        return "<unparsable>"
    return "{" + ", ".join("%s:%d" % (UH(k), v) for k, v in sorted(d.items())) + "}"


def monitor_c05(case, out):
    """C05 on the implementation: after every op the connected-upstream counts (from the script), Endpoints(), the
    cluster's local endpoint counts and the decoded live gossip entries agree (absent <-> 0)."""
    if out.get("panic"):
        return {"step": len(out.get("obs") or []), "why": "crashed or hung: " + out["panic"][:300], "sig": "panic"}
    sc = Script(case["local"]["id"])
    for i, (op, ob) in enumerate(zip(case["ops"], out["obs"])):
        sc.apply(op)
        f = counts_failure(sc.counts(), ob, i)
        if f:
            return f
    if len(out["obs"]) != len(case["ops"]):
        return {"step": len(out["obs"]), "why": "script did not run to completion", "sig": "panic"}
    return None


def conc_linear(case):
    ops = list(case["ops"])
    for th in case["threads"]:
        ops += [o for o in th if o["op"] in ("add", "remove")]
    return ops


def monitor_conc(pid, case, out):
    if out.get("panic") or not out.get("final"):
        return {"step": 0, "why": "concurrent script crashed or hung: " + (out.get("panic") or "no final state")[:300], "sig": "panic"}
    sc = Script(case["local"]["id"])
    for op in conc_linear(case):
        sc.apply(op)
    if pid == "C05":
        return counts_failure(sc.counts(), out["final"], 0)
    for ti, sels in enumerate(out.get("tsels") or []):
        asked = [o for o in case["threads"][ti] if o["op"] == "select"]
        for o, s in zip(asked, sels or []):
            e, r = s["e"], s["sel"]
            if r["kind"] in ("nil", "foreign", ""):
                return {"step": 0, "why": "concurrent Select returned ok with a nil/unknown upstream", "sig": "nil"}
            if r["kind"] == "local" and (r["selep"] != e or r["u"] not in sc.ever.get(e, set())):
                return {"step": 0, "why": "concurrent Select for %r returned upstream %d of endpoint %r" % (UH(e), r["u"], UH(r["selep"])), "sig": "wrong-endpoint"}
            if r["kind"] == "remote":
                if not o["allow"]:
                    return {"step": 0, "why": "concurrent Select: request that may not be forwarded received a remote node", "sig": "remote-not-allowed"}
                if r["selep"] != e or r["id"] not in sc.candidates(e):
                    return {"step": 0, "why": "concurrent Select: remote node %r does not advertise %r" % (UH(r["id"]), UH(e)), "sig": "remote-invalid"}
    if case.get("storm") and pid == "C15":
        # selections only, from many goroutines, over a stable set: the rotation is one global sequence (every selection
        # advances the cursor under the manager's lock), so the upstreams' totals differ by at most one
        cnt = {}
        for sels in out.get("tsels") or []:
            for s in sels or []:
                if s["sel"]["kind"] == "local":
                    cnt[s["sel"]["u"]] = cnt.get(s["sel"]["u"], 0) + 1
        reg = sc.reg.get(case["storm"], [])
        tot = [cnt.get(u, 0) for u in reg]
        if tot and max(tot) - min(tot) > 1:
            return {"step": 0, "why": "%d concurrent selections over the stable set %s were distributed %s: not a rotation (every %d consecutive selections must return each upstream once)"
                                      % (sum(tot), reg, dict(zip(reg, tot)), len(reg)), "sig": "fairness-concurrent"}
    bal = {b["e"]: sorted(b["ups"]) for b in out["final"]["bal"]}
    want = {e: sorted(l) for e, l in sc.reg.items() if l}
    if bal != want:
        return {"step": 0, "why": "after the concurrent script the balancers hold %s, connected are %s" % (bal, want), "sig": "registered"}
    return None


# ---------------------------------------------------------------- generator
def gen_remote_op(rng):
    r = rng.random()
    nid = rng.choice(REMOTES + ["n0"] if rng.random() < 0.12 else REMOTES)
    if r < 0.4:
        eps = []
        for e in rng.sample(SEL_EPS[:4], rng.randint(0, 3)):
            eps.append({"e": H(e), "n": rng.choice([-1, 0, 1, 1, 2, 3])})
        return {"op": "addnode", "id": H(nid), "st": H(rng.choice(STATUSES)), "eps": eps}
    if r < 0.6:
        return {"op": "remoteep", "id": H(nid), "e": H(rng.choice(SEL_EPS[:4])), "n": rng.choice([-1, 0, 1, 2, 5])}
    if r < 0.75:
        return {"op": "status", "id": H(nid), "st": H(rng.choice(STATUSES))}
    if r < 0.9:
        return {"op": "remoteepdel", "id": H(nid), "e": H(rng.choice(SEL_EPS[:4]))}
    return {"op": "rmnode", "id": H(nid)}


def gen_case(rng, cid, max_ops=26):
    """6 upstreams over 3 near-miss endpoint names; of the connect/disconnect ops 60% add, 40% remove, a third of the
    removes duplicate/late/unknown; selects (allow true/false) in bursts; remote nodes come and go."""
    ups = [(u, H(rng.choice(EPS if rng.random() < 0.7 else ["e"]))) for u in range(1, 7)]
    unknown = [(7, H("e")), (8, H("E")), (9, H("x"))]
    sc = Script(H(LOCAL["id"]))
    removed = []
    ops = []
    nops = rng.randint(4, max_ops)
    p_sel = rng.choice([0.25, 0.4, 0.55])
    p_rem = rng.choice([0.0, 0.08, 0.15])
    while len(ops) < nops:
        r = rng.random()
        if r < p_rem:
            op = gen_remote_op(rng)
            sc.apply(op)
            ops.append(op)
        elif r < p_rem + p_sel:
            if sc.reg and rng.random() < 0.75:
                e = rng.choice(sorted(sc.reg))
            else:
                e = H(rng.choice(SEL_EPS))
            burst = 1 if rng.random() < 0.4 else rng.randint(1, 2 * max(1, sc.count(e)) + 1)
            for _ in range(burst):
                ops.append({"op": "select", "e": e, "allow": rng.random() < 0.5})
        elif rng.random() < 0.6:
            cur = [(u, e) for e, l in sc.reg.items() for u in l]
            free = [x for x in ups if x not in cur]
            if free and rng.random() < 0.88:
                u, e = rng.choice(free)
            else:
                u, e = rng.choice(ups)          # the same upstream connected twice
            op = {"op": "add", "u": u, "e": e}
            sc.apply(op)
            ops.append(op)
        else:
            cur = [(u, e) for e, l in sc.reg.items() for u in l]
            if cur and rng.random() < 2 / 3:
                u, e = rng.choice(cur)
            else:
                pool = [x for x in removed if x not in cur] * 2 + unknown + [x for x in ups if x not in cur]
                u, e = rng.choice(pool)
                if rng.random() < 0.1:
                    e = H(rng.choice(EPS))      # right uid, other endpoint name: a different upstream
            op = {"op": "remove", "u": u, "e": e}
            if (u, e) in cur and rng.random() < 0.3:
                # the connection dies first (client gone, shed by a rebalance): the session is closed, requests keep being
                # routed, and only then does the handler deregister the upstream
                ops.append({"op": "sever", "u": u, "e": e})
                for _ in range(rng.randint(1, 2 * max(1, sc.count(e)))):
                    ops.append({"op": "select", "e": e, "allow": rng.random() < 0.5})
            if sc.apply(op) == "removed":
                removed.append((u, e))
            ops.append(op)
    return {"id": cid, "local": local_spec(), "ops": ops}


def gen_conc_case(rng, cid, nthreads=8):
    """every upstream is owned by one goroutine: connected once, then 0..3 disconnects (the extra ones are the
    go-away + late disconnect pattern); other goroutines select concurrently"""
    threads = []
    uid = 1
    for t in range(nthreads):
        ops = []
        for _ in range(rng.randint(2, 6)):
            e = H(rng.choice(EPS))
            ops.append([{"op": "add", "u": uid, "e": e}] + [{"op": "remove", "u": uid, "e": e}] * rng.choice([0, 0, 1, 1, 2, 3]))
            uid += 1
        # interleave the per-upstream sequences of this goroutine, keeping each one's order
        merged = []
        while any(ops):
            seq = rng.choice([s for s in ops if s])
            merged.append(seq.pop(0))
            if rng.random() < 0.3:
                merged.append({"op": "select", "e": H(rng.choice(EPS)), "allow": rng.random() < 0.5})
        threads.append(merged)
    pro = [gen_remote_op(rng) for _ in range(rng.randint(0, 2))]
    return {"id": cid, "local": local_spec(), "ops": pro, "threads": threads}


def gen_bal_case(rng, cid, max_ops=30):
    """ops on a bare loadBalancer: Add / Remove / Next, including Remove and Next on an empty balancer, removing the
    element under the cursor, the last one, an unknown one, the same pointer added twice"""
    ops, reg = [], []
    p_next = rng.choice([0.3, 0.5, 0.7])
    for _ in range(rng.randint(3, max_ops)):
        r = rng.random()
        if r < p_next:
            ops += [{"op": "select"}] * (1 if rng.random() < 0.5 else rng.randint(1, 2 * len(reg) + 1))
        elif rng.random() < 0.58:
            u = rng.randint(1, 7)
            ops.append({"op": "add", "u": u})
            reg.append(u)
        else:
            u = rng.choice(reg) if reg and rng.random() < 0.75 else rng.randint(1, 9)
            ops.append({"op": "remove", "u": u})
            if u in reg:
                reg.remove(u)
    return {"id": cid, "ops": ops}


def monitor_bal(case, out):
    """C15 on a bare balancer: Next returns a current member (nil iff empty), any window of n results over a stable set
    of n is a permutation of it, Remove reports emptiness, nothing crashes"""
    if out.get("panic"):
        return {"step": len(out.get("obs") or []), "why": "balancer crashed: " + out["panic"][:300], "sig": "panic"}
    reg, run = [], []
    ch = Churn()
    for i, (op, ob) in enumerate(zip(case["ops"], out["obs"])):
        k = op["op"]
        if k == "add":
            reg.append(op["u"]); run = []
            ch.add(op["u"])
        elif k == "remove":
            ch.remove(op["u"])
            if op["u"] in reg:
                reg.remove(op["u"]); run = []
            if (ob["ret"] == 1) != (len(reg) == 0):
                return {"step": i, "why": "Remove returned %s with %d upstreams left" % (ob["ret"] == 1, len(reg)), "sig": "remove-flag"}
        else:
            s = ob["sel"]
            if not reg:
                if s["kind"] != "nil":
                    return {"step": i, "why": "Next on an empty balancer returned something", "sig": "nil"}
                continue
            if s["kind"] != "local" or s["u"] not in reg:
                return {"step": i, "why": "Next returned %r, members are %s" % (s, reg), "sig": "unregistered-selected"}
            run.append(s["u"])
            n = len(reg)
            if len(run) >= n and sorted(run[-n:]) != sorted(reg):
                return {"step": i, "why": "the last %d results %s are not a permutation of the members %s" % (n, run[-n:], sorted(reg)), "sig": "fairness"}
            bad = ch.select(s["u"])
            if bad:
                return {"step": i, "why": "member %d kept waiting under churn: not returned in %d calls of Next, bound (1 + removals in front of it) * (largest set - 1) = %d"
                        % bad, "sig": "starvation-churn"}
        if sorted(ob["bal"][0]["ups"]) != sorted(reg):
            return {"step": i, "why": "balancer holds %s, members are %s" % (ob["bal"][0]["ups"], reg), "sig": "registered"}
    if len(out["obs"]) != len(case["ops"]):
        return {"step": len(out["obs"]), "why": "script did not run to completion", "sig": "panic"}
    return None


BAL_CORPUS = [
    {"id": "bal-scale-down", "ops": [{"op": "add", "u": u} for u in range(1, 41)] + [{"op": "select"}] * 3 + [{"op": "remove", "u": u} for u in range(1, 29)]
                                    + [{"op": "select"}] * 14 + [{"op": "add", "u": 99}] + [{"op": "select"}] * 14},
    # a flapping member (seeded change C15-2: Remove restarting the rotation serves only the first member)
    {"id": "bal-flap", "ops": [{"op": "add", "u": 1}, {"op": "add", "u": 2}, {"op": "add", "u": 3}, {"op": "select"}] +
                              [{"op": "add", "u": 9}, {"op": "select"}, {"op": "remove", "u": 9}] * 6},
    {"id": "bal-empty", "ops": [{"op": "select"}, {"op": "remove", "u": 1}, {"op": "add", "u": 1}, {"op": "select"}, {"op": "remove", "u": 1}, {"op": "remove", "u": 1}, {"op": "select"}]},
    {"id": "bal-cursor", "ops": [{"op": "add", "u": 1}, {"op": "add", "u": 2}, {"op": "add", "u": 3}, {"op": "select"}, {"op": "select"}, {"op": "remove", "u": 3},
                                 {"op": "select"}, {"op": "select"}, {"op": "remove", "u": 9}, {"op": "add", "u": 1}, {"op": "select"}, {"op": "select"}, {"op": "select"}]},
]


def run_bal(binary, wd, cases, tag="bal"):
    out, logtxt = run_harness(binary, {"mode": "bal", "cases": cases}, wd, tag=tag, test=TEST)
    if out is None:
        raise RuntimeError("harness run failed:\n" + logtxt)
    return out["cases"]


def bal_to_coq(case, out):
    items = []
    for op, ob in zip(case["ops"], out["obs"]):
        o = {"add": "(BAdd %d)" % op.get("u", 0), "remove": "(BRemove %d)" % op.get("u", 0), "select": "BNext"}[op["op"]]
        b = ob["bal"][0]
        items.append("%s %s %d %s %d" % (o, c_ns(b["ups"]), b["next"], c_sel(ob["sel"]), max(ob["ret"], 0)))
    return chain("BS1", "BS0", items)


def A(u, e): return {"op": "add", "u": u, "e": H(e)}
def R(u, e): return {"op": "remove", "u": u, "e": H(e)}
def S(e, allow=False): return {"op": "select", "e": H(e), "allow": allow}


def scale_down(n=40, keep=12, e="e"):
    """a fleet: n upstreams of one endpoint connect, most of them disconnect again (the backing array is far larger than what is
    left), every survivor is still selected in turn and the advertised count follows"""
    ops = [A(u, e) for u in range(1, n + 1)] + [S(e), S(e), S(e)]
    for u in range(1, n + 1 - keep):
        ops.append(R(u, e))
        if u % 7 == 0:
            ops.append(S(e))
    ops += [S(e)] * (keep + 2) + [A(99, e)] + [S(e)] * (keep + 3) + [R(u, e) for u in range(n + 1 - keep, n + 1)] + [S(e), R(99, e), S(e)]
    return ops


CORPUS = [
    {"id": "corpus-scale-down", "ops": scale_down()},
    {"id": "corpus-scale-down-70", "ops": scale_down(70, 3, "e1")},
    # D1 witness (C05_refuted_pinned): the second removal of u1 must not touch the advertised count
    {"id": "corpus-d1", "ops": [A(1, "e"), A(2, "e"), R(1, "e"), R(1, "e"), S("e"), S("e")]},
    # go-away: the proxy drops the upstream, later the connection ends; then the sibling leaves as well
    {"id": "corpus-goaway", "ops": [A(1, "e"), A(2, "e"), A(3, "e1"), R(2, "e"), S("e"), R(2, "e"), R(2, "e"), R(1, "e"), R(1, "e"), S("e", True), A(2, "e"), S("e")]},
    # cursor at the end, remove the last element: nextIndex must wrap
    {"id": "corpus-cursor-end", "ops": [A(1, "e"), A(2, "e"), A(3, "e"), S("e"), S("e"), R(3, "e"), S("e"), S("e"), S("e")]},
    # remove the element under the cursor / before the cursor
    {"id": "corpus-cursor-mid", "ops": [A(1, "e"), A(2, "e"), A(3, "e"), A(4, "e"), S("e"), S("e"), R(3, "e"), S("e"), S("e"), S("e"), R(1, "e"), S("e"), S("e"), S("e")]},
    # remove down to empty, re-register, select
    {"id": "corpus-empty-again", "ops": [A(1, "e"), A(2, "e"), S("e"), R(1, "e"), R(2, "e"), S("e"), S("e", True), A(3, "e"), S("e"), S("e"), A(1, "e"), S("e"), S("e"), S("e")]},
    # near-miss endpoint names are different endpoints
    {"id": "corpus-nearmiss", "ops": [A(1, "e"), A(2, "e1"), A(3, "E"), S("e"), S("e1"), S("E"), S("e2"), S(""), R(1, "e1"), R(1, "E"), S("e"), R(1, "e"), S("e"), S("e1")]},
    # the same upstream registered twice
    {"id": "corpus-twice", "ops": [A(1, "e"), A(1, "e"), A(2, "e"), S("e"), S("e"), S("e"), R(1, "e"), S("e"), S("e"), R(1, "e"), R(1, "e"), S("e"), S("e")]},
    # never registered upstreams
    # a connection that dies (client gone / shed) while requests keep arriving, deregistered by its handler afterwards
    {"id": "corpus-severed", "ops": [A(1, "e"), A(2, "e"), {"op": "sever", "u": 1, "e": H("e")}, S("e"), S("e"), S("e"), R(1, "e"), S("e"),
                                     {"op": "sever", "u": 2, "e": H("e")}, S("e"), S("e", True), R(2, "e"), S("e"), A(3, "e"), S("e")]},
    {"id": "corpus-unknown", "ops": [R(7, "e"), A(1, "e"), R(7, "e"), R(8, "E"), S("e"), R(1, "e"), R(1, "e"), S("e")]},
    # remote branch: only when allowed, only when nothing is local, only active nodes with listeners > 0
    {"id": "corpus-remote", "ops": [
        {"op": "addnode", "id": H("r1"), "st": H("active"), "eps": [{"e": H("e"), "n": 2}, {"e": H("E"), "n": 0}]},
        {"op": "addnode", "id": H("r2"), "st": H("unreachable"), "eps": [{"e": H("e"), "n": 1}, {"e": H("e1"), "n": 1}]},
        {"op": "addnode", "id": H("n0"), "st": H("active"), "eps": [{"e": H("x"), "n": 1}]},
        S("e", True), S("e", False), S("E", True), S("e1", True), S("x", True),
        A(1, "e"), S("e", True), S("e", False), R(1, "e"), S("e", True),
        {"op": "status", "id": H("r2"), "st": H("active")}, S("e1", True), S("e", True), S("e", True), S("e", True),
        {"op": "status", "id": H("r1"), "st": H("left")}, S("e", True),
        {"op": "remoteep", "id": H("r2"), "e": H("e"), "n": 0}, S("e", True),
        {"op": "remoteep", "id": H("r2"), "e": H("e"), "n": -1}, S("e", True),
        {"op": "remoteepdel", "id": H("r2"), "e": H("e1")}, S("e1", True),
        {"op": "rmnode", "id": H("r2")}, S("e", True), {"op": "remoteep", "id": H("r9"), "e": H("e"), "n": 3}, S("e", True)]},
]
for _c in CORPUS:
    _c["local"] = local_spec()

CONC_CORPUS = [
    {"id": "conc-corpus-d1", "local": local_spec(), "ops": [],
     "threads": [[A(1, "e"), R(1, "e"), R(1, "e")], [A(2, "e")], [A(3, "e"), R(3, "e")], [S("e"), S("e"), S("e")],
                 [A(4, "e1"), R(4, "e1"), R(4, "e1"), R(4, "e1")], [A(5, "e")], [S("e1", True)], [A(6, "E"), S("E")]]},
]


# ---------------------------------------------------------------- running
def run_seq(binary, wd, cases, tag="seq"):
    out, logtxt = run_harness(binary, {"mode": "seq", "cases": cases}, wd, tag=tag, test=TEST)
    if out is None:
        raise RuntimeError("harness run failed:\n" + logtxt)
    return out["cases"]


def run_conc(binary, wd, cases, tag="conc"):
    out, logtxt = run_harness(binary, {"mode": "conc", "cases": cases}, wd, tag=tag, test=TEST)
    if out is None:
        # a data race report or a crash of the whole binary
        return None, logtxt
    return out["cases"], logtxt


# ---------------------------------------------------------------- trace -> Coq
_INTERN = {}


def cs(hexs):
    """strings are interned per cases file (a Coq string literal is a big term: 10 nodes per byte)"""
    if hexs not in _INTERN:
        _INTERN[hexs] = "s%d" % len(_INTERN)
    return _INTERN[hexs]


def c_uid(u):
    return "%d" % (u if u >= 0 else 999999999)


def chain(cons, nil, items):
    """right-nested constructor chain: cons a1 (cons a2 (... nil))"""
    return "".join("(%s %s " % (cons, it) for it in items) + nil + ")" * len(items)


def c_z(n):
    return "(%d)%%Z" % n


def c_op(op):
    k = op["op"]
    if k == "add": return "(TAdd %s %s)" % (c_uid(op["u"]), cs(op["e"]))
    if k == "remove": return "(TRemove %s %s)" % (c_uid(op["u"]), cs(op["e"]))
    if k == "select": return "(TSelect %s %s)" % (cs(op["e"]), coq_bool(op["allow"]))
    if k == "addnode":
        # the harness builds a Go map from the list: a later duplicate wins; of_op folds insert from the right
        return "(TAddNode %s %s %s)" % (cs(op["id"]), cs(op["st"]),
                                       chain("SZ1", "SZ0", ["%s %s" % (cs(ep["e"]), c_z(ep["n"])) for ep in reversed(op["eps"])]))
    if k == "rmnode": return "(TRemoveNode %s)" % cs(op["id"])
    # a session that dies without the manager being told changes nothing the manager knows: a no-op of the model
    if k == "sever": return "(TRemoveNode %s)" % cs(H("~no-such-node~"))
    if k == "status": return "(TStatus %s %s)" % (cs(op["id"]), cs(op["st"]))
    if k == "remoteep": return "(TRemoteEp %s %s %s)" % (cs(op["id"]), cs(op["e"]), c_z(op["n"]))
    if k == "remoteepdel": return "(TRemoteEpDel %s %s)" % (cs(op["id"]), cs(op["e"]))
    raise ValueError(k)


def c_eps(l):
    return chain("SN1", "SN0", ["%s %d" % (cs(x["e"]), x["n"] if x["n"] >= 0 else 999999999) for x in l])


def c_ns(l):
    return chain("NN1", "NN0", [c_uid(u) for u in l])


def c_sel(s):
    k = s["kind"]
    if k == "": return "ONoSel"
    if k == "local": return "(OLocal %s)" % c_uid(s["u"])
    if k == "remote": return "(ORemote %s)" % cs(s["id"])
    if k == "none": return "ONone"
    return "ONil"


def c_step(op, ob):
    return "%s %s %s %d %s %s %s" % (
        c_op(op), c_eps(ob["eps"]), c_eps(ob["local"]), ob["gver"],
        chain("EN1", "EN0", ["%s %s %d %s %s" % (cs(e["k"]), cs(e["v"]), e["ver"], coq_bool(e["int"]), coq_bool(e["del"])) for e in ob["gents"]]),
        chain("BL1", "BL0", ["%s %s %d" % (cs(b["e"]), c_ns(b["ups"]), b["next"]) for b in ob["bal"]]),
        c_sel(ob["sel"]))


def c_local(l):
    return "%s %s %s %s" % (cs(l["id"]), cs(l["gaddr"]), cs(l["paddr"]), cs(l["aaddr"]))


def case_to_coq(case, out):
    return "%s\n %s" % (c_local(case["local"]), chain("ST1", "ST0", [c_step(op, ob) for op, ob in zip(case["ops"], out["obs"])]))


def conc_to_coq(case, out):
    f = out["final"]
    live = [(e["k"], e["v"]) for e in f["gents"] if not e["del"] and not e["int"]]
    return "%s\n %s %s %s %s %s" % (
        c_local(case["local"]), chain("OP1", "OP0", [c_op(o) for o in conc_linear(case)]), c_eps(f["eps"]), c_eps(f["local"]),
        chain("SS1", "SS0", ["%s %s" % (cs(k), cs(v)) for k, v in live]),
        chain("CB1", "CB0", ["%s %s" % (cs(b["e"]), c_ns(b["ups"])) for b in f["bal"]]))


HEADER = ["From Coq Require Import List String NArith ZArith Bool.",
          "From Piko Require Import Base.Maps Base.Strs Gossip.Types Gossip.Local Upstream.Balancer Upstream.Manager Run.Run_Upstream.",
          "Import ListNotations. Open Scope string_scope. Open Scope list_scope. Open Scope N_scope."]


def cases_file(cases, outs, conc=False):
    _INTERN.clear()
    items = [(bal_to_coq if conc == "bal" else conc_to_coq if conc else case_to_coq)(c, o) for c, o in zip(cases, outs)]
    defs = ["Definition %s : string := Eval vm_compute in (h \"%s\")." % (n, hx_) for hx_, n in sorted(_INTERN.items(), key=lambda kv: int(kv[1][1:]))]
    if conc == "bal":
        body = ["Definition cases : t_bcases :=", chain("BC1", "BC0", items) + ".", "Definition M := Eval vm_compute in t_bmismatches cases."]
    elif conc:
        body = ["Definition cases : t_ccases :=", chain("CC1", "CC0", items) + ".", "Definition M := Eval vm_compute in t_cmismatches cases."]
    else:
        body = ["Definition cases : t_cases :=", chain("UC1", "UC0", items) + ".", "Definition M := Eval vm_compute in t_mismatches cases."]
    return "\n".join(HEADER + defs + body + ["Print M."]) + "\n"


def parse_mismatches(out):
    m = re.search(r"M\s*=\s*(.*?)\s*:\s*list", out, flags=re.S)
    if not m:
        return None
    txt = m.group(1).strip()
    if txt == "[]":
        return []
    res = []
    for mm in re.finditer(r"\(\s*(\d+)\s*,\s*(\d+)\s*,\s*\[([^\]]*)\]\s*\)", txt.replace("%nat", "")):
        res.append((int(mm.group(1)), int(mm.group(2)), [int(x) for x in re.findall(r"\d+", mm.group(3))]))
    return res


def correspondence(pid, wd, cases, outs, shard=120, tag="s", conc=False):
    """evaluate the model on the observed histories inside Coq; list of {case, step, codes, names}"""
    import concurrent.futures as cf
    jobs = [(si, cases[si:si + shard], outs[si:si + shard]) for si in range(0, len(cases), shard)]

    bodies = {si: cases_file(cc, oo, conc) for si, cc, oo in jobs}     # sequential: the intern table is global

    def work(job):
        si, cc, oo = job
        rc, out = coq_eval(wd, "Cases_%s_%s_%d" % (pid, tag, si), bodies[si])
        mm = parse_mismatches(out)
        if rc != 0 or mm is None:
            raise RuntimeError("coq evaluation of cases failed:\n" + out[-3000:])
        return [(si + c, s, codes) for (c, s, codes) in mm]

    dis = []
    with cf.ThreadPoolExecutor(max_workers=12) as ex:
        for r in ex.map(work, jobs):
            for (c, s, codes) in r:
                dis.append({"case": c, "step": s, "codes": codes, "names": [CODE_NAMES.get(x, str(x)) for x in codes]})
    return dis


def shrink_case(case, fails, max_rounds=250):
    """delta debugging over the op list; fails(case) re-runs the compiled harness"""
    ops = list(case["ops"])
    n = 2
    rounds = 0
    while len(ops) >= 2 and rounds < max_rounds:
        chunk = max(1, len(ops) // n)
        reduced = False
        for i in range(0, len(ops), chunk):
            cand = ops[:i] + ops[i + chunk:]
            rounds += 1
            if cand and fails(dict(case, ops=cand)):
                ops = cand
                n = max(n - 1, 2)
                reduced = True
                break
        if not reduced:
            if chunk == 1:
                break
            n = min(n * 2, len(ops))
    return dict(case, ops=ops)


def op_mix(cases):
    mix = {}
    for c in cases:
        for op in c["ops"]:
            mix[op["op"]] = mix.get(op["op"], 0) + 1
        for th in c.get("threads", []):
            for op in th:
                mix["conc-" + op["op"]] = mix.get("conc-" + op["op"], 0) + 1
    return mix


def probe_variants(rng, case, step):
    """histories near a disagreeing one: its prefix up to the disagreement followed by selection bursts and further
    churn, so that a hidden difference in the state becomes a visible failure of the property"""
    out = []
    pre = case["ops"][: step + 1]
    eps = sorted({o["e"] for o in pre if "e" in o and o["op"] in ("add", "remove", "select")}) or [H("e")]
    for j in range(40):
        ops = list(pre)
        for _ in range(rng.randint(1, 4)):
            e = rng.choice(eps)
            r = rng.random()
            if r < 0.5:
                ops += [{"op": "select", "e": e, "allow": rng.random() < 0.5} for _ in range(rng.randint(1, 9))]
            elif r < 0.75:
                ops.append({"op": "add", "u": rng.randint(1, 6), "e": e})
            else:
                ops.append({"op": "remove", "u": rng.randint(1, 6), "e": e})
        out.append(dict(case, id=case["id"] + "-probe%d" % j, ops=ops))
    return out


def load_corpus(pid):
    """built-in corpus first, then every /verif/corpus/<pid>/*.json (minimised failing / interesting histories)"""
    out = [dict(c) for c in CORPUS]
    seen = {c["id"] for c in out}
    d = os.path.join(VERIF, "corpus", pid)
    if os.path.isdir(d):
        for fn in sorted(os.listdir(d)):
            if not fn.endswith(".json"):
                continue
            try:
                obj = json.load(open(os.path.join(d, fn)))
            except Exception:
                continue
            c = obj.get("case", obj)
            if isinstance(c, dict) and isinstance(c.get("ops"), list) and not c.get("threads") and c.get("mode") != "bal":
                c = dict(c, id="corpusfile-" + fn[:-5], local=c.get("local") or local_spec())
                if c["id"] not in seen:
                    seen.add(c["id"])
                    out.append(c)
    return out


def run_property(ctx, pid, monitor, codes, what_conc):
    """the shared run loop of C15 / C05. `codes` = the correspondence codes that belong to this property."""
    rng = random.Random(ctx["seed"])
    quick = ctx["tier"] == "quick"
    wd = ctx["wd"]
    nseq = 2000 if quick else 20000
    nconc = 60 if quick else 1000
    cases = load_corpus(pid) + [gen_case(rng, "g%d" % i, 18 if quick else 30) for i in range(nseq)]
    ccases = [dict(c) for c in CONC_CORPUS] + [gen_conc_case(rng, "c%d" % i) for i in range(nconc)]
    binary = build_harness(PKG, dirs=HDIRS)
    t1 = time.time()
    outs = run_seq(binary, wd, cases)
    t2 = time.time()
    violations, known = [], []

    # ---- monitor on the sequential histories
    mon_fail = []
    for c, o in zip(cases, outs):
        f = monitor(c, o)
        if f:
            mon_fail.append((c, f))
    okc = [(c, o) for c, o in zip(cases, outs) if not o.get("panic") and len(o["obs"]) == len(c["ops"])]
    dis_all = correspondence(pid, wd, [c for c, _ in okc], [o for _, o in okc])
    dis = [d for d in dis_all if set(d["codes"]) & set(codes)]
    t3 = time.time()

    # ---- concurrent mode (plain build; with the race detector in the thorough tier)
    conc_runs = [("plain", binary)]
    if not quick:
        conc_runs.append(("race", build_harness(PKG, race=True, dirs=HDIRS)))
    conc_fail, conc_dis, conc_hist = [], [], 0
    for label, b in conc_runs:
        couts, clog = run_conc(b, wd, ccases, tag="conc-" + label)
        if couts is None:
            conc_fail.append((ccases[0], {"step": 0, "why": "concurrent run (%s build) aborted%s: %s" % (label, " - the race detector reported a data race" if ("DATA RACE" in clog or "race detected" in clog) else "",
                                                                                      "; ".join(re.findall(r"(?m)^(?:fatal error:|panic:|WARNING: DATA RACE|testing: race detected).*$", clog)[:3]) or clog[-600:]), "sig": "race" if ("DATA RACE" in clog or "race detected" in clog) else "panic"}, label))
            continue
        conc_hist += len(couts)
        for c, o in zip(ccases, couts):
            f = monitor_conc(pid, c, o)
            if f:
                conc_fail.append((c, f, label))
        okcc = [(c, o) for c, o in zip(ccases, couts) if not o.get("panic") and o.get("final")]
        d = correspondence(pid, wd, [c for c, _ in okcc], [o for _, o in okcc], tag="c" + label, conc=True)
        conc_dis += [dict(x, label=label, cid=okcc[x["case"]][0]["id"]) for x in d if set(x["codes"]) & set(codes)]
    # ---- selection storms (C15 only; monitor only): many goroutines select over a stable set
    if 6 in codes:
        storms = [{"id": "storm%d" % i, "local": local_spec(), "storm": H("e"),
                   "ops": [A(1, "e"), A(2, "e"), A(3, "e")],
                   "threads": [[S("e")] * (12000 if quick else 60000) for _ in range(6)]} for i in range(2 if quick else 6)]
        souts, slog = run_conc(binary, wd, storms, tag="storm")
        if souts is None:
            conc_fail.append((storms[0], {"step": 0, "why": "selection storm aborted: " + ("; ".join(re.findall(r"(?m)^(?:fatal error:|panic:).*$", slog)[:3]) or slog[-400:]), "sig": "panic"}, "plain"))
        else:
            for c, o in zip(storms, souts):
                f = monitor_conc(pid, c, o)
                if f:
                    conc_fail.append((dict(c, threads=[[S("e")] * 50 for _ in range(6)]), f, "plain"))
                    break
    # ---- direct balancer mode (C15 only)
    bal_cases, bal_fail, bal_dis = [], [], []
    if 6 in codes:
        bal_cases = [dict(c) for c in BAL_CORPUS] + [gen_bal_case(rng, "b%d" % i) for i in range(600 if quick else 12000)]
        bouts = run_bal(binary, wd, bal_cases)
        for c, o in zip(bal_cases, bouts):
            f = monitor_bal(c, o)
            if f:
                bal_fail.append((c, f, o))
        okb = [(c, o) for c, o in zip(bal_cases, bouts) if not o.get("panic") and len(o["obs"]) == len(c["ops"])]
        bal_dis = correspondence(pid, wd, [c for c, _ in okb], [o for _, o in okb], shard=300, tag="b", conc="bal")
        bal_dis = [dict(x, cid=okb[x["case"]][0]["id"]) for x in bal_dis]
    t4 = time.time()

    # ---- verdicts
    seen = set()
    for c, f, o in bal_fail:
        if ("bal-" + f["sig"]) in seen:
            continue
        seen.add("bal-" + f["sig"])

        def failsb(cand, sig=f["sig"]):
            oo = run_bal(binary, wd, [cand], tag="shrink")[0]
            ff = monitor_bal(cand, oo)
            return ff is not None and ff["sig"] == sig
        small = shrink_case(c, failsb)
        oo = run_bal(binary, wd, [small], tag="shrink")[0]
        ff = monitor_bal(small, oo) or f
        violations.append({"what": "%s balancer monitor: %s (history of %d ops)" % (pid, ff["why"], len(small["ops"])), "found_input": True,
                           "replay_obj": {"property": pid, "kind": "monitor-balancer", "signature": f["sig"], "why": ff["why"], "step": ff["step"],
                                          "case": dict(small, mode="bal"), "observed": oo}})
    if bal_dis and not bal_fail and not mon_fail:
        d = bal_dis[0]
        c = [x for x in bal_cases if x["id"] == d["cid"]][0]
        violations.append({"what": "bare loadBalancer disagrees with the model at step %d of history %s (%d disagreeing histories), no failing input for the %s predicate found"
                                   % (d["step"], c["id"], len(bal_dis), pid), "found_input": False,
                           "replay_obj": {"broken": "corr:%s:upstream_h:balancer-direct" % pid, "disagreement": d, "case": dict(c, mode="bal", ops=c["ops"][: d["step"] + 1])}})
    for c, f in mon_fail:
        if f["sig"] in seen:
            continue
        seen.add(f["sig"])

        def fails(cand, sig=f["sig"]):
            oo = run_seq(binary, wd, [cand], tag="shrink")[0]
            ff = monitor(cand, oo)
            return ff is not None and ff["sig"] == sig
        small = shrink_case(c, fails)
        oo = run_seq(binary, wd, [small], tag="shrink")[0]
        ff = monitor(small, oo) or f
        violations.append({"what": "%s monitor: %s (history of %d ops)" % (pid, ff["why"], len(small["ops"])), "found_input": True,
                           "replay_obj": {"property": pid, "kind": "monitor", "signature": f["sig"], "why": ff["why"], "step": ff["step"],
                                          "case": small, "observed": oo}})
    for c, f, label in conc_fail:
        if ("conc-" + f["sig"]) in seen:
            continue
        seen.add("conc-" + f["sig"])
        violations.append({"what": "%s concurrent monitor (%s build): %s" % (pid, label, f["why"]), "found_input": True,
                           "replay_obj": {"property": pid, "kind": "monitor-concurrent", "signature": f["sig"], "why": f["why"], "build": label, "case": c}})
    probes = 0
    if dis and not mon_fail:
        d = dis[0]
        c, o = okc[d["case"]]
        # search harder: histories around the disagreeing one
        pcs = probe_variants(rng, c, d["step"])
        pouts = run_seq(binary, wd, pcs, tag="probe")
        probes = len(pcs)
        found = None
        for pc, po in zip(pcs, pouts):
            f = monitor(pc, po)
            if f:
                found = (pc, po, f)
                break
        if found:
            pc, po, f = found

            def fails2(cand, sig=f["sig"]):
                oo = run_seq(binary, wd, [cand], tag="shrink")[0]
                ff = monitor(cand, oo)
                return ff is not None and ff["sig"] == sig
            small = shrink_case(pc, fails2)
            oo = run_seq(binary, wd, [small], tag="shrink")[0]
            ff = monitor(small, oo) or f
            violations.append({"what": "%s monitor (found near a model/implementation disagreement): %s (history of %d ops)" % (pid, ff["why"], len(small["ops"])),
                               "found_input": True,
                               "replay_obj": {"property": pid, "kind": "monitor", "signature": f["sig"], "why": ff["why"], "step": ff["step"], "case": small, "observed": oo}})
        else:
            violations.append({"what": "model/implementation disagreement (%s) at step %d of history %s; %d disagreeing histories, no failing input for the %s predicate found"
                                       % (",".join(d["names"]), d["step"], c["id"], len(dis), pid), "found_input": False,
                               "replay_obj": {"broken": "corr:%s:upstream_h:%s" % (pid, "+".join(d["names"])), "disagreement": d,
                                              "case": dict(c, ops=c["ops"][: d["step"] + 1]), "observed": {"id": o["id"], "obs": o["obs"][: d["step"] + 1], "panic": o.get("panic", "")}}})
    if conc_dis and not conc_fail and not mon_fail and not dis:
        d = conc_dis[0]
        c = [x for x in ccases if x["id"] == d["cid"]][0]
        violations.append({"what": "quiescent state after a concurrent script differs from the model (%s), %s build" % (",".join(d["names"]), d["label"]),
                           "found_input": False, "replay_obj": {"broken": "corr:%s:upstream_h:concurrent" % pid, "disagreement": d, "case": c}})

    def nontrivial(c):
        ks = [o["op"] for o in c["ops"]]
        return "add" in ks and "remove" in ks and "select" in ks
    distinct = len({json.dumps(c["ops"]) for c in cases if nontrivial(c)})
    cov = {"evaluations": len(cases) + conc_hist + len(bal_cases), "distinct_nontrivial": distinct,
           "rule": "corpus first (D1 witness, go-away, cursor at end/middle, empty-and-back, near-miss names, twice-registered, unknown, remote branch), then random scripts: "
                   "6 upstreams over endpoints e/e1/E, connects 60% / disconnects 40% (a third duplicate, late or unknown), selection bursts with allow true/false, remote nodes "
                   "added/updated/removed; non-trivial = contains add, remove and select; distinct by op list. Concurrent scripts: 8 goroutines, each upstream owned by one goroutine "
                   "(connect once, then 0-3 disconnects) plus concurrent selects" + ("" if quick else ", also under the race detector"),
           "samples": [cases[0]["ops"], cases[-1]["ops"][:14], {"threads": ccases[1]["threads"][:2]}],
           "correspondence": {"harness": "upstream_h (real LoadBalancedManager + cluster.State + server/gossip syncer + pkg/gossip state), after every op: "
                                         "Endpoints(), LocalNode().Endpoints, all local gossip entries with versions, selection result, balancer slice + nextIndex",
                              "histories": len(okc), "ops": sum(len(c["ops"]) for c, _ in okc), "distribution": op_mix(cases + ccases),
                              "disagreements": len(dis) + len(conc_dis) + len(bal_dis), "disagreements_other_codes": len(dis_all) - len(dis),
                              "balancer_direct_histories": len(bal_cases), "balancer_direct_ops": sum(len(c["ops"]) for c in bal_cases),
                              "concurrent_histories": conc_hist, "concurrent_builds": [l for l, _ in conc_runs], "probes_near_disagreement": probes,
                              "codes_of_this_property": [CODE_NAMES[x] for x in codes], "seed": ctx["seed"]},
           "monitor": {"histories": len(cases) + conc_hist + len(bal_cases), "failures": len(mon_fail) + len(conc_fail) + len(bal_fail)},
           "timing_s": {"harness_seq": round(t2 - t1, 2), "monitor_and_coq_eval": round(t3 - t2, 2), "concurrent_and_balancer": round(t4 - t3, 2)}}
    return {"coverage": cov, "violations": violations, "known": known}


def replay_property(path, wd, pid, monitor):
    obj = json.load(open(path))
    case = obj["case"]
    binary = build_harness(PKG, dirs=HDIRS)
    if case.get("mode") == "bal":
        out = run_bal(binary, wd, [case], tag="replay")[0]
        print(json.dumps({"implementation": out, "monitor": monitor_bal(case, out)}, indent=1))
        if not out.get("panic") and len(out["obs"]) == len(case["ops"]):
            print("model disagreements:", correspondence(pid, wd, [case], [out], tag="replay", conc="bal"))
        return 0
    if case.get("threads"):
        outs, logtxt = run_conc(binary, wd, [case], tag="replay")
        if outs is None:
            print(logtxt)
            return 1
        print(json.dumps({"implementation": outs[0], "monitor": monitor_conc(pid, case, outs[0])}, indent=1))
        if outs[0].get("final"):
            print("model disagreements:", correspondence(pid, wd, [case], outs, tag="replay", conc=True))
        return 0
    out = run_seq(binary, wd, [case], tag="replay")[0]
    print(json.dumps({"implementation": out, "monitor": monitor(case, out)}, indent=1))
    if not out.get("panic") and len(out["obs"]) == len(case["ops"]):
        print("model disagreements:", correspondence(pid, wd, [case], [out], tag="replay"))
    return 0
