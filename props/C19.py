"""C19 - rebalancing sheds only when imbalanced and never faster than the shed rate."""
import concurrent.futures as cf
import json, math, os, random, re, struct, sys
from fractions import Fraction

sys.path.insert(0, os.path.dirname(os.path.dirname(os.path.abspath(__file__))))
from lib.common import *

ID = "C19"
COQ_TARGETS = ["Run/Run_Rebalance.vo"]
META = {
    "text": "Theorems (Properties/C19.v) over the Gallina model of Server.Rebalance / shedSessions / State.AvgConns / the `Threshold != 0` scheduling guard, with float64 modelled as Flocq binary64 (round to nearest even, NaN/Inf, int(f) truncation, math.Ceil): any guard (disabled, single node, no connection, below min_conns, balance < threshold) => nothing closed, for every configuration; anything closed => every guard passed, and with a finite positive threshold the node is strictly above the integer average with rounded relative excess >= threshold; node at or below a positive average => nothing closed; otherwise 1 <= closed <= open and closed <= max 1 (ceil (avg * rate)) with the REAL-number ceiling for every finite rate in [0,1] and every distribution of loads over active/unreachable/left nodes (zero and negative integer averages included); integer average 0 => exactly one connection closed per step; the average ignores non-active nodes and is the floor of total/active. The model is tied to server/upstream/server.go and server/cluster/state.go by running one real Rebalance() on a real upstream.Server with real yamux sessions and a real cluster.State for ~1500 generated configurations (floats passed as bit patterns) and evaluating the model on the same inputs inside Coq; the scheduling guard and the one-second loop of server/server.go are exercised on a real listener with real websocket+yamux upstream connections.",
    "note": "Trusted: Coq kernel+VM, Flocq's IEEE-754 formalisation and the standard-library real-number axioms it uses, the hand-written model, the Go harnesses and the trace->Coq translation. int(f) for values that do not fit int64 is implementation-defined in Go; the model follows amd64 (MinInt64) and the harness probes the machine. Non-finite Threshold/ShedRate pass Validate and are outside the hypotheses of the bound theorems (witness: Example C19_corner_cases).",
    "technique": "Coq proof over Flocq binary64 (monotonicity of rounding, Bmult/Bdiv/Bnearbyint/Btrunc correctness) + model/implementation correspondence by differential execution",
}
ASSUMPTIONS = [
    "counts are bounded: |integer average| < 2^53 (and open < 2^53 where the balance is analysed) so int -> float64 conversion is exact; Go int arithmetic on counts modelled unbounded",
    "Threshold finite and > 0 for C19_at_or_below_average / C19_shed_implies_imbalanced, ShedRate finite in [0,1] for C19_bounds: RebalanceConfig.Validate lets NaN (both) and +Inf (threshold) through and the flag parser accepts them; with Threshold = NaN a node below the average sheds one connection per second (Example C19_corner_cases), with ShedRate = NaN the shed count is not capped",
    "int(float64) outside the int64 range is implementation-defined in Go; modelled as on amd64 (CVTTSD2SQ -> MinInt64); only reachable with non-finite or absurd configuration values; probed on the running machine by the harness",
    "the number of open sessions does not change between openSessions() and shedSessions() of one Rebalance call (no concurrent connect/disconnect inside one step); one step = one call",
    "closing a yamux session (sess.Close) ends the upstream connection: library behaviour, exercised by the harness, not proved",
    "the local node is always present and active in cluster.State (NewState, and AddNode/RemoveNode/UpdateRemoteStatus refuse the local id), so AvgConns never divides by zero",
]
TRUSTED = [
    "Flocq 4.1.0 (IEEE754.BinarySingleNaN/Binary/Bits) as the definition of binary64 arithmetic",
    "standard-library real-number axioms reported by Print Assumptions: ClassicalDedekindReals.sig_forall_dec, ClassicalDedekindReals.sig_not_dec, Classical_Prop.classic, FunctionalExtensionality.functional_extensionality_dep",
    "python monitor (props/C19.py) computing the property's bounds with exact fractions as the independent oracle on the implementation's observed behaviour",
    "yamux / net.Pipe / gorilla websocket behaviour in the harness (session close is observed with Session.IsClosed)",
]
# exact names Print Assumptions reports for the C19 theorems (Coq's classical Dedekind reals, pulled in by Flocq)
ALLOWED_AXIOMS = [
    "ClassicalDedekindReals.sig_forall_dec",
    "ClassicalDedekindReals.sig_not_dec",
    "Classical_Prop.classic",
    "FunctionalExtensionality.functional_extensionality_dep",
]

TEST = "TestVerifHarness_Rebalance"
PKG = "server/upstream"
STATUS_CODE = {"active": 0, "unreachable": 1, "left": 2}
MIN_INT64 = -(1 << 63)


# ------------------------------------------------------------------ floats as bit patterns
def bits(x):
    return struct.unpack("<Q", struct.pack("<d", x))[0]


def unbits(b):
    return struct.unpack("<d", struct.pack("<Q", b))[0]


def go_int_of_uint(u):
    return u if u < (1 << 63) else u - (1 << 64)


def trunc_div(a, b):
    q = abs(a) // abs(b)
    return q if (a >= 0) == (b >= 0) else -q


def ceil_frac(fr):
    return -((-fr.numerator) // fr.denominator)


# ------------------------------------------------------------------ independent monitor
def expected_avg(case):
    total = sum(case["local"])
    n = 1
    for r in case["remotes"]:
        if r["status"] == "active":
            total += sum(r["endpoints"])
            n += 1
    return trunc_div(total, n), n, total


def monitor(case, o):
    """the property's own predicate on what the REAL code did, computed with exact fractions.
    returns None or {sig, why}"""
    if o.get("panic"):
        return {"sig": "panic", "why": "panic/timeout in Rebalance: " + o["panic"]}
    open_ = case["open"]
    k = o["closed"]
    if o["open"] != open_ or o["closed"] + o["left"] != open_:
        return {"sig": "harness", "why": "session bookkeeping of the harness inconsistent: %r" % (o,)}
    avg, nact, total = expected_avg(case)
    nodes = 1 + len(case["remotes"])
    if o["nodes"] != nodes:
        return {"sig": "nodes", "why": "cluster knows %d nodes, expected %d" % (o["nodes"], nodes)}
    if o["avg"] != avg:
        return {"sig": "avg", "why": "AvgConns = %d but total %d over %d ACTIVE nodes taken to whole connections is %d"
                                     % (o["avg"], total, nact, avg)}
    if k < 0 or k > open_:
        return {"sig": "more-than-open", "why": "closed %d of %d open sessions" % (k, open_)}
    thr, rate = unbits(case["thr"]), unbits(case["rate"])
    minc = go_int_of_uint(case["min_conns"])
    # guards: nothing may be closed
    if nodes <= 1 and k != 0:
        return {"sig": "guard-nodes", "why": "closed %d sessions although no other node is known" % k}
    if open_ < minc and k != 0:
        return {"sig": "guard-minconns", "why": "closed %d sessions with %d open < min_conns %d" % (k, open_, minc)}
    thr_ok = math.isfinite(thr) and thr > 0
    if thr_ok and avg > 0 and open_ <= avg and k != 0:
        return {"sig": "below-average", "why": "closed %d sessions although local %d <= average %d" % (k, open_, avg)}
    if thr_ok and avg > 0 and open_ > avg and thr >= 2.0 ** -1000:
        q = Fraction(open_ - avg, avg)
        # clearly below the threshold (more than one unit in the last place): must skip. Inside the last-place band
        # either outcome is accepted here; the model pins the exact binary64 decision (correspondence)
        if q < Fraction(thr) * (1 - Fraction(1, 2 ** 52)) and k != 0:
            return {"sig": "below-threshold", "why": "closed %d sessions although excess %s over average %d is below threshold %r"
                                                     % (k, q, avg, thr)}
    rate_ok = math.isfinite(rate) and 0 <= rate <= 1
    if rate_ok and abs(avg) < 2 ** 53:
        capv = max(1, ceil_frac(Fraction(avg) * Fraction(rate)))
        if k > capv:
            return {"sig": "over-rate", "why": "closed %d sessions, more than max(1, ceil(avg %d * rate %r)) = %d" % (k, avg, rate, capv)}
    return None


# ------------------------------------------------------------------ generator
THRS = [0.2, 0.2, 0.1, 0.05, 0.25, 0.3, 0.5, 0.75, 1.0, 1.5, 2.0, 0.01, 0.001, 0.7, 0.15, 0.4, 0.6]
RATES = [0.005, 0.01, 0.05, 0.1, 0.2, 0.25, 0.5, 1.0, 0.0, 0.3, 0.7, 0.02, 0.9, 0.15]
SPECIAL = [0.0, -0.0, float("inf"), float("-inf"), float("nan"), 5e-324, 2.2250738585072014e-308, 1e300, -1e300,
           -0.2, -1.0, 1.0000000000000002, 0.9999999999999999, 2.0 ** 53, 2.0 ** 63, 1e-17]


def near(rng, x):
    """a binary64 neighbour of x"""
    b = bits(x)
    return unbits(max(0, b + rng.choice([-2, -1, 1, 2])))


def gen_float(rng, table):
    r = rng.random()
    if r < 0.62:
        return bits(rng.choice(table))
    if r < 0.72:
        return bits(near(rng, rng.choice(table)))
    if r < 0.80:
        return bits(rng.choice(SPECIAL))
    if r < 0.88:
        return bits(round(rng.random() * rng.choice([0.1, 1, 1, 3]), rng.choice([2, 3, 4])))
    if r < 0.94:
        return bits(rng.random() * rng.choice([1, 1, 2]))
    return rng.getrandbits(64)


def gen_status(rng):
    return rng.choices(["active", "unreachable", "left", "", "bogus"], [60, 20, 15, 2, 3])[0]


def split_count(rng, n, parts):
    """split n >= 0 into `parts` non-negative endpoint counts"""
    if parts <= 0:
        return []
    cuts = sorted(rng.randint(0, n) for _ in range(parts - 1))
    out, prev = [], 0
    for c in cuts + [n]:
        out.append(c - prev)
        prev = c
    return out


def gen_load(rng):
    r = rng.random()
    if r < 0.35:
        return rng.randint(0, 8)
    if r < 0.8:
        return rng.randint(0, 60)
    return rng.randint(0, 200)


def gen_min_conns(rng, open_):
    r = rng.random()
    if r < 0.45:
        return rng.choice([0, 1, 1, 2])
    if r < 0.75:
        return max(0, open_ + rng.choice([-2, -1, 0, 0, 1, 1, 2]))
    if r < 0.93:
        return rng.choice([5, 10, 20, 50, 100])
    return rng.choice([(1 << 63) - 1, 1 << 63, (1 << 64) - 1, (1 << 63) + 5])


def gen_random_case(rng, cid):
    nrem = rng.choices([0, 1, 2, 3, 4, 5], [6, 30, 25, 18, 12, 9])[0]
    remotes = []
    for _ in range(nrem):
        load = gen_load(rng)
        eps = split_count(rng, load, rng.choice([0, 1, 1, 2, 3]))
        if rng.random() < 0.04 and eps:
            eps[rng.randrange(len(eps))] = -rng.randint(1, 30)      # hostile/buggy peer: Atoi accepts negatives
        remotes.append({"status": gen_status(rng), "endpoints": eps, "via": rng.choice(["add", "add", "update", "endpoint"])})
    lload = gen_load(rng)
    local = split_count(rng, lload, rng.choice([1, 1, 2, 3]))
    open_ = lload if rng.random() < 0.8 else gen_load(rng)
    return {"id": cid, "thr": gen_float(rng, THRS), "rate": gen_float(rng, RATES), "min_conns": gen_min_conns(rng, open_),
            "open": open_, "local": local, "remotes": remotes}


def gen_boundary_case(rng, cid):
    """local/average chosen ON the threshold: (local - avg)/avg equals the decimal the threshold constant was rounded from"""
    for _ in range(200):
        t = rng.choice([Fraction(1, 5), Fraction(1, 10), Fraction(1, 20), Fraction(1, 4), Fraction(3, 10), Fraction(1, 2),
                        Fraction(3, 4), Fraction(1), Fraction(3, 2), Fraction(2), Fraction(7, 10), Fraction(3, 20), Fraction(2, 5), Fraction(3, 5)])
        avg = t.denominator * rng.randint(1, max(1, 60 // t.denominator))
        local = avg + int(t * avg) + rng.choice([0, 0, 0, -1, 1])
        nact = rng.randint(1, 4)          # active remotes
        total = avg * (nact + 1) + rng.randint(0, nact)
        rest = total - local
        if rest < 0 or local > 200:
            continue
        loads = split_count(rng, rest, nact)
        remotes = [{"status": "active", "endpoints": split_count(rng, l, rng.choice([1, 1, 2])), "via": rng.choice(["add", "update", "endpoint"])}
                   for l in loads]
        for _ in range(rng.choice([0, 0, 1, 2])):
            remotes.insert(rng.randrange(len(remotes) + 1),
                           {"status": rng.choice(["unreachable", "left"]), "endpoints": [gen_load(rng)], "via": rng.choice(["add", "update"])})
        thr = float(t)
        if rng.random() < 0.25:
            thr = near(rng, thr)
        rate = rng.choice(RATES) if rng.random() < 0.8 else unbits(gen_float(rng, RATES))
        return {"id": cid, "thr": bits(thr), "rate": bits(rate), "min_conns": rng.choice([0, 1, 1, local, local + 1, max(0, local - 1)]),
                "open": local, "local": split_count(rng, local, rng.choice([1, 1, 2])), "remotes": remotes}
    return gen_random_case(rng, cid)


def gen_cap_case(rng, cid):
    """clearly imbalanced node, so that the cap ceil(avg * rate) decides; avg * rate on or next to an integer"""
    rate = rng.choice([0.1, 0.2, 0.25, 0.5, 0.05, 0.3, 0.7, 0.01, 1.0, 0.15, 0.9, 0.02])
    fr = Fraction(str(rate))
    avg = rng.choice([fr.denominator * rng.randint(1, max(1, 50 // fr.denominator)), rng.randint(1, 60)])
    if rng.random() < 0.2:
        rate = near(rng, rate)
    nact = rng.randint(1, 3)
    local = min(200, avg * rng.randint(2, nact + 1) + rng.randint(0, 5))
    total = avg * (nact + 1) + rng.randint(0, nact)
    rest = total - local
    if rest < 0:
        local = avg + rng.randint(1, max(1, avg))
        rest = total - local
    loads = split_count(rng, rest, nact)
    remotes = [{"status": "active", "endpoints": split_count(rng, l, rng.choice([1, 2])), "via": rng.choice(["add", "update", "endpoint"])}
               for l in loads]
    if rng.random() < 0.4:
        remotes.append({"status": rng.choice(["unreachable", "left"]), "endpoints": [rng.randint(0, 200)], "via": "update"})
    return {"id": cid, "thr": bits(rng.choice([0.05, 0.1, 0.2, 0.5])), "rate": bits(rate), "min_conns": rng.choice([0, 1, 5]),
            "open": local, "local": [local], "remotes": remotes}


def act(*eps, via="add"):
    return {"status": "active", "endpoints": list(eps), "via": via}


CORPUS = [
    # threshold 0.2, average 5, 6 local: binary64 does NOT skip (1/5 rounds to the constant 0.2), exact rationals would
    {"id": "corpus-boundary-0.2", "thr": bits(0.2), "rate": bits(0.5), "min_conns": 1, "open": 6, "local": [6], "remotes": [act(4)]},
    {"id": "corpus-boundary-0.2-below", "thr": bits(0.2), "rate": bits(0.5), "min_conns": 1, "open": 11, "local": [11], "remotes": [act(9)]},
    {"id": "corpus-boundary-0.3", "thr": bits(0.3), "rate": bits(0.5), "min_conns": 1, "open": 13, "local": [13], "remotes": [act(7)]},
    {"id": "corpus-boundary-1.0", "thr": bits(1.0), "rate": bits(0.25), "min_conns": 0, "open": 20, "local": [20], "remotes": [act(0), act(10)]},
    # inactive nodes must not count
    {"id": "corpus-inactive", "thr": bits(0.2), "rate": bits(0.05), "min_conns": 1, "open": 60, "local": [50, 10],
     "remotes": [act(2, 2), {"status": "unreachable", "endpoints": [400], "via": "update"}, {"status": "left", "endpoints": [7], "via": "add"}]},
    {"id": "corpus-inactive-2", "thr": bits(0.2), "rate": bits(0.5), "min_conns": 1, "open": 10, "local": [10],
     "remotes": [act(10), {"status": "unreachable", "endpoints": [0], "via": "update"}, {"status": "left", "endpoints": [0], "via": "update"}]},
    # a shed rate of 0 is a configuration, not "unset": ceil(0 x average) = 0, "at least one" makes it ONE connection per step,
    # however large the average (seeded change C19-7 replaced 0 by a default rate, which only differs above an average of 200)
    {"id": "corpus-rate0-large", "thr": bits(0.2), "rate": bits(0.0), "min_conns": 1, "open": 520, "local": [300, 220], "remotes": [act(300)]},
    {"id": "corpus-rate-small-large", "thr": bits(0.1), "rate": bits(0.005), "min_conns": 50, "open": 450, "local": [450], "remotes": [act(200), act(250)]},
    # integer average 0: exactly one closed
    {"id": "corpus-avg0", "thr": bits(0.2), "rate": bits(0.5), "min_conns": 1, "open": 1, "local": [1], "remotes": [act()]},
    {"id": "corpus-avg0-3", "thr": bits(2.0), "rate": bits(0.0), "min_conns": 0, "open": 3, "local": [3], "remotes": [act(), act(), act()]},
    # guards
    {"id": "corpus-single", "thr": bits(0.2), "rate": bits(0.5), "min_conns": 0, "open": 50, "local": [50], "remotes": []},
    {"id": "corpus-noconn", "thr": bits(0.2), "rate": bits(0.5), "min_conns": 0, "open": 0, "local": [], "remotes": [act(10)]},
    {"id": "corpus-minconns-eq", "thr": bits(0.2), "rate": bits(0.5), "min_conns": 30, "open": 30, "local": [30], "remotes": [act(2)]},
    {"id": "corpus-minconns-below", "thr": bits(0.2), "rate": bits(0.5), "min_conns": 31, "open": 30, "local": [30], "remotes": [act(2)]},
    {"id": "corpus-minconns-huge", "thr": bits(0.2), "rate": bits(0.5), "min_conns": (1 << 64) - 1, "open": 30, "local": [30], "remotes": [act(2)]},
    {"id": "corpus-at-average", "thr": bits(0.2), "rate": bits(0.5), "min_conns": 1, "open": 10, "local": [10], "remotes": [act(10), act(11)]},
    {"id": "corpus-below-average", "thr": bits(5e-324), "rate": bits(1.0), "min_conns": 1, "open": 3, "local": [3], "remotes": [act(100)]},
    # cap: ceil, not floor; at least one; rate 0 and rate 1
    {"id": "corpus-cap-2.5", "thr": bits(0.2), "rate": bits(0.5), "min_conns": 1, "open": 9, "local": [9], "remotes": [act(1)]},
    {"id": "corpus-cap-1.6", "thr": bits(0.2), "rate": bits(0.05), "min_conns": 1, "open": 60, "local": [60], "remotes": [act(4)]},
    {"id": "corpus-cap-rate0", "thr": bits(0.2), "rate": bits(0.0), "min_conns": 1, "open": 60, "local": [60], "remotes": [act(4)]},
    {"id": "corpus-cap-rate1", "thr": bits(0.2), "rate": bits(1.0), "min_conns": 1, "open": 60, "local": [60], "remotes": [act(4)]},
    {"id": "corpus-uncapped", "thr": bits(0.2), "rate": bits(1.0), "min_conns": 1, "open": 12, "local": [12], "remotes": [act(8)]},
    {"id": "corpus-cap-10x0.1", "thr": bits(0.2), "rate": bits(0.1), "min_conns": 1, "open": 18, "local": [18], "remotes": [act(2)]},
    # outside the hypotheses (model must still agree): NaN / Inf / negative values, sessions != advertised count
    {"id": "corpus-nan-thr", "thr": bits(float("nan")), "rate": bits(0.05), "min_conns": 1, "open": 3, "local": [3], "remotes": [act(61)]},
    {"id": "corpus-nan-rate", "thr": bits(0.2), "rate": bits(float("nan")), "min_conns": 1, "open": 30, "local": [30], "remotes": [act(2)]},
    {"id": "corpus-inf-rate", "thr": bits(0.2), "rate": bits(float("inf")), "min_conns": 1, "open": 3, "local": [0], "remotes": [act()]},
    {"id": "corpus-neg-rate", "thr": bits(0.2), "rate": bits(-1e300), "min_conns": 1, "open": 30, "local": [30], "remotes": [act(2)]},
    {"id": "corpus-inf-thr", "thr": bits(float("inf")), "rate": bits(0.5), "min_conns": 1, "open": 30, "local": [30], "remotes": [act(2)]},
    {"id": "corpus-zero-thr", "thr": bits(0.0), "rate": bits(0.5), "min_conns": 1, "open": 30, "local": [30], "remotes": [act(2)]},
    {"id": "corpus-neg-avg", "thr": bits(0.2), "rate": bits(0.5), "min_conns": 1, "open": 5, "local": [5], "remotes": [act(-30)]},
    {"id": "corpus-mismatch", "thr": bits(0.2), "rate": bits(0.5), "min_conns": 1, "open": 40, "local": [2], "remotes": [act(10)]},
]


def generate(rng, n):
    cases = [dict(c) for c in CORPUS]
    for c in cases:
        for r in c["remotes"]:
            r.setdefault("via", "add")
    i = 0
    while len(cases) < n:
        r = rng.random()
        if r < 0.22:
            cases.append(gen_boundary_case(rng, "b%d" % i))
        elif r < 0.40:
            cases.append(gen_cap_case(rng, "c%d" % i))
        else:
            cases.append(gen_random_case(rng, "r%d" % i))
        i += 1
    return cases


def neighbours(rng, case, n):
    """configurations around a case (same floats, other loads) for the targeted search after a disagreement"""
    out = []
    for i in range(n):
        c = json.loads(json.dumps(case))
        c["id"] = "%s~%d" % (case["id"], i)
        r = rng.random()
        if r < 0.5:
            base = gen_boundary_case(rng, c["id"]) if rng.random() < 0.5 else gen_cap_case(rng, c["id"])
            base["thr"], base["rate"] = case["thr"], case["rate"]
            if rng.random() < 0.5:
                base["min_conns"] = case["min_conns"]
            c = base
        elif r < 0.8:
            d = rng.randint(-6, 12)
            c["open"] = max(0, c["open"] + d)
            c["local"] = [max(0, sum(c["local"]) + d)]
        else:
            for rm in c["remotes"]:
                rm["status"] = gen_status(rng)
        out.append(c)
    return out


# ------------------------------------------------------------------ harness + correspondence
def run_cases(binary, wd, cases, tag="rb"):
    out, logtxt = run_harness(binary, {"cases": cases}, wd, tag=tag, test=TEST)
    if out is None:
        raise RuntimeError("harness run failed:\n" + logtxt)
    return out["cases"], out.get("platform", {})


def zlit(n):
    return "(%d)" % n if n < 0 else str(n)


def case_to_coq(c, o):
    rem = "; ".join("(%d%%nat, [%s])" % (STATUS_CODE.get(r["status"], 2), "; ".join(zlit(x) for x in r["endpoints"])) for r in c["remotes"])
    return "RC %d %d %d %d [%s] [%s] %s %s %s" % (c["thr"], c["rate"], c["min_conns"], o["open"], "; ".join(zlit(x) for x in c["local"]),
                                                 rem, zlit(o["nodes"]), zlit(o["avg"]), zlit(o["closed"]))


def cases_file(cases, outs):
    body = ["From Coq Require Import List ZArith Bool.",
            "From Piko Require Import Rebalance.Rebalance Run.Run_Rebalance.",
            "Import ListNotations. Open Scope Z_scope.",
            "Definition cases : list rcase := [",
            ";\n".join(case_to_coq(c, o) for c, o in zip(cases, outs)),
            "].",
            "Definition M := Eval vm_compute in mismatches cases.",
            "Print M."]
    return "\n".join(body) + "\n"


CODE_NAMES = {1: "known-nodes", 2: "average", 3: "sessions-closed"}


def parse_mismatches(out):
    m = re.search(r"M\s*=\s*(.*?)\s*:\s*list", out, flags=re.S)
    if not m:
        return None
    txt = m.group(1).replace("%nat", "").replace("%Z", "").strip()
    if txt == "[]":
        return []
    res = []
    for mm in re.finditer(r"\(\s*(\d+)\s*,\s*\[([^\]]*)\]\s*,\s*\(?\s*(-?\s*\d+)\s*\)?\s*\)", txt):
        res.append((int(mm.group(1)), [int(x) for x in re.findall(r"\d+", mm.group(2))], int(mm.group(3).replace(" ", ""))))
    return res


def correspondence(wd, cases, outs, shard=400, tag="rb"):
    """evaluate the model on the same configurations inside Coq; returns [{case, codes, names, model_closed}]"""
    jobs = [(si, cases[si:si + shard], outs[si:si + shard]) for si in range(0, len(cases), shard)]

    def work(job):
        si, cc, oo = job
        rc, out = coq_eval(wd, "Cases_%s_%s_%d" % (ID, tag, si), cases_file(cc, oo))
        mm = parse_mismatches(out)
        if rc != 0 or mm is None:
            raise RuntimeError("coq evaluation of cases failed:\n" + out[-3000:])
        return [(si + i, codes, k) for (i, codes, k) in mm]

    dis = []
    with cf.ThreadPoolExecutor(max_workers=8) as ex:
        for r in ex.map(work, jobs):
            for (i, codes, k) in r:
                dis.append({"case": i, "codes": codes, "names": [CODE_NAMES.get(x, str(x)) for x in codes], "model_closed": k})
    return dis


# ------------------------------------------------------------------ shrinking
def shrink_case(case, fails, max_tries=120):
    """greedy simplification of one configuration; `fails(c)` re-runs the compiled harness"""
    cur = json.loads(json.dumps(case))
    tries = 0
    changed = True
    while changed and tries < max_tries:
        changed = False
        cands = []
        for i in range(len(cur["remotes"])):
            c = json.loads(json.dumps(cur))
            del c["remotes"][i]
            cands.append(c)
        for i, r in enumerate(cur["remotes"]):
            if len(r["endpoints"]) > 1:
                c = json.loads(json.dumps(cur))
                c["remotes"][i]["endpoints"] = [sum(r["endpoints"])]
                cands.append(c)
            if r.get("via") != "add":
                c = json.loads(json.dumps(cur))
                c["remotes"][i]["via"] = "add"
                cands.append(c)
        if len(cur["local"]) > 1:
            c = json.loads(json.dumps(cur))
            c["local"] = [sum(cur["local"])]
            cands.append(c)
        if cur["min_conns"] not in (0, 1):
            for v in (1, 0):
                c = json.loads(json.dumps(cur))
                c["min_conns"] = v
                cands.append(c)
        for fld, nice in (("thr", [0.2, 0.5, 1.0]), ("rate", [0.5, 0.05, 1.0])):
            if cur[fld] not in [bits(x) for x in nice]:
                for x in nice:
                    c = json.loads(json.dumps(cur))
                    c[fld] = bits(x)
                    cands.append(c)
        if sum(cur["local"]) != cur["open"]:
            c = json.loads(json.dumps(cur))
            c["local"] = [cur["open"]]
            cands.append(c)
        # scale all loads down
        for f in (2, 3):
            if cur["open"] >= f:
                c = json.loads(json.dumps(cur))
                c["open"] //= f
                c["local"] = [x // f for x in c["local"]]
                for r in c["remotes"]:
                    r["endpoints"] = [trunc_div(x, f) for x in r["endpoints"]]
                cands.append(c)
        for c in cands:
            tries += 1
            if tries > max_tries:
                break
            if fails(c):
                cur = c
                changed = True
                break
    return cur


def platform_notes(platform):
    notes = []
    if not platform:
        return notes
    vals = [platform.get(k) for k in ("int_pos_inf", "int_neg_inf", "int_nan", "int_huge", "int_nhuge", "int_2p63")]
    if platform.get("int_size") != 64 or any(v != MIN_INT64 for v in vals):
        notes.append("platform differs from the modelled one: int(f) for out-of-range f gives %r on %s (model: MinInt64, 64-bit int); "
                     "disagreements confined to non-finite configuration values are expected here" % (vals, platform.get("goarch")))
    return notes


def describe(case):
    avg, nact, total = expected_avg(case)
    return "threshold=%r rate=%r min_conns=%d open=%d avg=%d (total %d over %d active of %d nodes)" % (
        unbits(case["thr"]), unbits(case["rate"]), case["min_conns"], case["open"], avg, total, nact, 1 + len(case["remotes"]))


def classify(case):
    """which branch of the property a configuration exercises (for the distribution in the evidence)"""
    avg, _, _ = expected_avg(case)
    thr = unbits(case["thr"])
    if 1 + len(case["remotes"]) <= 1:
        return "guard:single-node"
    if case["open"] == 0:
        return "guard:no-connection"
    if case["open"] < go_int_of_uint(case["min_conns"]):
        return "guard:min-conns"
    if not (math.isfinite(thr) and math.isfinite(unbits(case["rate"]))):
        return "non-finite-config"
    if avg == 0:
        return "average-zero"
    if avg < 0:
        return "average-negative"
    if case["open"] <= avg:
        return "at-or-below-average"
    q = Fraction(case["open"] - avg, avg)
    t = Fraction(thr)
    if t > 0 and abs(q - t) <= t * Fraction(1, 2 ** 50):
        return "on-threshold"
    return "below-threshold" if q < t else "above-threshold"


def run_sched_part(ctx, known_sigs):
    from props import C19_sched
    try:
        return C19_sched.run_sched(ctx, known_sigs)
    except BuildError as e:
        return {"violations": [{"what": "harness-build: harness/rebalance_sched no longer compiles against package server: " + str(e)[-800:],
                                "found_input": False, "replay_obj": {"broken": "corr:C19:sched:harness-build", "kind": "sched-build", "log": str(e)[-4000:]}}],
                "known": [], "coverage": {"explanation": "scheduling harness did not build"}}


def run(ctx):
    rng = random.Random(ctx["seed"])
    wd = ctx["wd"]
    n = 1500 if ctx["tier"] == "quick" else 30000
    cases = generate(rng, n)
    known_sigs = {k["sig"]: k for k in known_findings() if k["property"] == ID and k["kind"] == "known" and k["sig"]}
    # (c) the scheduling guard and the one-second loop (server/server.go) on a real listener: runs beside (a) and (b)
    sched_pool = cf.ThreadPoolExecutor(max_workers=1)
    sched_future = sched_pool.submit(run_sched_part, ctx, known_sigs)
    binary = build_harness(PKG, dirs=["rebalance"])
    outs, platform = run_cases(binary, wd, cases)
    known_sigs = {k["sig"]: k for k in known_findings() if k["property"] == ID and k["kind"] == "known" and k["sig"]}
    violations, known = [], []
    assumptions = platform_notes(platform)

    # (a) independent monitor on the implementation
    mon_fail = []
    for c, o in zip(cases, outs):
        f = monitor(c, o)
        if f:
            mon_fail.append((c, o, f))
    # (b) correspondence model vs implementation (configurations that ran to completion)
    okc = [(c, o) for c, o in zip(cases, outs) if not o.get("panic")]
    if assumptions:
        # int(f) of this machine differs from the modelled amd64 behaviour: configurations that can reach an out-of-range
        # conversion (non-finite or absurdly large threshold/rate) are not compared with the model
        def tame(c):
            return all(math.isfinite(unbits(c[k])) and abs(unbits(c[k])) < 2.0 ** 53 for k in ("thr", "rate"))
        okc = [(c, o) for c, o in okc if tame(c)]
    dis = correspondence(wd, [c for c, _ in okc], [o for _, o in okc])

    extra_cases = 0
    if dis and not mon_fail:
        # targeted search: more configurations around the disagreeing ones, judged by the monitor
        srng = random.Random(ctx["seed"] + 1)
        more = []
        for d in dis[:6]:
            more += neighbours(srng, okc[d["case"]][0], 150)
        more += generate(srng, 600)[len(CORPUS):]
        mouts, _ = run_cases(binary, wd, more, tag="search")
        extra_cases = len(more)
        for c, o in zip(more, mouts):
            f = monitor(c, o)
            if f:
                mon_fail.append((c, o, f))

    seen = set()
    for c, o, f in mon_fail:
        if f["sig"] in seen:
            continue
        seen.add(f["sig"])

        def fails(cand, sig=f["sig"]):
            oo = run_cases(binary, wd, [cand], tag="shrink")[0][0]
            ff = monitor(cand, oo)
            return ff is not None and ff["sig"] == sig
        small = shrink_case(c, fails)
        oo = run_cases(binary, wd, [small], tag="shrink")[0][0]
        ff = monitor(small, oo) or f
        what = "C19 monitor: %s [%s]" % (ff["why"], describe(small))
        if f["sig"] in known_sigs:
            known.append("sig=%s %s" % (f["sig"], what))
            continue
        violations.append({"what": what, "found_input": True,
                           "replay_obj": {"property": ID, "kind": "monitor", "signature": f["sig"], "why": ff["why"],
                                          "case": small, "floats": {"threshold": repr(unbits(small["thr"])), "rate": repr(unbits(small["rate"]))},
                                          "observed": oo, "original_case": c}})
    if dis and not violations and not known:
        d = dis[0]
        c, o = okc[d["case"]]
        violations.append({"what": "model/implementation disagreement on %s for configuration %s [%s]: real code closed %d, model closes %d; "
                                   "no configuration failing the monitor found among %d + %d"
                                   % (",".join(d["names"]), c["id"], describe(c), o["closed"], d["model_closed"], len(cases), extra_cases),
                           "found_input": False,
                           "replay_obj": {"broken": "corr:C19:rebalance:" + "+".join(d["names"]), "disagreement": d, "disagreements": len(dis),
                                          "case": c, "floats": {"threshold": repr(unbits(c["thr"])), "rate": repr(unbits(c["rate"]))},
                                          "observed": o}})

    sres = sched_future.result()
    sched_pool.shutdown()
    violations += sres["violations"]
    known += sres["known"]
    sched_cov = sres["coverage"]

    dist = {}
    for c in cases:
        k = classify(c)
        dist[k] = dist.get(k, 0) + 1
    shed = sum(1 for o in outs if o.get("closed", 0) > 0)
    nontriv = len({json.dumps([c["thr"], c["rate"], c["min_conns"], c["open"], c["local"], c["remotes"]], sort_keys=True)
                   for c, o in zip(cases, outs) if len(c["remotes"]) >= 1 and c["open"] > 0})
    cov = {"evaluations": len(cases) + extra_cases, "distinct_nontrivial": nontriv,
           "rule": "one real Server.Rebalance() per generated configuration (corpus first; thresholds/rates from round decimals, their binary64 "
                   "neighbours, special values and random bit patterns; loads 0..200 over 1..6 nodes with statuses; 22% configurations ON the "
                   "threshold boundary, 18% on the cap); non-trivial = other nodes known and at least one session; distinct by full configuration",
           "samples": [cases[0], cases[len(CORPUS)], cases[len(cases) // 2]],
           "correspondence": {"harness": "harness/rebalance (real upstream.Server + cluster.State + yamux sessions over net.Pipe)",
                              "histories": len(okc), "ops": len(okc), "distribution": dist, "configurations_that_shed": shed,
                              "sessions_registered": sum(c["open"] for c in cases), "disagreements": len(dis), "seed": ctx["seed"]},
           "monitor": {"histories": len(cases) + extra_cases, "failures": len(mon_fail)},
           "platform": platform, "scheduling": sched_cov}
    return {"coverage": cov, "violations": violations, "known": known, "assumptions": assumptions}


def replay(path, wd):
    obj = json.load(open(path))
    if obj.get("kind") == "sched" or str(obj.get("broken", "")).startswith("corr:C19:sched"):
        from props import C19_sched
        return C19_sched.replay_sched(obj, wd)
    case = obj["case"]
    binary = build_harness(PKG, dirs=["rebalance"])
    outs, platform = run_cases(binary, wd, [case], tag="replay")
    print(json.dumps({"configuration": describe(case), "implementation": outs[0], "monitor": monitor(case, outs[0]), "platform": platform}, indent=1))
    if not outs[0].get("panic"):
        dis = correspondence(wd, [case], outs, tag="replay")
        print("model disagreements:", dis if dis else "none (model closes %d as well)" % outs[0]["closed"])
    return 0
