"""Who a node talks to: the REAL Gossip.gossipRound (peer selection) and the REAL Gossip.Leave (departure announcement)
against the model Gossip/Round.v (harness/gossip/leaveprobe_test.go; peers listen on real loopback stream ports).

Monitors (independent of the model, from the property texts):
 * C03/C11 rounds: over the rounds of one history every peer that is neither left nor unreachable is contacted, and so is
   every unreachable peer (a recovered node must be heard from again; two healthy nodes that suspect each other must find each
   other again); the node itself, strangers and departed peers that are not marked unreachable are never contacted; a round
   sends at most one digest to a live and one to an unreachable peer;
 * C18 leave: every peer that holds the leaver as left afterwards was a live candidate; when at most four live candidates
   accept the stream all of them are told, otherwise exactly four; Leave reports an error only when nobody was told; a
   departed or suspected peer and a peer behind a closed port are never told; Leave terminates.
Correspondence: Run/Run_Round.v evaluates round_legal / leave_legal on the membership the real node held."""
import json, random, re

from lib.common import *

CODE_NAMES = {1: "round-destinations", 2: "leave-told-set"}


def gen_cases(rng, n, want):
    cs = []
    if "leave" in want:
        cs += [{"id": "corpus-six-live", "n": 6, "left": [], "unreach": [], "closed": [], "rounds": 0, "leave": True},
               {"id": "corpus-all-closed", "n": 3, "left": [], "unreach": [], "closed": [1, 2, 3], "rounds": 0, "leave": True},
               {"id": "corpus-mixed", "n": 6, "left": [2], "unreach": [3], "closed": [4], "rounds": 0, "leave": True},
               {"id": "corpus-five-one-closed", "n": 5, "left": [], "unreach": [], "closed": [2], "rounds": 0, "leave": True},
               {"id": "corpus-alone", "n": 0, "left": [], "unreach": [], "closed": [], "rounds": 0, "leave": True},
               {"id": "corpus-only-departed", "n": 2, "left": [1, 2], "unreach": [], "closed": [], "rounds": 0, "leave": True}]
    if "round" in want:
        cs += [{"id": "corpus-round-mixed", "n": 5, "left": [2], "unreach": [3, 4], "closed": [], "rounds": 150, "leave": False},
               {"id": "corpus-round-all-suspected", "n": 3, "left": [], "unreach": [1, 2, 3], "closed": [], "rounds": 120, "leave": False},
               {"id": "corpus-round-left-and-suspected", "n": 4, "left": [1, 2], "unreach": [2, 3], "closed": [], "rounds": 120, "leave": False},
               {"id": "corpus-round-single", "n": 1, "left": [], "unreach": [], "closed": [], "rounds": 20, "leave": False}]
    for i in range(n):
        k = rng.randint(0, 8)
        peers = list(range(1, k + 1))
        c = {"id": "p%d" % i, "n": k,
             "left": [p for p in peers if rng.random() < 0.2],
             "unreach": [p for p in peers if rng.random() < 0.25],
             "closed": [p for p in peers if rng.random() < 0.25],
             "rounds": (40 * max(1, k)) if "round" in want else 0,
             "leave": "leave" in want}
        cs.append(c)
    return cs


def monitor(c, o):
    """only what the property texts demand; everything else the real code does with the membership (never contacting a
    departed peer, one digest per class and round, exactly four notifications, the error verdict of Leave) is compared with
    the model, not judged here"""
    if o.get("panic"):
        return {"sig": "probe-panic", "why": "membership probe failed: " + o["panic"]}
    me = o["local"]
    ms = {m["id"]: m for m in o["members"]}
    peers = {i: m for i, m in ms.items() if i != me}
    by_addr = {m["addr"]: m for m in peers.values()}
    desc = ", ".join("%s:%s" % (j, "left" if x["left"] else ("unreachable" if x["unreach"] else "live")) for j, x in sorted(peers.items()))
    # ---- rounds (C03: live nodes keep exchanging gossip; C11: an unreachable node is restored if it is heard from again)
    counts = {}
    for r in o["rounds"]:
        for d in r:
            m = by_addr.get(d)
            if m is not None:
                counts[m["id"]] = counts.get(m["id"], 0) + 1
    if o["rounds"]:
        for i, m in sorted(peers.items()):
            if m["left"]:
                continue
            if counts.get(i, 0) == 0:
                kind = "unreachable" if m["unreach"] else "live"
                return {"sig": "round-never-" + kind, "why": "%d gossip rounds never contacted the %s peer %s (peers: %s)" % (len(o["rounds"]), kind, i, desc)}
    # ---- leave (C18: a departing node announces its departure to live peers)
    if c["leave"]:
        closed = {"node-%d" % p for p in c["closed"]}
        ackc = {i for i, m in peers.items() if not m["left"] and not m["unreach"]} - closed
        if ackc and not (set(o["told"]) & ackc):
            return {"sig": "leave-told-nobody", "why": "%d live peers accept the leave stream (%s) but the departing node told none of them (told: %r, error: %r; peers: %s)"
                    % (len(ackc), ", ".join(sorted(ackc)), o["told"], o["err"], desc)}
    return None


def coq_case(c, o, what):
    ms = coq_list(['(%s, %s, %s, %s)' % (coq_str(hx(m["id"])), coq_str(hx(m["addr"])), coq_bool(m["unreach"]), coq_bool(m["left"])) for m in o["members"]])
    if what == "round":
        return "RRound %s %s %s" % (coq_str(hx(o["local"])), ms, coq_list([coq_list([coq_str(hx(d)) for d in r]) for r in o["rounds"]]))
    return "RLeave %s %s %s %s %s" % (coq_str(hx(o["local"])), ms, coq_list([coq_str(hx("node-%d" % p)) for p in c["closed"]]),
                                     coq_list([coq_str(hx(t)) for t in o["told"]]), coq_bool(bool(o["err"])))


def cases_file(items):
    return "\n".join(["From Coq Require Import List String NArith Bool.",
                      "From Piko Require Import Base.Maps Base.Strs Gossip.Types Gossip.Apply Gossip.Round Run.Run_Round.",
                      "Import ListNotations. Open Scope string_scope. Open Scope list_scope.",
                      "Definition cases : list rcase := [", ";\n".join(items), "].",
                      "Definition M := Eval vm_compute in mismatches cases.", "Print M."]) + "\n"


def parse_mismatches(out):
    m = re.search(r"M\s*=\s*(.*?)\s*:\s*list", out, flags=re.S)
    if not m:
        return None
    txt = m.group(1).strip()
    if txt == "[]":
        return []
    return [(int(a), [int(x) for x in re.findall(r"\d+", b)]) for a, b in re.findall(r"\(\s*(\d+)\s*,\s*\[([^\]]*)\]\s*\)", txt.replace("%nat", ""))]


def run(ctx, pid, want):
    """want: subset of {"round", "leave"} -> (coverage, violations)"""
    rng = random.Random(ctx["seed"] * 13 + sum(map(ord, pid)))
    wd = ctx["wd"]
    quick = ctx["tier"] == "quick"
    binary = build_harness("pkg/gossip", dirs=["gossip"])
    cases = gen_cases(rng, 14 if quick else 200, want)
    outs, lg = run_harness(binary, cases, wd, tag="members", test="TestVerifHarness_LeaveProbe", timeout=900)
    if outs is None:
        raise RuntimeError("membership probe harness failed:\n" + lg)
    fails = []
    for c, o in zip(cases, outs):
        f = monitor(c, o)
        if f:
            fails.append((c, o, f))
    items, owner = [], []
    for c, o in zip(cases, outs):
        if o.get("panic"):
            continue
        if o["rounds"]:
            items.append(coq_case(c, o, "round")); owner.append((c, o, "round"))
        if c["leave"]:
            items.append(coq_case(c, o, "leave")); owner.append((c, o, "leave"))
    dis = []
    if items:
        rc, out = coq_eval(wd, "Cases_members_%s" % pid, cases_file(items))
        mm = parse_mismatches(out)
        if rc != 0 or mm is None:
            raise RuntimeError("coq evaluation of membership cases failed:\n" + out[-3000:])
        for k, codes in mm:
            c, o, what = owner[k]
            dis.append({"what": what, "case": c, "observed": o, "codes": codes, "names": [CODE_NAMES.get(x, str(x)) for x in codes]})
    cov = {"harness": "gossip/leaveprobe (real Gossip.gossipRound and Gossip.Leave, peers on real loopback stream ports)",
           "histories": len(cases), "rounds": sum(len(o["rounds"]) for o in outs), "leaves": sum(1 for c in cases if c["leave"]),
           "peers": {str(k): sum(1 for c in cases if c["n"] == k) for k in sorted({c["n"] for c in cases})},
           "told_sizes": {str(k): sum(1 for c, o in zip(cases, outs) if c["leave"] and len(o["told"]) == k) for k in range(0, 5)},
           "leave_errors": sum(1 for o in outs if o["err"]), "leave_ms_max": max([o["leave_ms"] for o in outs] or [0]),
           "coq_cases": len(items), "disagreements": len(dis), "monitor_failures": len(fails)}
    violations = []
    if fails:
        c, o, f = fails[0]
        violations.append({"what": "%s membership probe [%s]: %s (case %s)" % (pid, f["sig"], f["why"], json.dumps(c)), "found_input": True,
                           "replay_obj": {"property": pid, "kind": "members", "signature": f["sig"], "why": f["why"], "case": c, "observed": o}})
    elif dis:
        d = dis[0]
        violations.append({"what": "model/implementation disagreement (%s) on the membership case %s; no monitor failure found" % (",".join(d["names"]), json.dumps(d["case"])),
                           "found_input": False, "replay_obj": {"broken": "corr:%s:members:%s" % (pid, "+".join(d["names"])), "disagreement": d}})
    return cov, violations


def replay(obj, wd):
    c = obj["case"]
    binary = build_harness("pkg/gossip", dirs=["gossip"])
    outs, lg = run_harness(binary, [c], wd, tag="replay", test="TestVerifHarness_LeaveProbe")
    o = outs[0]
    print(json.dumps({"case": c, "implementation": o, "monitor": monitor(c, o)}, indent=1)[:6000])
    items = ([coq_case(c, o, "round")] if o["rounds"] else []) + ([coq_case(c, o, "leave")] if c["leave"] else [])
    rc, out = coq_eval(wd, "Cases_members_replay", cases_file(items))
    print("model disagreements:", parse_mismatches(out))
    return 0
