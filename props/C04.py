"""C04 - the routing table mirrors what each node advertises."""
import random
from props.syncer_common import *
from props.C02 import Tracker, ekey

ID = "C04"
COQ_TARGETS = ["Run/Run_Syncer.vo"]
META = {
    "text": "Theorems (Properties/C04.v) over the Gallina model of server/gossip/syncer.go + server/cluster/state.go: C04_fold - for every well-formed sequence of watcher events the routing state stays in relation with the watcher's own fold (every known node is promoted with the announced addresses, status = flags, endpoints = parsed visible endpoint: entries, or pending, or dropped-after-leave); C04_caught_up - composing this with C14 (fold = visible gossip state) and C02_world_caught_up (caught up => the owner's exact entries), a caught-up observer's routing entry has the owner's addresses and exactly the owner's current live endpoint counts, withdrawn endpoints gone; C04_lookup_sound/complete - LookupEndpoint returns exactly the active remote nodes advertising a positive count. The same statements are checked on every step of generated histories by an independent monitor against the REAL syncer + cluster.State stacked on the REAL gossip state, and model and implementation are compared field by field (routing table, pending nodes, lookup results) after every op.",
    "note": "With expiry of a remote node in the history the caught-up statement can fail on the real code (finding F3, KNOWN_FINDINGS.txt). Trusted: as C02.",
    "technique": "Coq proof over the syncer/routing-table model + per-step monitor and model/implementation correspondence on the real syncer stacked on the real gossip state",
}
ASSUMPTIONS = ["histories without expiry of a remote node for the caught-up clause (with expiry: known finding F3)",
               "a node's proxy/admin address never changes (cluster.Node documents them immutable)"]
TRUSTED = ["python monitor (props/C04.py) comparing the real routing tables with the owners' real advertised state at caught-up points"]


def status_of(view):
    if view.get("left"):
        return "left"
    if view.get("unreach"):
        return "unreachable"
    return "active"


def monitor(case, out):
    if out.get("panic"):
        return {"step": len(out.get("obs") or []), "why": "panic/timeout: " + out["panic"], "sig": "panic"}
    tr = Tracker(case)
    ids = tr.ids
    dumps = {}
    synced = set()
    addr = {ids[i]: (H("10.1.0.%d:8000" % (i + 1)), H("10.1.0.%d:8001" % (i + 1))) for i in range(len(ids))}
    for i, (op, ob) in enumerate(zip(case["ops"], out["obs"])):
        tr.update(ob)
        if op["op"] == "sync":
            synced.add(ids[op["n"] % len(ids)])
        for idx, d in (((ob.get("extra") or {}).get("hook")) or {}).items():
            dumps[int(idx)] = d
            # lookup soundness / completeness on the dump itself
            me = ids[int(idx)]
            for ep, got in d["lookup"].items():
                cands = [n["id"] for n in d["nodes"] if n["id"] != me and n["status"] == "active" and n["endpoints"].get(ep, 0) > 0]
                if got == "" and cands:
                    return {"step": i, "why": "lookup of %s found nothing although %r qualify" % (ep, cands), "sig": "lookup"}
                if got != "" and got not in cands:
                    return {"step": i, "why": "lookup of %s returned %s which is not an active remote node advertising it" % (ep, got), "sig": "lookup"}
        for o in range(len(ids)):
            if o not in dumps:
                continue
            for x in ids:
                if x == ids[o] or x not in synced:
                    continue
                V = tr.views.get((o, x))
                O = tr.own(x)
                if V is None or V["ver"] != O["ver"]:
                    continue
                xi = ids.index(x)
                if xi not in dumps:
                    continue
                adv = [n for n in dumps[xi]["nodes"] if n["id"] == x][0]
                mine = [n for n in dumps[o]["nodes"] if n["id"] == x]
                # finding F3 is a hole in the GOSSIP view (same version, other entries) of an observer that expired the node; a
                # routing table that does not mirror a correct gossip view is something else, expiry or not
                hole = sorted(map(ekey, V["entries"])) != sorted(map(ekey, O["entries"]))
                sig = "F3-expiry-hole" if (o, x) in tr.expired_before and hole else "caught-up"
                if not mine:
                    return {"step": i, "why": "%s has caught up with %s (version %d) but its routing table does not list it" % (ids[o], x, V["ver"]), "sig": sig}
                m = mine[0]
                if (m["proxy"], m["admin"]) != addr[x]:
                    return {"step": i, "why": "caught up but addresses differ", "sig": sig}
                if m["endpoints"] != adv["endpoints"]:
                    return {"step": i, "why": "%s has caught up with %s but lists endpoints %r instead of the advertised %r" % (ids[o], x, m["endpoints"], adv["endpoints"]), "sig": sig}
                if m["status"] != status_of(V):
                    return {"step": i, "why": "routing status %s does not mirror the membership flags (%s)" % (m["status"], status_of(V)), "sig": "status"}
    return None


def f3_witness():
    from props.C02 import f3_witness as g
    c = g()
    ops = [{"op": "sync", "n": 0}, {"op": "sync", "n": 1}, {"op": "addep", "n": 1, "e": H("e")}] + \
          [op for op in c["ops"] if not (op["op"] == "upsert" and op["k"] in (H("k1"), H("k2"), H("k3")))]
    return {"id": "corpus-f3", "nodes": c["nodes"], "ops": ops, "lookups": LOOKUPS}


def rediscover_witness():
    """b learns x, suspects it, forgets it (expiry); x withdraws e, compacts, adds f; b learns x again: its routing table
    must show the x of now (seeded change C04-6: bookkeeping of promoted nodes not cleared)"""
    nodes = [{"id": H("b"), "addr": H("10.0.0.1:7000")}, {"id": H("x"), "addr": H("10.0.0.2:7000")}]
    ops = [{"op": "sync", "n": 0}, {"op": "sync", "n": 1}, {"op": "addep", "n": 1, "e": H("e")}, {"op": "join", "a": 1, "b": 0},
           {"op": "liveness", "n": 0, "levels": {H("x"): 30.0}}, {"op": "expire", "n": 0, "ref": H("x"), "d": 1},
           {"op": "rmep", "n": 1, "e": H("e")}, {"op": "compact", "n": 1, "th": 1}, {"op": "addep", "n": 1, "e": H("f")},
           {"op": "join", "a": 1, "b": 0}, {"op": "liveness", "n": 0, "levels": {}}]
    return {"id": "corpus-rediscover", "nodes": nodes, "ops": ops, "lookups": LOOKUPS}


CORPUS = [f3_witness(), rediscover_witness()]


def run(ctx):
    rng = random.Random(ctx["seed"])
    quick = ctx["tier"] == "quick"
    wd = ctx["wd"]
    n = 120 if quick else 3000
    cases = list(CORPUS) + [gen_sync_case(rng, "s%d" % i, PROFILE_SYNC, expire=(i % 5 == 4)) for i in range(n)]
    binary = build_harness("server/gossip", dirs=["syncer"])
    outs = run_sync_world(binary, wd, cases)
    kf = {k["sig"]: k for k in known_findings() if k["property"] == ID and k["kind"] == "known"}
    violations, known = [], []
    mon = [(c, f) for c, o in zip(cases, outs) for f in [monitor(c, o)] if f]
    okc = [(c, o) for c, o in zip(cases, outs) if not o.get("panic")]
    dis = scorrespondence(ID, wd, [c for c, _ in okc], [o for _, o in okc])
    seen = set()
    for c, f in mon:
        if f["sig"] in seen:
            continue
        seen.add(f["sig"])
        if f["sig"] in kf:
            known.append("sig=%s %s [history %s, step %d: %s]" % (f["sig"], kf[f["sig"]]["text"], c["id"], f["step"], f["why"]))
            continue

        def fails(cand, sig=f["sig"]):
            oo = run_sync_world(binary, wd, [cand], tag="shrink")[0]
            ff = monitor(cand, oo)
            return ff is not None and ff["sig"] == sig
        small = shrink_case(c, fails)
        violations.append({"what": "C04 monitor: %s (history of %d ops)" % (f["why"], len(small["ops"])), "found_input": True,
                           "replay_obj": {"property": ID, "kind": "monitor", "signature": f["sig"], "why": f["why"], "case": small,
                                          "observed": run_sync_world(binary, wd, [small], tag="shrink")[0]}})
    if "F3-expiry-hole" in kf and "F3-expiry-hole" not in seen:
        violations.append({"what": "the F3 witness no longer reproduces: KNOWN_FINDINGS.txt is stale", "found_input": False,
                           "replay_obj": {"broken": "known-finding:F3", "case": CORPUS[0]}})
    if dis and not [1 for _, f in mon if f["sig"] not in kf]:
        d = dis[0]
        violations.append({"what": "model/implementation disagreement (%s) at step %d of history %s; no routing-table failure found"
                                   % (",".join(d["names"]), d["step"], okc[d["case"]][0]["id"]), "found_input": False,
                           "replay_obj": {"broken": "corr:C04:syncer_h:world", "disagreement": d, "case": okc[d["case"]][0], "observed": okc[d["case"]][1]}})
    cov = {"evaluations": len(cases), "distinct_nontrivial": len({json.dumps(c["ops"]) for c in cases if any(op["op"] == "addep" for op in c["ops"])}),
           "rule": "random histories over 2-4 nodes, each = real gossip clusterState + real syncer + real cluster.State: endpoint add/remove on owners, sync (some late), compaction, leave, liveness, digest sends with random max size, deliver/dup/drop, join/leave streams; non-trivial = adds an endpoint; distinct by op list; corpus = F3 witness",
           "samples": [cases[1]["ops"][:12]],
           "correspondence": {"harness": "syncer_h (server/gossip) on gossip world machinery", "histories": len(okc), "ops": sum(len(c["ops"]) for c in cases),
                              "distribution": op_mix(cases), "disagreements": len(dis), "seed": ctx["seed"]},
           "monitor": {"histories": len(cases), "failures": len(mon), "failures_known": len([1 for _, f in mon if f["sig"] in kf])}}
    return {"coverage": cov, "violations": violations, "known": known}


def replay(path, wd):
    obj = json.load(open(path))
    case = obj["case"]
    binary = build_harness("server/gossip", dirs=["syncer"])
    out = run_sync_world(binary, wd, [case], tag="replay")[0]
    print(json.dumps({"monitor": monitor(case, out)}, indent=1))
    if not out.get("panic"):
        print("model disagreements:", scorrespondence(ID, wd, [case], [out], tag="replay"))
    return 0
