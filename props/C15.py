"""C15 - upstream selection is valid and round-robin fair."""
from props.upstream_common import *

ID = "C15"
COQ_TARGETS = ["Run/Run_Upstream.vo"]
META = {
    "text": "Theorems (Properties/C15.v) over the Gallina model of loadBalancer Add/Remove/Next and LoadBalancedManager Select/AddConn/RemoveConn "
            "(with cluster.State's local counts, remote nodes and LookupEndpoint): for every op list every stored balancer is non-empty with its cursor in range "
            "(Next never indexes out of range, Select never returns a nil upstream); Select e allow returns only an upstream currently connected for exactly e "
            "(the balancer equals the connect/disconnect history's own list), a remote node only when allow = true, no balancer for e exists and the node is an "
            "active remote node advertising e; for a stable set of n upstreams any n consecutive selections are a permutation of the set; under arbitrary "
            "interleaved removals of other upstreams and additions every remaining upstream is selected within (set size + number of additions) further "
            "selections; sharper (C15_no_starvation_churn): if the endpoint never holds more than M upstreams meanwhile and f disconnects hit an upstream stored "
            "in front of u, u is selected within (1 + f) * (M - 1) + 1 selections - connects and disconnects behind u (a flapping connection) never delay it, "
            "which a Remove that restarts the rotation violates (C15_reset_variant_refuted). The model is tied to server/upstream/manager.go by replaying generated op scripts on the real LoadBalancedManager + cluster.State + "
            "syncer + gossip state and on the model (inside Coq) after every op, including the balancer's slice and nextIndex.",
    "note": "Trusted: Coq kernel+VM, the hand-written model, the Go harness/translation. Concurrency: every mutation and selection runs under the manager mutex; "
            "the concurrent harness mode (8 goroutines, race detector in the thorough tier) exercises that assumption, it is not proved. "
            "An unbounded stream of additions, one per selection, can postpone a given upstream for as long as it lasts (new upstreams are appended behind the cursor's "
            "wrap-around point); the bound proved is set size + additions, and C15_starvation_bound_tight shows the additions term is necessary.",
    "technique": "Coq proof (induction over op lists, balancer invariant, refinement of the manager's map to one persistent balancer per endpoint) + model/implementation correspondence by differential replay",
}
ASSUMPTIONS = [
    "upstream identity is (uid, endpoint): Go compares interface values holding pointers; the harness creates one object per (uid, endpoint)",
    "Go int is modelled unbounded (nat cursor, N counts); a balancer would need 2^63 upstreams to overflow",
    "sequential semantics: Select/AddConn/RemoveConn are atomic under LoadBalancedManager.mu (exercised by the concurrent mode, proved under C20)",
    "LookupEndpoint picks any matching node (Go map iteration): the model returns the candidate set and the observed node must be a member",
]
TRUSTED = ["python C15 monitor (props/upstream_common.py monitor_c15) as the independent oracle on the implementation's observed selections"]


def run(ctx):
    return run_property(ctx, ID, monitor_c15, [1, 4, 5, 6], "selection")


def replay(path, wd):
    return replay_property(path, wd, ID, monitor_c15)
