"""Generator, harness driver, trace->Coq translation and the independent monitors for the proxy harness
(harness/proxy, TestVerifHarness_Proxy). Shared by C01 (addressing), C06 (one hop) and C08 (transparency / status)."""
import concurrent.futures as cf
import copy, hashlib, ipaddress, json, os, random, re, sys, time
sys.path.insert(0, os.path.dirname(os.path.dirname(os.path.abspath(__file__))))
from lib.common import *

PKG = "server/proxy"
TEST = "TestVerifHarness_Proxy"
EPS = ["e", "e1", "e.x", "E", "other", "f"]
HOST_EPS = ["e", "e1", "E", "other", "f"]          # endpoints a Host header can address (first label)
HOP = ["connection", "proxy-connection", "keep-alive", "proxy-authenticate", "proxy-authorization", "te", "trailer",
       "transfer-encoding", "upgrade"]
TIMEOUT_MS = 200          # proxy timeout of the timeout clusters
SLOW_MS = 3000            # an upstream that must hit the timeout (margin 2.8 s)
LATE_MS = 600             # an upstream that answers after the timeout; only addressed by websocket upgrades
NORMAL_TIMEOUT_MS = 20000


def H(s):
    return (s if isinstance(s, bytes) else s.encode("latin-1")).hex()


def U(hx):
    return bytes.fromhex(hx).decode("latin-1")


def gen_body(n, seed):
    out, c = b"", 0
    while len(out) < n:
        out += hashlib.sha256(("%d:%d" % (seed, c)).encode()).digest()
        c += 1
    return out[:n]


def body_bytes(b):
    if not b:
        return b""
    if "hex" in b:
        return bytes.fromhex(b["hex"])
    return gen_body(b["len"], b.get("seed", 0))


def digest(sha, n):
    return "%s:%d" % (sha, n)


def body_len(b):
    if not b:
        return 0
    return b["len"] if "len" in b else len(b["hex"]) // 2


def body_digest(b):
    raw = body_bytes(b)
    return digest(hashlib.sha256(raw).hexdigest(), len(raw))


# ---------------------------------------------------------------- case construction helpers
def up(uid, ep, beh="answer", delay=0):
    return {"id": H(uid), "ep": H(ep), "beh": beh, "delay_ms": delay}


def view(nid, addr, eps, status="active"):
    return {"id": nid, "status": status, "addr": addr, "eps": [[H(e), n] for e, n in eps]}


def http_req(entry=0, method="GET", target="/", host="e.example.com", headers=(), body=None, chunked_req=False, resp=None):
    r = {"entry": entry, "kind": "http", "method": method, "target": H(target), "host": H(host),
         "headers": [[H(a), H(b)] for a, b in headers], "chunked_req": chunked_req}
    if body is not None:
        r["body"] = body
    r["resp"] = resp if resp is not None else mk_resp()
    return r


def tcp_req(entry=0, seg="e", host="", headers=(), payload=b"hello"):
    return {"entry": entry, "kind": "tcp", "seg": H(seg), "host": H(host),
            "headers": [[H(a), H(b)] for a, b in headers], "payload": H(payload)}


def mk_resp(status=200, headers=(), body=None, chunked=False):
    hs = [[H("Content-Type"), H("text/plain")]] + [[H(a), H(b)] for a, b in headers]
    return {"status": status, "headers": hs, "body": body if body is not None else {"hex": H("ok")}, "chunked": chunked, "delay_ms": 0}


def is_cut(rq):
    return bool((rq.get("resp") or {}).get("cut_after"))


def is_env_fault(rq):
    """requests whose outcome depends on a failure of the environment in mid-flight (an upstream dying inside its answer,
    a client half-closing): checked by the monitors only, left out of the Coq comparison, always last in a cluster"""
    return is_cut(rq) or bool(rq.get("half_close")) or rq.get("burst", 0) > 1 or bool(rq.get("pct"))


def truth_views(nodes):
    """views that equal the truth: every node knows every other node, active, real address, real counts"""
    for i, n in enumerate(nodes):
        n["view"] = []
        for j, m in enumerate(nodes):
            if i == j:
                continue
            cnt = {}
            for u_ in m["upstreams"]:
                cnt[U(u_["ep"])] = cnt.get(U(u_["ep"]), 0) + 1
            n["view"].append(view(m["id"], "node:%d" % j, sorted(cnt.items())))


# ---------------------------------------------------------------- clusters whose upstream sets change between requests
def connect_op(entry, u_):
    return {"entry": entry, "kind": "connect", "up": u_}


def disconnect_op(entry, uid):
    return {"entry": entry, "kind": "disconnect", "up_id": H(uid)}


def view_op(entry, views):
    """node `entry` learns (through gossip) what the listed nodes advertise now: its knowledge of them is replaced"""
    return {"entry": entry, "kind": "view", "view": views}


def is_op(rq):
    return rq["kind"] in ("connect", "disconnect", "view")


MODEL_BEH = {"gone": "dialfail", "dialfail_once": "dialfail"}


def phases(cl, co):
    """A dynamic cluster (upstreams connect / disconnect / announce go-away between requests; ONE continuous run of the real
    servers, so anything they remember - pooled connections, round-robin positions - carries over) is cut into static
    phases: [(static cluster, observations, original request indices)]. Monitors and the Coq comparison work phase by
    phase. A request may carry "_after": [["remove", node, upstream id] | ["beh", node, upstream id, behaviour]] - what the
    request itself does to the registry (a go-away upstream is deregistered by the first dial; a flaky one recovers)."""
    if not cl.get("dynamic"):
        return [(cl, co, list(range(len(cl["requests"]))))]
    nodes = copy.deepcopy(cl["nodes"])
    out, cur = [], []

    def flush():
        if cur:
            c = {k: v for k, v in cl.items() if k not in ("requests", "nodes", "dynamic")}
            c["nodes"] = copy.deepcopy(nodes)
            for n in c["nodes"]:
                for u_ in n["upstreams"]:
                    u_["beh"] = MODEL_BEH.get(u_["beh"], u_["beh"])
            c["requests"] = [cl["requests"][i] for i in cur]
            c["id"] = "%s@%d" % (cl["id"], cur[0])
            out.append((c, {"requests": [co["requests"][i] for i in cur]}, list(cur)))
            cur.clear()

    for ri, rq in enumerate(cl["requests"]):
        if ri >= len(co.get("requests") or []):
            break
        if rq["kind"] == "connect":
            flush()
            nodes[rq["entry"]]["upstreams"].append(copy.deepcopy(rq["up"]))
        elif rq["kind"] == "disconnect":
            flush()
            nodes[rq["entry"]]["upstreams"] = [u_ for u_ in nodes[rq["entry"]]["upstreams"] if u_["id"] != rq["up_id"]]
        elif rq["kind"] == "view":
            flush()
            ids = {v["id"] for v in rq["view"]}
            nodes[rq["entry"]]["view"] = [v for v in nodes[rq["entry"]]["view"] if v["id"] not in ids] + copy.deepcopy(rq["view"])
        else:
            cur.append(ri)
            if rq.get("_after"):
                flush()
                for a in rq["_after"]:
                    ups = nodes[a[1]]["upstreams"]
                    if a[0] == "remove":
                        nodes[a[1]]["upstreams"] = [u_ for u_ in ups if u_["id"] != H(a[2])]
                    else:
                        for u_ in ups:
                            if u_["id"] == H(a[2]):
                                u_["beh"] = a[3]
    flush()
    return out


def hdr_req(entry, ep, rng=None, forwarded=False, **kw):
    hs = [("x-piko-endpoint", ep)] + ([("x-piko-forward", "true")] if forwarded else [])
    if rng is not None and rng.random() < 0.4:
        kw.setdefault("method", rng.choice(["GET", "POST", "PUT"]))
        if kw["method"] != "GET":
            kw.setdefault("body", {"len": rng.choice([1, 17, 1000]), "seed": rng.randrange(10 ** 6)})
    return http_req(entry, host="gw.example.com", headers=hs, **kw)


def gen_dynamic_cluster(rng, cid, scenario=None):
    """structured histories on one continuous cluster:
    reconnect - an endpoint served by another node gets a local upstream (and loses it again): local first, at once;
    twins     - endpoint ids that differ only by what a URL parser would normalise away ("t" / "t:80" / "T"), alternating;
    goaway    - a forwarded request meets an upstream that has announced go-away: 502, never a second hop;
    flaky     - one failed dial does not deregister an upstream that is still connected"""
    sc = scenario or rng.choice(["reconnect", "twins", "goaway", "flaky", "moves"])
    e = rng.choice(["e", "e1", "svc"])
    if sc == "reconnect":
        nodes = [{"id": "n0", "upstreams": [], "view": [view("n1", "node:1", [(e, 1)])]},
                 {"id": "n1", "upstreams": [up("ub", e)], "view": [view("n0", "node:0", [])]}]
        reqs = [hdr_req(0, e, rng) for _ in range(rng.randint(1, 3))]
        reqs.append(connect_op(0, up("ua", e)))
        reqs += [hdr_req(0, e, rng, forwarded=rng.random() < 0.3) for _ in range(rng.randint(2, 4))]
        reqs.append(disconnect_op(0, "ua"))
        reqs += [hdr_req(0, e, rng) for _ in range(rng.randint(1, 2))]
        if rng.random() < 0.5:
            reqs.append(connect_op(0, up("ua2", e)))
            reqs += [hdr_req(0, e, rng) for _ in range(2)]
    elif sc == "moves":
        # the endpoint's only upstream moves from one remote node to another (agent reconnect / rebalancing) and gossip tells
        # the entry node: the very next request has to follow it - nothing remembered from the earlier forwarding (a pooled
        # connection to the old node, a cached route) may be used. Monitor only: the dynamic model has no view updates.
        nodes = [{"id": "n0", "upstreams": [], "view": [view("n1", "node:1", [(e, 1)]), view("n2", "node:2", [])]},
                 {"id": "n1", "upstreams": [up("ub", e)], "view": [view("n0", "node:0", []), view("n2", "node:2", [])]},
                 {"id": "n2", "upstreams": [], "view": [view("n0", "node:0", []), view("n1", "node:1", [(e, 1)])]}]
        reqs = [hdr_req(0, e, rng) for _ in range(rng.randint(1, 3))]
        reqs += [disconnect_op(1, "ub"), connect_op(2, up("uc", e)),
                 view_op(0, [view("n1", "node:1", []), view("n2", "node:2", [(e, 1)])]),
                 view_op(1, [view("n2", "node:2", [(e, 1)])]), view_op(2, [view("n1", "node:1", [])])]
        reqs += [hdr_req(0, e, rng) for _ in range(rng.randint(2, 3))] + [hdr_req(1, e, rng)]
        if rng.random() < 0.5:
            reqs += [disconnect_op(2, "uc"), connect_op(1, up("ub2", e)),
                     view_op(0, [view("n1", "node:1", [(e, 1)]), view("n2", "node:2", [])]),
                     view_op(2, [view("n1", "node:1", [(e, 1)])]), view_op(1, [view("n2", "node:2", [])])]
            reqs += [hdr_req(0, e, rng) for _ in range(2)]
    elif sc == "twins":
        twins = [e, e + ":80", e.upper() if e.upper() != e else e + ".", e + ":"]
        rng.shuffle(twins)
        twins = twins[:rng.randint(2, 4)]
        where = [rng.randrange(2) for _ in twins]
        nodes = [{"id": "n0", "upstreams": [], "view": []}, {"id": "n1", "upstreams": [], "view": []}]
        for k, (t, w) in enumerate(zip(twins, where)):
            nodes[w]["upstreams"].append(up("u%d" % k, t))
        truth_views(nodes)
        reqs = [hdr_req(rng.randrange(2), rng.choice(twins), rng) for _ in range(rng.randint(6, 10))]
    elif sc == "goaway":
        nodes = [{"id": "n0", "upstreams": [], "view": [view("n1", "node:1", [(e, 1)])]},
                 {"id": "n1", "upstreams": [up("ug", e, beh="gone")], "view": [view("n2", "node:2", [(e, 1)])]},
                 {"id": "n2", "upstreams": [up("uc", e)], "view": [view("n1", "node:1", [(e, 1)])]}]
        first = hdr_req(0, e, rng) if rng.random() < 0.7 else hdr_req(1, e, rng, forwarded=True)
        first["_after"] = [["remove", 1, "ug"]]
        reqs = [first, hdr_req(0, e, rng), hdr_req(1, e, rng), hdr_req(1, e, rng, forwarded=True), hdr_req(2, e, rng)]
    else:
        nodes = [{"id": "n0", "upstreams": [up("uf", e, beh="dialfail_once")], "view": [view("n1", "node:1", [(e, 1)])]},
                 {"id": "n1", "upstreams": [up("ub", e)], "view": [view("n0", "node:0", [(e, 1)])]}]
        first = hdr_req(0, e, rng)
        first["_after"] = [["beh", 0, "uf", "answer"]]
        reqs = [first] + [hdr_req(0, e, rng, forwarded=rng.random() < 0.3) for _ in range(rng.randint(2, 4))]
    return {"id": cid, "timeout_ms": NORMAL_TIMEOUT_MS, "kind": "consistent" if sc == "moves" else "adversarial", "dynamic": True, "scenario": sc,
            "views_change": sc == "moves", "nodes": nodes, "requests": reqs}


# ---------------------------------------------------------------- corpus (hand-picked, always first)
def corpus():
    cs = []
    # H1 witness (C06): Connection: x-piko-forward must not strip the forward marker. Ring of stale views, nobody serves e.
    cs.append({"id": "corpus-h1", "timeout_ms": NORMAL_TIMEOUT_MS, "kind": "adversarial", "nodes": [
        {"id": "n0", "upstreams": [], "view": [view("n1", "node:1", [("e", 1)])]},
        {"id": "n1", "upstreams": [], "view": [view("n2", "node:2", [("e", 1)])]},
        {"id": "n2", "upstreams": [up("u9", "e")], "view": [view("n0", "node:0", [("e", 1)])]}],
        "requests": [
            http_req(0, headers=[("Connection", "x-piko-forward")]),
            http_req(0, headers=[("Connection", "keep-alive, X-Piko-Forward")]),
            http_req(0, headers=[("connection", " x-piko-forward ,x-a"), ("X-A", "1")]),
            http_req(1, headers=[("Connection", "x-piko-forward")]),
            # the Connection field spread over several lines (RFC 9110 5.3), the control header not named in the first one
            http_req(0, headers=[("Connection", "close"), ("Connection", "x-piko-forward")]),
            http_req(1, headers=[("Connection", "keep-alive"), ("connection", "x-a, X-Piko-Forward"), ("X-A", "1")]),
            http_req(0)]})
    # H2 witness (C01/C10): x-piko-endpoint listed in Connection, Host names another endpoint that the second node serves
    cs.append({"id": "corpus-h2", "timeout_ms": NORMAL_TIMEOUT_MS, "kind": "adversarial", "nodes": [
        {"id": "n0", "upstreams": [], "view": [view("n1", "node:1", [("e", 1), ("other", 1)])]},
        {"id": "n1", "upstreams": [up("uo", "other")], "view": []}],
        "requests": [
            http_req(0, host="other.example.com", headers=[("x-piko-endpoint", "e"), ("Connection", "x-piko-endpoint")]),
            http_req(0, host="other.example.com", headers=[("X-Piko-Endpoint", "e"), ("Connection", "close, X-PIKO-ENDPOINT")]),
            http_req(0, host="other.example.com", headers=[("x-piko-endpoint", "e"), ("Connection", "keep-alive"), ("Connection", "x-piko-endpoint")]),
            http_req(0, host="other.example.com", headers=[("x-piko-endpoint", "e")]),
            http_req(0, host="other.example.com")]})
    # mutual stale belief, nobody serves: must be 502 after exactly one hop; already-forwarded client request
    cs.append({"id": "corpus-mutual", "timeout_ms": NORMAL_TIMEOUT_MS, "kind": "adversarial", "nodes": [
        {"id": "n0", "upstreams": [], "view": [view("n1", "node:1", [("e", 2)])]},
        {"id": "n1", "upstreams": [], "view": [view("n0", "node:0", [("e", 1)])]}],
        "requests": [http_req(0), http_req(1), http_req(0, headers=[("x-piko-forward", "true")]),
                     http_req(0, headers=[("x-piko-forward", "TRUE")]), tcp_req(0, "e"), tcp_req(1, "e", headers=[("x-piko-forward", "true")])]})
    # local first: the entry node has an upstream and (wrongly or rightly) believes others have one too
    cs.append({"id": "corpus-local-first", "timeout_ms": NORMAL_TIMEOUT_MS, "kind": "adversarial", "nodes": [
        {"id": "n0", "upstreams": [up("u0", "e")], "view": [view("n1", "node:1", [("e", 5)])]},
        {"id": "n1", "upstreams": [up("u1", "e")], "view": [view("n0", "node:0", [("e", 1)])]}],
        "requests": [http_req(0), http_req(1), http_req(0), tcp_req(0, "e"), tcp_req(1, "e")]})
    # TCP route takes the endpoint from the path, not from Host / x-piko-endpoint
    cs.append({"id": "corpus-tcp-route", "timeout_ms": NORMAL_TIMEOUT_MS, "kind": "consistent", "nodes": [
        {"id": "n0", "upstreams": [up("ue", "e"), up("uo", "other")], "view": []},
        {"id": "n1", "upstreams": [up("uf", "f")], "view": []}],
        "requests": [tcp_req(0, "e", host="other.example.com"), tcp_req(0, "e", headers=[("x-piko-endpoint", "other")]),
                     tcp_req(0, "f", host="e.example.com"), tcp_req(1, "other", host="f.example.com"),
                     tcp_req(0, "nope", host="e.example.com"),
                     http_req(0, method="POST", target="/_piko/v1/tcp/other", host="e.example.com", body={"hex": H("x")})]})
    truth_views(cs[-1]["nodes"])
    # W1 witness + status table under a 200 ms timeout
    cs.append({"id": "corpus-timeout", "timeout_ms": TIMEOUT_MS, "kind": "timeout", "nodes": [
        {"id": "n0", "upstreams": [up("us", "s", delay=SLOW_MS)], "view": []},
        {"id": "n1", "upstreams": [up("uw", "w", delay=LATE_MS)], "view": []}],
        "requests": [
            http_req(0, host="s.example.com"),
            http_req(1, host="s.example.com"),
            http_req(1, host="w.example.com", headers=[("Connection", "Upgrade"), ("Upgrade", "websocket")]),
            http_req(1, host="w.example.com", headers=[("Connection", "Upgrade"), ("Upgrade", "WebSocket")]),
            http_req(0, host="w.example.com", headers=[("Connection", "upgrade"), ("Upgrade", "WEBSOCKET")]),
            # Connection split over two field lines, the upgrade token in the first (seeded change C08-1)
            http_req(0, host="w.example.com", headers=[("Connection", "Upgrade"), ("Connection", "keep-alive"), ("Upgrade", "websocket")]),
            http_req(1, host="w.example.com", headers=[("Connection", "Upgrade"), ("connection", "x-a"), ("X-A", "1"), ("Upgrade", "websocket")]),
            http_req(0, host="nobody.example.com")]})
    truth_views(cs[-1]["nodes"])
    # failure matrix
    cs.append({"id": "corpus-failures", "timeout_ms": NORMAL_TIMEOUT_MS, "kind": "failure", "nodes": [
        {"id": "n0", "upstreams": [up("ur", "r", beh="reset"), up("ud", "d", beh="dialfail")],
         "view": [view("n1", "refuse", [("x", 1)]), view("n2", "dead", [("y", 1)]), view("n3", "node:0", [("z", 1)]),
                  view("n4", "node:0", [("q", 1)], status="unreachable"), view("n5", "node:0", [("q", 1)], status="left"),
                  view("n6", "node:0", [("k", 0)]), view("n7", "node:0", [("k", -1)])]}],
        "requests": [http_req(0, host="r.example.com"), http_req(0, host="d.example.com"), http_req(0, host="x.example.com"),
                     http_req(0, host="y.example.com"), http_req(0, host="z.example.com"), http_req(0, host="q.example.com"),
                     http_req(0, host="k.example.com"), http_req(0, host="localhost"), http_req(0, host="1.2.3.4:80"),
                     http_req(0, host=""), tcp_req(0, "d"), tcp_req(0, "r"), tcp_req(0, "x")]})
    # transparency
    big = {"len": 262144, "seed": 11}
    cs.append({"id": "corpus-transparent", "timeout_ms": NORMAL_TIMEOUT_MS, "kind": "consistent", "nodes": [
        {"id": "n0", "upstreams": [], "view": []},
        {"id": "n1", "upstreams": [up("u1", "e")], "view": []}],
        "requests": [
            http_req(0, method="POST", target="/a%2Fb/c%20d;p=1?x=1;y=2&z=&z", headers=[("X-A", "1"), ("x-a", "2"), ("X-B", ""), ("Cookie", "a=b; c=d"),
                                                                                    ("User-Agent", "vh/1.0"), ("X-Forwarded-For", "9.9.9.9"), ("Accept-Encoding", "br")],
                     body=big, resp=mk_resp(201, [("X-R", "1"), ("x-r", "2"), ("Set-Cookie", "a=1"), ("Set-Cookie", "b=2"), ("Keep-Alive", "timeout=1")],
                                            {"len": 70000, "seed": 3}, chunked=True)),
            http_req(1, method="PURGE", target="/a/../b//c?", headers=[("Connection", "X-Hop, keep-alive"), ("X-Hop", "1"), ("Keep-Alive", "timeout=5"),
                                                                         ("Te", "trailers"), ("Proxy-Authorization", "x")],
                     resp=mk_resp(404, [("Connection", "X-Rhop"), ("X-Rhop", "1"), ("Server", "up/1")], {"hex": ""})),
            http_req(0, method="PUT", target="/", body={"len": 65536, "seed": 5}, chunked_req=True, resp=mk_resp(502, [("X-From", "upstream")])),
            http_req(0, method="DELETE", target="/x?" , resp=mk_resp(500, [], {"len": 1000, "seed": 1})),
            # the control header named in Connection as a padded, non-first token (seeded change C08-3): still forwarded
            http_req(0, host="10.0.0.1", headers=[("x-piko-endpoint", "e"), ("Connection", "close, x-piko-endpoint")]),
            http_req(0, host="10.0.0.1", headers=[("X-Piko-Endpoint", "e"), ("Connection", "keep-alive,\tX-Piko-Endpoint")])]})
    truth_views(cs[-1]["nodes"])
    # T1 witness: the upstream dies in the middle of a chunked / Content-Length body, served locally and through a second node
    cut_c = mk_resp(200, [("X-R", "1")], {"len": 5000, "seed": 7}, chunked=True); cut_c["cut_after"] = 1200
    cut_l = mk_resp(200, [("X-R", "1")], {"len": 5000, "seed": 8}, chunked=False); cut_l["cut_after"] = 1200
    cs.append({"id": "corpus-cut-body", "timeout_ms": NORMAL_TIMEOUT_MS, "kind": "consistent", "nodes": [
        {"id": "n0", "upstreams": [], "view": []},
        {"id": "n1", "upstreams": [up("u1", "e")], "view": []}],
        "requests": [http_req(1, resp=mk_resp(200, [], {"len": 5000, "seed": 7}, chunked=True)),
                     http_req(1, resp=cut_c), http_req(0, resp=cut_c), http_req(1, resp=cut_l), http_req(0, resp=cut_l)]})
    truth_views(cs[-1]["nodes"])
    # the same transparency through a real agent reverse proxy in front of the service, incl. a service that dies mid-body
    cut_a = mk_resp(200, [("X-R", "1")], {"len": 5000, "seed": 9}, chunked=True); cut_a["cut_after"] = 1200
    cs.append({"id": "corpus-agent", "via_agent": True, "timeout_ms": NORMAL_TIMEOUT_MS, "kind": "consistent", "nodes": [
        {"id": "n0", "upstreams": [], "view": []},
        {"id": "n1", "upstreams": [up("u1", "e")], "view": []}],
        "requests": [
            http_req(0, method="POST", target="/a%2Fb/c%20d;p=1?x=1;y=2&z=&z", headers=[("X-A", "1"), ("x-a", "2"), ("X-B", ""), ("Cookie", "a=b; c=d"),
                                                                                    ("User-Agent", "vh/1.0"), ("X-Forwarded-For", "9.9.9.9"), ("Accept-Encoding", "br")],
                     body={"len": 70000, "seed": 4}, resp=mk_resp(201, [("X-R", "1"), ("x-r", "2"), ("Set-Cookie", "a=1"), ("Set-Cookie", "b=2")],
                                                                 {"len": 70000, "seed": 3}, chunked=True)),
            http_req(1, method="DELETE", target="/x?", resp=mk_resp(204, [("X-R", "1")], {"hex": ""})),
            http_req(1, resp=cut_a), http_req(0, resp=cut_a)]})
    truth_views(cs[-1]["nodes"])
    # a client that half-closes (shuts down its sending side, keeps reading) while the upstream takes 150 ms: it gets the
    # upstream's answer or a gateway answer, never a fabricated one (seeded change C08-4: 404 on context.Canceled)
    slow = mk_resp(200, [("X-R", "1")], {"hex": H("late")}); slow["delay_ms"] = 150
    hc1 = http_req(1, resp=slow); hc1["half_close"] = True
    hc0 = http_req(0, resp=slow); hc0["half_close"] = True
    cs.append({"id": "corpus-half-close", "timeout_ms": NORMAL_TIMEOUT_MS, "kind": "consistent", "nodes": [
        {"id": "n0", "upstreams": [], "view": []},
        {"id": "n1", "upstreams": [up("u1", "e")], "view": []}],
        "requests": [http_req(1, resp=slow), hc1, hc0]})
    truth_views(cs[-1]["nodes"])
    # the access log's header allow/block lists redact the log, never the traffic (seeded change C08-2)
    for tag, al in (("block", {"disable": False, "req_block": ["authorization", "cookie", "x-piko-endpoint"], "req_allow": [], "resp_block": ["set-cookie", "x-r"], "resp_allow": []}),
                    ("allow", {"disable": False, "req_block": [], "req_allow": ["user-agent"], "resp_block": [], "resp_allow": ["content-type"]}),
                    ("allow-disabled", {"disable": True, "req_block": [], "req_allow": ["user-agent"], "resp_block": [], "resp_allow": ["content-type"]})):
        cs.append({"id": "corpus-access-log-" + tag, "timeout_ms": NORMAL_TIMEOUT_MS, "kind": "consistent", "access_log": al, "nodes": [
            {"id": "n0", "upstreams": [], "view": []},
            {"id": "n1", "upstreams": [up("u1", "e")], "view": []}],
            "requests": [
                http_req(0, host="10.0.0.1", headers=[("x-piko-endpoint", "e"), ("Authorization", "Bearer abc"), ("Cookie", "a=b"), ("X-A", "1"), ("User-Agent", "vh/1.0")],
                         resp=mk_resp(200, [("Set-Cookie", "a=1"), ("X-R", "1"), ("Content-Type", "text/plain")], {"hex": H("ok")})),
                http_req(1, host="e.example.com", headers=[("Authorization", "Bearer abc"), ("Cookie", "a=b"), ("X-A", "1")],
                         resp=mk_resp(200, [("Set-Cookie", "a=1"), ("X-R", "1")], {"hex": H("ok")})),
                # L1 witness: an empty body, so the response header is flushed only after the middleware chain
                http_req(0, host="e.example.com", resp=mk_resp(302, [("Location", "/elsewhere"), ("Set-Cookie", "a=1"), ("X-R", "1")], {"hex": ""})),
                http_req(1, host="e.example.com", method="DELETE", resp=mk_resp(204, [("X-R", "1"), ("Server", "up/1")], {"hex": ""}))]})
        truth_views(cs[-1]["nodes"])
    return cs


# ---------------------------------------------------------------- generator
PATHS = ["/", "/a/b", "/a%2Fb", "/a%20b", "/a;b=c/d", "/a/../b", "//double", "/a/./b", "/_piko/other", "/_piko/v1/tcp",
         "/_piko/v1/tcpx/e", "/A", "/caf%C3%A9", "/*", "/a+b", "/a:b@c", "/~user", "/a&b=c", "/a,b", "/a'b", "/(x)", "/a!b$c",
         "/_piko/v1/tcp/e/extra", "/index.html"]
QUERIES = [None, None, "", "x=1", "a=1;b=2", "a=&b", "q=%26%3D", "x=1&x=2", "a=%zz", "a=b+c", "?", "/?"]
METHODS = ["GET", "GET", "GET", "POST", "PUT", "PATCH", "DELETE", "OPTIONS", "PURGE", "FOO"]
REQ_HDRS = [("X-A", "1"), ("x-a", "2"), ("X-B", ""), ("Accept", "*/*"), ("User-Agent", "vh/1.0"), ("Authorization", "Bearer abc"),
            ("X-Forwarded-For", "9.9.9.9"), ("X-Forwarded-For", "8.8.8.8, 7.7.7.7"), ("Cookie", "a=b; c=d"), ("X-Piko-Other", "zz"),
            ("Keep-Alive", "timeout=5"), ("Te", "trailers"), ("Te", "gzip"), ("Proxy-Authorization", "x"), ("Upgrade", "h2c"),
            ("Accept-Encoding", "br"), ("Accept-Encoding", "gzip"), ("Range", "bytes=0-1"), ("X-Long", "v" * 300), ("x-c", "a,b , c")]
CONN_VALUES = ["x-piko-forward", "x-piko-endpoint", "X-Piko-Endpoint, x-piko-forward", "keep-alive", "close", "X-A", "x-a, X-Piko-Forward",
               "close, x-piko-endpoint", "keep-alive,\tX-Piko-Endpoint", "x-b , x-piko-endpoint ,x-piko-forward",
               " x-piko-forward ,x-b", "x-piko-other", "Upgrade", "upgrade, x-piko-forward", ",,", "X-B,Keep-Alive"]
RESP_HDRS = [("X-R", "1"), ("x-r", "2"), ("Set-Cookie", "a=1"), ("Set-Cookie", "b=2"), ("Cache-Control", "no-cache"), ("Keep-Alive", "x"),
             ("Server", "up/1"), ("Location", "/elsewhere"), ("X-Piko-Forward", "true"), ("Upgrade", "h2c"), ("X-Empty", "")]
STATUSES = [200, 200, 200, 201, 302, 404, 418, 500, 502, 503, 504]
BODY_SIZES = [0, 0, 1, 17, 1000, 5000, 65536, 262144]


def host_for(rng, ep, plain_only=False):
    forms = ["%s.example.com", "%s.example.com:8000", "%s.example.com.", "%s.a.b.c.d", "[%s.example.com]:80", "%s.example.com:", "%s.x"]
    if plain_only:
        forms = forms[:2]
    return rng.choice(forms) % ep


NO_EP_HOSTS = ["localhost", "localhost:8000", "1.2.3.4", "1.2.3.4:80", "[::1]:80", "", "e", "::1", "[::ffff:1.2.3.4]:1", ".e.example.com", "127.0.0.1:8000"]


def gen_nodes(rng, kind):
    k = rng.choice([1, 2, 2, 3, 3, 4])
    if kind in ("adversarial",) and k == 1:
        k = 2
    eps = rng.sample(EPS, rng.randint(1, 4))
    nodes = []
    uid = 0
    for i in range(k):
        ups = []
        for _ in range(rng.choice([0, 0, 1, 1, 2, 3])):
            beh = "answer"
            if kind == "failure" and rng.random() < 0.5:
                beh = rng.choice(["dialfail", "reset"])
            ups.append(up("u%d" % uid, rng.choice(eps), beh))
            uid += 1
        nodes.append({"id": "n%d" % i, "upstreams": ups, "view": []})
    if kind in ("consistent", "failure"):
        truth_views(nodes)
        if kind == "consistent" and rng.random() < 0.6:
            # settled views still remember departed nodes (left / unreachable, until they expire): they advertise
            # endpoints but must be ignored, and must not hide the live nodes behind them
            for i, n in enumerate(nodes):
                for g in range(rng.randint(1, 3)):
                    n["view"].append(view("gone%d" % g, rng.choice(["dead", "refuse", "reset"]), [(e, 1) for e in EPS if rng.random() < 0.7],
                                          rng.choice(["left", "unreachable"])))
        if kind == "failure":
            for i, n in enumerate(nodes):
                if rng.random() < 0.6:
                    n["view"].append(view("g%d" % i, rng.choice(["refuse", "dead", "reset"]), [(rng.choice(EPS), 1)]))
    else:
        for i, n in enumerate(nodes):
            vs = []
            for j in range(k + 1):
                if rng.random() < 0.3:
                    continue
                nid = "n%d" % j if j < k else "ghost"
                if nid == n["id"]:
                    if rng.random() < 0.7:
                        continue
                    nid = "stale%d" % i            # an old id of a node that now listens on our own address
                    addr = "node:%d" % i
                else:
                    addr = rng.choice(["node:%d" % rng.randrange(k)] * 6 + ["dead", "refuse", "reset"])
                    if j < k and rng.random() < 0.6:
                        addr = "node:%d" % j
                ents = [(e, rng.choice([1, 1, 1, 2, 0, -1])) for e in EPS if rng.random() < 0.5]
                vs.append(view(nid, addr, ents, rng.choice(["active"] * 5 + ["unreachable", "left"])))
            n["view"] = vs
    return nodes, eps


def gen_http(rng, nodes, eps, rich):
    k = len(nodes)
    ep = rng.choice(eps) if rng.random() < 0.75 else rng.choice(EPS)
    mode = rng.choice(["host", "host", "header", "both", "conflict", "conflict", "empty-header", "none", "header-repeat"])
    headers = []
    host = "unused.example.com"
    other = rng.choice([x for x in HOST_EPS if x != ep])
    hname = rng.choice(["x-piko-endpoint", "X-Piko-Endpoint", "X-PIKO-ENDPOINT"])
    if mode == "host":
        host = host_for(rng, ep if ep in HOST_EPS else "e")
    elif mode == "header":
        host = rng.choice(NO_EP_HOSTS)
        headers.append((hname, ep))
    elif mode == "both":
        host = host_for(rng, ep if ep in HOST_EPS else "e")
        headers.append((hname, ep))
    elif mode == "conflict":
        host = host_for(rng, other)
        headers.append((hname, ep))
    elif mode == "empty-header":
        host = host_for(rng, ep if ep in HOST_EPS else "e")
        headers.append((hname, ""))
    elif mode == "header-repeat":
        host = host_for(rng, other)
        headers.append((hname, ep))
        headers.append(("x-piko-endpoint", other))
    else:
        host = rng.choice(NO_EP_HOSTS)
    r = rng.random()
    if r < 0.12:
        headers.append((rng.choice(["x-piko-forward", "X-Piko-Forward"]), rng.choice(["true", "true", "TRUE", "false", ""])))
    if rng.random() < 0.35:
        headers.append((rng.choice(["Connection", "connection"]), rng.choice(CONN_VALUES)))
        if rng.random() < 0.2:
            headers.append(("Connection", rng.choice(CONN_VALUES)))
    if rng.random() < 0.1:
        headers.append(("Connection", "Upgrade"))
        headers.append(("Upgrade", rng.choice(["websocket", "WebSocket", "h2c"])))
    method, target, body, chunked_req, resp = "GET", "/", None, False, mk_resp()
    half_close = False
    if rich:
        method = rng.choice(METHODS)
        q = rng.choice(QUERIES)
        target = rng.choice(PATHS) + ("" if q is None else "?" + q)
        for _ in range(rng.choice([0, 1, 2, 3, 5])):
            headers.append(rng.choice(REQ_HDRS))
        size = rng.choice(BODY_SIZES)
        if size and (method not in ("GET", "OPTIONS") or rng.random() < 0.2):
            body = {"len": size, "seed": rng.randrange(1000)} if size > 32 else {"hex": H(gen_body(size, 1))}
            chunked_req = rng.random() < 0.25
        rh = [rng.choice(RESP_HDRS) for _ in range(rng.choice([0, 1, 2, 4]))]
        if rng.random() < 0.15:
            rh += [("Connection", "X-Rhop"), ("X-Rhop", "1")]
        rsize = rng.choice(BODY_SIZES[:-1])
        resp = mk_resp(rng.choice(STATUSES), rh, {"len": rsize, "seed": rng.randrange(1000)}, chunked=rng.random() < 0.3)
        if rng.random() < 0.06:
            # the client half-closes while the upstream takes its time
            resp["delay_ms"] = 120
            half_close = True
        if rsize >= 1000 and rng.random() < 0.25:
            # the upstream dies in the middle of the body (streamed / chunked or with a Content-Length)
            resp["cut_after"] = rng.choice([1, 17, rsize // 2, rsize - 1])
            resp["chunked"] = rng.random() < 0.7
    else:
        if rng.random() < 0.3:
            headers.append(rng.choice(REQ_HDRS))
    rng.shuffle(headers)
    # a repeated User-Agent is folded to its first value by http.Transport (environment; listed in ASSUMPTIONS): send at most one
    seen_ua = False
    hs2 = []
    for h_ in headers:
        if h_[0].lower() == "user-agent":
            if seen_ua:
                continue
            seen_ua = True
        hs2.append(h_)
    headers = hs2
    # x-piko-endpoint repeats: the first one must stay first
    if mode == "header-repeat":
        hs = [h_ for h_ in headers if h_[0].lower() == "x-piko-endpoint"]
        rest = [h_ for h_ in headers if h_[0].lower() != "x-piko-endpoint"]
        hs.sort(key=lambda h_: 0 if h_[1] == ep else 1)
        headers = hs + rest
    rq = http_req(rng.randrange(k), method, target, host, headers, body, chunked_req, resp)
    if half_close and not rq["resp"].get("cut_after"):
        rq["half_close"] = True
    return rq


def gen_tcp(rng, nodes, eps):
    k = len(nodes)
    seg = rng.choice(eps) if rng.random() < 0.75 else rng.choice(EPS + ["nope"])
    headers = []
    host = ""
    r = rng.random()
    if r < 0.4:
        host = host_for(rng, rng.choice(HOST_EPS), plain_only=True)
    if rng.random() < 0.3:
        headers.append(("x-piko-endpoint", rng.choice(EPS)))
    if rng.random() < 0.15:
        headers.append(("x-piko-forward", rng.choice(["true", "false"])))
    if rng.random() < 0.2:
        headers.append(("X-A", "1"))
    return tcp_req(rng.randrange(k), seg, host, headers, gen_body(rng.choice([0, 5, 300, 70000]), rng.randrange(100)))


def gen_timeout_cluster(rng, cid):
    k = rng.choice([1, 2, 3])
    nodes = [{"id": "n%d" % i, "upstreams": [], "view": []} for i in range(k)]
    nodes[rng.randrange(k)]["upstreams"].append(up("us", "s", delay=SLOW_MS))
    nodes[rng.randrange(k)]["upstreams"].append(up("uw", "w", delay=LATE_MS))
    truth_views(nodes)
    reqs = []
    for _ in range(rng.choice([2, 3])):
        r = rng.random()
        e = rng.randrange(k)
        if r < 0.45:
            hs = [rng.choice(REQ_HDRS[:4])] if rng.random() < 0.5 else []
            if rng.random() < 0.35:
                # a client may send the forward marker itself: the timeout still applies at the node that serves it
                hs.append((rng.choice(["x-piko-forward", "X-Piko-Forward"]), "true"))
            if rng.random() < 0.3:
                # an ordinary request that merely OFFERS a protocol upgrade that is not a websocket (curl --http2 over plain HTTP
                # sends Upgrade: h2c): the timeout exemption is for websockets only
                hs += [("Connection", "Upgrade, HTTP2-Settings"), ("Upgrade", rng.choice(["h2c", "TLS/1.0", "h2c, websocket-not"])), ("HTTP2-Settings", "AAMAAABkAAQCAAAAAAIAAAAA")]
            reqs.append(http_req(e, rng.choice(["GET", "POST"]), "/slow", "s.example.com", hs))
        elif r < 0.9:
            conn = [(rng.choice(["Connection", "connection"]), rng.choice(["Upgrade", "upgrade", "keep-alive, Upgrade"]))]
            if rng.random() < 0.35:
                # the Connection field split over several lines (RFC 9110 5.3), the upgrade token not in the last one
                conn = [("Connection", rng.choice(["Upgrade", "upgrade"])), (rng.choice(["Connection", "connection"]), rng.choice(["keep-alive", "x-a", "Keep-Alive, x-b"]))]
            reqs.append(http_req(e, "GET", "/ws", "w.example.com",
                                 conn + [("Upgrade", rng.choice(["websocket", "WebSocket", "WEBSOCKET", "webSocket"]))]))
        else:
            reqs.append(http_req(e, "GET", "/", "nobody.example.com"))
    return {"id": cid, "timeout_ms": TIMEOUT_MS, "kind": "timeout", "nodes": nodes, "requests": reqs}


def agent_burst_cluster(cid, copies=16, idle=2, delay=200, timeout=1000):
    """an agent whose http client keeps at most `idle` idle connections serves `copies` concurrent slow requests: the idle
    pool size is not a cap on requests in flight (seeded change C08-6)"""
    nodes = [{"id": "n0", "upstreams": [up("u1", "e")], "view": []}, {"id": "n1", "upstreams": [], "view": []}]
    truth_views(nodes)
    slow = mk_resp(200, body={"hex": H("slow")}); slow["delay_ms"] = delay
    r1 = http_req(0, host="e.example.com", resp=slow); r1["burst"] = copies
    r2 = http_req(1, host="e.example.com", resp=copy.deepcopy(slow)); r2["burst"] = copies
    return {"id": cid, "timeout_ms": timeout, "kind": "consistent", "via_agent": True, "agent_idle": idle, "nodes": nodes,
            "requests": [http_req(0, host="e.example.com"), r1, r2]}


def empty_404_cluster(cid, agent, n=40):
    """finding T2: the upstream answers 404 with an EMPTY streamed (chunked) body - the status gin's no-route machinery starts
    from; nothing may be appended. The defect was a race (4-10 % of such requests), hence many of them"""
    nodes = [{"id": "n0", "upstreams": [up("u1", "e")], "view": []}, {"id": "n1", "upstreams": [], "view": []}]
    truth_views(nodes)
    r = mk_resp(404, body={"len": 0, "seed": 1}, chunked=True)
    c = {"id": cid, "timeout_ms": NORMAL_TIMEOUT_MS, "kind": "consistent", "nodes": nodes,
         "requests": [http_req(i % 2, host="e.example.com", resp=copy.deepcopy(r)) for i in range(n)]}
    if agent:
        c["via_agent"] = True
    return c


def gen_tls_cluster(rng, cid):
    """TLS on every proxy port, one certificate per node valid for that node's address only; the entry node forwards to several
    DIFFERENT peers one after the other (seeded change C01-7: the first peer's name stuck in the shared client configuration)"""
    nn = rng.randint(3, 4)
    eps = ["e", "f", "e1"][: nn - 1]
    nodes = [{"id": "n%d" % i, "upstreams": [], "view": []} for i in range(nn)]
    for k, e in enumerate(eps):
        nodes[k + 1]["upstreams"].append(up("u%d" % k, e))
    truth_views(nodes)
    reqs = []
    for _ in range(rng.randint(6, 10)):
        reqs.append(hdr_req(rng.choice([0, 0, rng.randrange(nn)]), rng.choice(eps), rng))
    return {"id": cid, "timeout_ms": NORMAL_TIMEOUT_MS, "kind": "consistent", "tls": True, "nodes": nodes, "requests": reqs}


def reset_cluster(cid):
    """n0 believes that a node which will reset the connection after reading the request, and n1, both serve e: whichever it
    picks, the request goes to ONE of them (a reset after delivery is answered 502, not retried elsewhere)"""
    nodes = [{"id": "n0", "upstreams": [], "view": [view("gone", "reset", [("e", 1)]), view("n1", "node:1", [("e", 1)])]},
             {"id": "n1", "upstreams": [up("u1", "e")], "view": []}]
    return {"id": cid, "timeout_ms": NORMAL_TIMEOUT_MS, "kind": "failure", "nodes": nodes,
            "requests": [http_req(0, host="e.example.com") for _ in range(12)]}


def marked_timeout_cluster(cid):
    nodes = [{"id": "n0", "upstreams": [up("us", "s", delay=SLOW_MS)], "view": []}, {"id": "n1", "upstreams": [], "view": []}]
    truth_views(nodes)
    return {"id": cid, "timeout_ms": TIMEOUT_MS, "kind": "timeout", "nodes": nodes,
            "requests": [http_req(0, "GET", "/slow", "s.example.com", [("x-piko-forward", "true")]), http_req(1, "GET", "/slow", "s.example.com"),
                         http_req(0, "GET", "/slow", "s.example.com", [("Connection", "Upgrade, HTTP2-Settings"), ("Upgrade", "h2c"), ("HTTP2-Settings", "AAMAAABkAAQCAAAAAAIAAAAA")]),
                         http_req(0, "POST", "/slow", "s.example.com", [("X-Piko-Forward", "true")])]}


def percent_cluster(cid):
    """endpoint ids with a literal '%' on the TCP route: the client escapes the id once ("x%41" travels as x%2541); the node decodes
    once - the tunnel goes to the upstream of "x%41", not to the one of "xA" (monitor only: the model's path grammar has no escapes)"""
    nodes = [{"id": "n0", "upstreams": [], "view": []}, {"id": "n1", "upstreams": [up("u1", "x%41"), up("u2", "xA"), up("u3", "100%")], "view": []}]
    truth_views(nodes)
    reqs = []
    for entry in (0, 1):
        for seg in ("x%2541", "xA", "100%25"):
            r = tcp_req(entry, seg=seg)
            if "%" in seg:
                r["pct"] = True
            reqs.append(r)
    reqs.sort(key=lambda r: 1 if is_env_fault(r) else 0)
    return {"id": cid, "timeout_ms": NORMAL_TIMEOUT_MS, "kind": "consistent", "nodes": nodes, "requests": reqs}


def gen_cluster(rng, cid, profile):
    if rng.random() < profile.get("p_tls", 0.0):
        return gen_tls_cluster(rng, cid)
    if rng.random() < profile.get("p_dynamic", 0.0):
        return gen_dynamic_cluster(rng, cid)
    kind = rng.choices(list(profile["kinds"].keys()), list(profile["kinds"].values()))[0]
    if kind == "timeout":
        return gen_timeout_cluster(rng, cid)
    nodes, eps = gen_nodes(rng, kind)
    reqs = []
    for _ in range(rng.randint(profile.get("min_reqs", 6), profile.get("max_reqs", 10))):
        if rng.random() < profile.get("p_tcp", 0.15):
            reqs.append(gen_tcp(rng, nodes, eps))
        else:
            reqs.append(gen_http(rng, nodes, eps, rng.random() < profile.get("p_rich", 0.3)))
    reqs.sort(key=lambda r: 1 if is_env_fault(r) else 0)     # stable: environment faults last (left out of the Coq comparison)
    cl = {"id": cid, "timeout_ms": NORMAL_TIMEOUT_MS, "kind": kind, "nodes": nodes, "requests": reqs, "access_log": gen_access_log(rng)}
    if rng.random() < profile.get("p_agent", 0.0) and all(rq["kind"] == "http" for rq in reqs):
        cl["via_agent"] = True      # client -> node(s) -> real agent reverse proxy -> service (monitors only)
    return cl


def gen_access_log(rng):
    """the access-log configuration (header allow/block lists are meant to redact the LOG): proxying must be the same
    under every one of them. None = the harness default (disabled)."""
    r = rng.random()
    if r < 0.4:
        return None
    al = {"disable": rng.random() < 0.3, "req_block": [], "req_allow": [], "resp_block": [], "resp_allow": []}
    if rng.random() < 0.5:
        al["req_block"] = rng.choice([["authorization", "cookie"], ["x-piko-endpoint", "X-A", "host", "User-Agent"], ["x-piko-forward", "connection", "x-e2e"]])
    else:
        al["req_allow"] = rng.choice([["user-agent"], ["x-a"], ["x-piko-forward"]])
    if rng.random() < 0.5:
        al["resp_block"] = rng.choice([["set-cookie"], ["x-r", "server", "location"]])
    else:
        al["resp_allow"] = rng.choice([["content-type"], ["x-r"]])
    return al


PROFILES = {
    "C01": {"kinds": {"consistent": 45, "adversarial": 45, "failure": 10}, "p_tcp": 0.25, "p_rich": 0.15, "p_dynamic": 0.15, "p_tls": 0.06},
    "C06": {"kinds": {"adversarial": 70, "consistent": 20, "failure": 10}, "p_tcp": 0.2, "p_rich": 0.1, "p_dynamic": 0.25, "p_tls": 0.05},
    "C08": {"kinds": {"consistent": 45, "failure": 20, "timeout": 25, "adversarial": 10}, "p_tcp": 0.03, "p_rich": 0.85, "p_agent": 0.25, "p_dynamic": 0.08,
            "min_reqs": 5, "max_reqs": 8},
}


def gen_hosts(rng, n):
    """(x-piko-endpoint value, Host) pairs for the direct comparison of EndpointIDFromRequest with the model"""
    labels = ["e", "e1", "E", "other", "a-b", "x_y", "0", "1", "255", "256", "01", "example", "com", "localhost", "", "f"]
    v6 = ["::1", "::", "2001:db8::68", "::ffff:1.2.3.4", "1:2:3:4:5:6:7:8", "1:2:3:4:5:6:7:8:9", "1::2::3", "fe80::1%eth0", "::1.2.3.4", "1:2:3:4:5:6:1.2.3.4",
          "1:2:3:4:5:1.2.3.4", "12345::", "g::1", ":", ":::", "1:", ":1", "::ffff:1.2.3.256", "::ffff:01.2.3.4", "1:2:3:4:5:6:7::", "1:2:3:4:5:6:7:8::",
          "::1:2:3:4:5:6:7", "::1:2:3:4:5:6:7:8", "a:b:c:d:e:f:0:1", "A:B::", "1.2.3.4::", "::1.2.3", "1::1.2.3.4.5", "::%", "%", "1.2.3.4%e"]
    out = []
    for _ in range(n):
        r = rng.random()
        if r < 0.45:
            host = ".".join(rng.choice(labels) for _ in range(rng.randint(1, 5)))
        elif r < 0.6:
            host = ".".join(str(rng.choice([0, 1, 9, 10, 99, 100, 255, 256, 300, "01", "00", ""])) for _ in range(rng.choice([3, 4, 4, 4, 5])))
        elif r < 0.8:
            host = rng.choice(v6)
        else:
            host = "".join(rng.choice("e.:[]0a%-") for _ in range(rng.randint(0, 9)))
        r = rng.random()
        if r < 0.25:
            host = host + ":" + rng.choice(["80", "8000", "", "x", "80:90"])
        elif r < 0.4:
            host = "[" + host + "]" + rng.choice([":80", "", ":", "x", ":80:1", "]:80"])
        elif r < 0.45:
            host = rng.choice(["[", "]", ":", " "]) + host
        hdr = rng.choice(EPS + [" e", "1.2.3.4"]) if rng.random() < 0.08 else ""
        out.append((hdr, host))
    return out


# ---------------------------------------------------------------- harness
def strip_case(c):
    return {k: v for k, v in c.items() if k != "kind"}


def run_clusters(binary, wd, clusters, hosts=(), tag="px"):
    inp = {"clusters": [strip_case(c) for c in clusters], "hosts": [[H(a), H(b)] for a, b in hosts]}
    out, logtxt = run_harness(binary, inp, wd, tag=tag, test=TEST, timeout=900)
    if out is None:
        raise RuntimeError("proxy harness run failed:\n" + logtxt)
    return out


# ---------------------------------------------------------------- python-side reading of requests (independent of the Coq model)
def hdr_first(headers, name):
    for a, b in headers:
        if U(a).lower() == name:
            return U(b)
    return None


def py_endpoint(headers, host):
    """what endpoint a request addresses on the HTTP route; '' if none. Deliberately written differently from the model."""
    v = hdr_first(headers, "x-piko-endpoint")
    if v:
        return v
    m = re.match(r"^\[([^\[\]]*)\]:([^:\[\]]*)$", host)
    if m:
        host = m.group(1)
    elif host.count(":") == 1 and "[" not in host and "]" not in host:
        host = host.split(":")[0]
    if host == "":
        return ""
    try:
        ipaddress.ip_address(host)
        return ""
    except ValueError:
        pass
    if "." not in host:
        return ""
    return host.split(".")[0]


def addressed(rq):
    if rq["kind"] == "tcp":
        if rq.get("pct"):
            # the segment as it stands in the request line is percent-encoded ONCE (what a client does for an id with a '%')
            import urllib.parse
            return urllib.parse.unquote(U(rq["seg"]))
        return U(rq["seg"])
    return py_endpoint(rq["headers"], U(rq["host"]))


def conn_tokens(headers):
    toks = []
    for a, b in headers:
        if U(a).lower() == "connection":
            toks += [t.strip(" \t").lower() for t in U(b).split(",") if t.strip(" \t")]
    return toks


def client_forwarded(rq):
    return hdr_first(rq["headers"], "x-piko-forward") == "true"


def is_ws(rq):
    v = hdr_first(rq["headers"], "upgrade")
    return v is not None and v.lower() == "websocket"


def local_ups(node, ep):
    return [u_ for u_ in node["upstreams"] if U(u_["ep"]) == ep]


# ---------------------------------------------------------------- monitors: the properties' own predicates on the observed behaviour
def fail(sig, why, **kw):
    d = {"sig": sig, "why": why}
    d.update(kw)
    return d


def monitor_c01(cl, ri, rq, ob):
    ep = addressed(rq)
    if is_env_fault(rq):
        # an upstream that dies in the middle of its answer / a half-closing client (C08's business): only the addressing clause applies
        if ob.get("stamped") and U(ob["stamp_ep"]) != ep:
            return fail("wrong-endpoint", "request addressed to endpoint %r was delivered to an upstream of endpoint %r" % (ep, U(ob["stamp_ep"])))
        return None
    if rq["kind"] == "tcp" and ob["status"] == 101 and not ob.get("stamped"):
        # the stream was attached to an upstream that closed it at once: only legitimate for a scripted 'reset' upstream of this endpoint
        if not any(U(u_["ep"]) == ep and u_["beh"] == "reset" for n in cl["nodes"] for u_ in n["upstreams"]):
            return fail("wrong-endpoint", "TCP stream for endpoint %r was attached (101) but no upstream of that endpoint stamped it" % ep)
    elif ob.get("stamped"):
        se, su = U(ob["stamp_ep"]), U(ob["stamp_up"])
        if se != ep:
            return fail("wrong-endpoint", "request addressed to endpoint %r was delivered to an upstream of endpoint %r" % (ep, se))
        owners = [n["id"] for n in cl["nodes"] if any(U(u_["id"]) == su and U(u_["ep"]) == ep for u_ in n["upstreams"])]
        if not owners:
            return fail("wrong-endpoint", "stamp names upstream %r which is not registered for endpoint %r anywhere" % (su, ep))
    else:
        if ob["status"] not in (400, 401, 502, 504):
            return fail("status-class", "request not delivered to an upstream was answered %d (expected a gateway error 400/401/502/504)" % ob["status"])
    if rq["kind"] == "http" and ep != "" and not is_ws(rq):
        # whatever the views say: a node that has connected, healthy upstreams for E serves E itself
        mine = local_ups(cl["nodes"][rq["entry"]], ep)
        if mine and all(u_["beh"] == "answer" and u_.get("delay_ms", 0) < cl["timeout_ms"] // 2 for u_ in mine) \
                and (rq.get("resp") or {}).get("delay_ms", 0) < cl["timeout_ms"] // 2 and not ob.get("stamped"):
            return fail("local-available", "node %s has %d connected upstream(s) for %r but answered %d itself"
                        % (cl["nodes"][rq["entry"]]["id"], len(mine), ep, ob["status"]))
    if cl["kind"] == "consistent" and rq["kind"] == "http" and ep != "" and not client_forwarded(rq):
        have = any(local_ups(n, ep) for n in cl["nodes"])
        if have and not ob.get("stamped"):
            return fail("settled", "views equal the truth and a node has an upstream for %r but the request was answered %d by piko" % (ep, ob["status"]))
        if not have and ob["status"] != 502:
            return fail("settled", "no node has an upstream for %r but the answer was %d, not 502" % (ep, ob["status"]))
    if cl["kind"] == "consistent" and rq["kind"] == "tcp" and not client_forwarded(rq):
        have = any(local_ups(n, ep) for n in cl["nodes"])
        if have and ob["status"] != 101:
            return fail("settled", "TCP route: a node has an upstream for %r but the dial was answered %d" % (ep, ob["status"]))
        if not have and ob["status"] != 502:
            return fail("settled", "TCP route: no node has an upstream for %r but the answer was %d" % (ep, ob["status"]))
    return None


def monitor_c06(cl, ri, rq, ob):
    inv = ob["inv"]
    if ob.get("inv_unattributed") or ob.get("up_unattributed"):
        return fail("lost-marker", "a handler invocation or upstream request lost the end-to-end request tag")
    if sum(inv) > 2:
        return fail("hops", "%d proxy handler invocations for one client request (per node %s)" % (sum(inv), inv))
    if inv[rq["entry"]] < 1:
        return fail("hops", "entry node handler not invoked: %s" % inv)
    if len(ob["up_reqs"]) > 1:
        return fail("amplification", "%d upstream requests for one client request" % len(ob["up_reqs"]))
    if ob.get("reset_hits", 0) + max(0, sum(inv) - 1) > 1:
        return fail("amplification", "the request was delivered to %d other node(s) that reset the connection after reading it, and to %d node(s) that ran their handler: one client request, one inter-node request"
                    % (ob.get("reset_hits", 0), max(0, sum(inv) - 1)))
    ep = addressed(rq)
    if client_forwarded(rq) and sum(inv) != 1:
        return fail("forwarded-again", "a request already marked x-piko-forward: true was forwarded again (invocations %s)" % inv)
    entry = cl["nodes"][rq["entry"]]
    if ep != "" and local_ups(entry, ep):
        if sum(inv) != 1:
            return fail("local-first", "entry node has a local upstream for %r but the request took %d handler invocations %s" % (ep, sum(inv), inv))
        if ob.get("stamped") and U(ob["stamp_up"]) not in [U(u_["id"]) for u_ in local_ups(entry, ep)]:
            return fail("local-first", "entry node has a local upstream for %r but upstream %r answered" % (ep, U(ob["stamp_up"])))
    if sum(inv) == 2 and ob["up_reqs"]:
        rec = ob["up_reqs"][0]
        fw = [U(v) for nme, v in rec["headers"] if nme.lower() == "x-piko-forward"]
        if fw != ["true"]:
            return fail("lost-marker", "upstream behind a forwarded request saw x-piko-forward = %s" % fw)
    return None


REQ_IGNORE = {"x-forwarded-for", "x-piko-forward", "content-length", "transfer-encoding", "connection", "accept-encoding"}
# x-forwarded-for / x-piko-forward: written by every hop (their exact value is checked by the model correspondence)
# content-length / transfer-encoding: framing, re-done per hop (the body bytes are compared instead)
# connection: hop-by-hop; http.Transport adds "Connection: close" (DisableKeepAlives)
# accept-encoding: http.Transport adds "gzip" when the client sent none (compared when the client sent one)
RESP_IGNORE = {"date", "content-length", "transfer-encoding", "connection", "x-vh-stamp-ep", "x-vh-stamp-up"}


def e2e_view(headers, ignore, extra_hop=()):
    """{lower name: [values]} of end-to-end headers; headers = [(name, value)] decoded"""
    toks = set()
    for a, b in headers:
        if a.lower() == "connection":
            toks |= {t.strip(" \t").lower() for t in b.split(",") if t.strip(" \t")}
    out = {}
    for a, b in headers:
        n = a.lower()
        if n in HOP or n in toks or n in ignore or n in extra_hop:
            continue
        out.setdefault(n, []).append(b)
    return out


def monitor_c08(cl, ri, rq, ob):
    if rq["kind"] != "http":
        return None
    ep = addressed(rq)
    st = ob["status"]
    stamped = ob.get("stamped")
    if is_cut(rq) and (stamped or ob.get("err")):
        # the upstream died in the middle of its response body: whatever the client is shown, it must not be a COMPLETE
        # response (that would be a truncated body passed off as the upstream's answer); a connection that ends before
        # or inside the response is the honest outcome
        if not ob.get("err"):
            return fail("truncated-as-complete", "the upstream died after %d of %d body bytes, the client was shown a complete %d response with %d bytes"
                        % (rq["resp"]["cut_after"], body_len(rq["resp"].get("body")), st, (ob.get("resp") or {}).get("body_len", -1)))
        return None
    if rq.get("burst", 0) > 1:
        # the same request sent several times at once to an upstream that answers each copy after delay_ms: every copy gets the
        # upstream's answer; a 504 is only ever piko's answer to an upstream that did not answer in time, and this one did
        want = rq["resp"]["status"]
        bad = [(k, st_) for k, st_ in enumerate(ob.get("burst_status") or []) if st_ != want or not (ob.get("burst_stamped") or [])[k]]
        if bad:
            return fail("burst", "%d copies of the request were sent at once to a healthy upstream (answers after %d ms, proxy timeout %d ms): copy %d was answered %d%s; statuses %s, times %s ms"
                        % (rq["burst"], rq["resp"].get("delay_ms", 0), cl["timeout_ms"], bad[0][0], bad[0][1],
                           "" if (ob.get("burst_stamped") or [])[bad[0][0]] else " by piko itself", ob.get("burst_status"), ob.get("burst_ms")))
        return None
    if rq.get("half_close"):
        # a client that has shut down its sending side still gets an answer: the upstream's, or one of piko's own
        # gateway answers (net/http cancels the request when it sees the FIN; 502 is what the proxy makes of that)
        if ob.get("err"):
            return fail("hang", "half-closing client saw no complete HTTP answer: %s" % ob["err"])
        if not stamped and st not in (400, 502, 504):
            return fail("fabricated", "piko itself answered a half-closing client %d (only 400/502/504 are its own)" % st)
        return None
    if ob.get("err"):
        return fail("hang", "client saw no complete HTTP answer: %s" % ob["err"])
    if ep == "" and not (st == 400 and not stamped):
        return fail("status-400", "no endpoint derivable but the answer was %d" % st)
    if ep != "" and st == 400 and not stamped:
        return fail("status-400", "endpoint %r derivable but piko answered 400" % ep)
    if not stamped and st not in (400, 502, 504):
        return fail("fabricated", "piko itself answered %d (only 400/502/504 are its own)" % st)
    if cl["kind"] == "timeout" and ep in ("s", "w"):
        # the slow upstream is reached from the entry node when it is connected there, or - for a request that does not carry the
        # forward marker already - when the entry node's view lists an active node advertising the endpoint; a marked request
        # entering elsewhere is answered 502 at once (C06), and so is one the entry node cannot route (false alarm l, DESIGN 9)
        entry = cl["nodes"][rq["entry"]]
        routed = bool(local_ups(entry, ep)) or (not client_forwarded(rq) and any(
            v.get("status", "active") == "active" and any(U(e_) == ep and n_ > 0 for e_, n_ in v["eps"]) for v in entry["view"]))
        if ep == "s" and not is_ws(rq) and routed and st != 504:
            return fail("status-504", "upstream slower than the %d ms timeout but the answer was %d, not 504" % (cl["timeout_ms"], st))
        if ep == "s" and not is_ws(rq) and not routed and st != 502:
            return fail("status-502", "the entry node has no route to %r (no local upstream%s) but the answer was %d, not 502"
                        % (ep, ", request already marked as forwarded" if client_forwarded(rq) else ", empty view", st))
        if ep == "w" and is_ws(rq) and (st == 504 or not stamped):
            return fail("ws-timeout", "websocket upgrade (Upgrade: %s) had the proxy timeout applied: %d" % (hdr_first(rq["headers"], "upgrade"), st))
    elif st == 504 and not stamped:
        return fail("status-504", "504 although no upstream is slower than the timeout")
    if cl["kind"] in ("consistent", "timeout") and ep != "" and not client_forwarded(rq):
        have = [u_ for n in cl["nodes"] for u_ in local_ups(n, ep)]
        if not have and st != 502:
            return fail("status-502", "no upstream for %r anywhere but the answer was %d" % (ep, st))
    if stamped:
        if len(ob["up_reqs"]) != 1:
            return fail("transparent-req", "%d upstream records for an answered request" % len(ob["up_reqs"]))
        rec = ob["up_reqs"][0]
        want_body = body_digest(rq.get("body"))
        got = {"method": U(rec["method"]), "uri": U(rec["uri"]), "host": U(rec["host"]), "body": digest(rec["body_sha"], rec["body_len"])}
        want = {"method": rq["method"], "uri": U(rq["target"]), "host": U(rq["host"]), "body": want_body}
        if want["host"] == "" and got["host"] == ep:
            # observed quirk, outside the property's precondition (an http request must carry a non-empty Host, RFC 7230 5.4):
            # a request that arrives with an EMPTY Host header reaches the upstream with Host = <endpoint id>
            # (Director sets URL.Host, http.Transport falls back to it). Modelled in Proxy/Http.v; counted, not an alarm.
            ob["_empty_host_rewritten"] = True
            got["host"] = want["host"]
        for k in ("method", "uri", "host", "body"):
            if got[k] != want[k]:
                return fail("transparent-req", "%s changed on the way to the upstream: sent %r, upstream saw %r" % (k, want[k][:200], got[k][:200]))
        sent = [(U(a), U(b)) for a, b in rq["headers"]] + [("X-Vh-Req", ob["key"])]
        ign = set(REQ_IGNORE)
        if any(a.lower() == "accept-encoding" for a, _ in sent):
            ign.discard("accept-encoding")
        # control headers the client lists in Connection are deliberately kept by piko (fix H1/H2): not part of this comparison
        # (what the client itself declares hop-by-hop through Connection is left out on both sides as well)
        ctl = set(conn_tokens(rq["headers"]))
        w = e2e_view(sent, ign, ctl)
        g = e2e_view([(a, U(b)) for a, b in rec["headers"]], ign, ctl)
        if w != g:
            diff = {k: (w.get(k), g.get(k)) for k in set(w) | set(g) if w.get(k) != g.get(k)}
            return fail("transparent-req", "end-to-end request headers changed (sent, seen): %s" % json.dumps(diff, sort_keys=True)[:400])
        if is_ws(rq) and "upgrade" in ctl:
            # an announced websocket upgrade reaches the upstream as an upgrade (Upgrade is hop-by-hop, the proxy re-adds it)
            up_sent = hdr_first(rq["headers"], "upgrade")
            up_seen = [U(b) for a, b in rec["headers"] if a.lower() == "upgrade"]
            up_conn = [t for a, b in rec["headers"] if a.lower() == "connection" for t in U(b).lower().replace(" ", "").split(",")]
            if up_seen != [up_sent] or "upgrade" not in up_conn:
                return fail("ws-upgrade-lost", "websocket upgrade (Upgrade: %s, Connection: %s) reached the upstream with Upgrade %r, Connection tokens %r"
                            % (up_sent, [U(b) for a, b in rq["headers"] if U(a).lower() == "connection"], up_seen, up_conn))
        spec = rq["resp"]
        if st != spec["status"]:
            return fail("transparent-resp", "upstream answered %d, client saw %d" % (spec["status"], st))
        rs = ob["resp"]
        if digest(rs["body_sha"], rs["body_len"]) != body_digest(spec.get("body")):
            return fail("transparent-resp", "response body changed: upstream sent %s, client saw %s:%d" % (body_digest(spec.get("body")), rs["body_sha"], rs["body_len"]))
        w = e2e_view([(U(a), U(b)) for a, b in spec["headers"]], RESP_IGNORE)
        g = e2e_view([(a, U(b)) for a, b in rs["headers"]], RESP_IGNORE)
        if w != g:
            diff = {k: (w.get(k), g.get(k)) for k in set(w) | set(g) if w.get(k) != g.get(k)}
            return fail("transparent-resp", "end-to-end response headers changed (sent, seen): %s" % json.dumps(diff, sort_keys=True)[:400])
    return None


MONITORS = {"C01": monitor_c01, "C06": monitor_c06, "C08": monitor_c08}


def run_monitor(pid, clusters, outs):
    """returns [(cluster index, request index, failure)]"""
    res = []
    mon = MONITORS[pid]
    for ci, (cl, co) in enumerate(zip(clusters, outs)):
        if co.get("panic"):
            res.append((ci, len(co.get("requests") or []), fail("panic", "harness panic/watchdog: " + co["panic"])))
            continue
        for pc, po, ris in phases(cl, co):
            for k, (rq, ob) in enumerate(zip(pc["requests"], po["requests"])):
                f = mon(pc, k, rq, ob)
                if f:
                    res.append((ci, ris[k], f))
    return res


# ---------------------------------------------------------------- trace -> Coq
# Coq elaborates string literals slowly (and pays ~30 ms for every distinct character it meets), so every string crosses
# hex encoded and every distinct string of a cases file is defined once (s0, s1, ...) and referenced by name.
import threading
_tbl = threading.local()


def cs(s):
    t = getattr(_tbl, "t", None)
    if t is None:
        return '(h "%s")' % H(s)
    if s not in t:
        t[s] = "s%d" % len(t)
    return t[s]


def with_table(build):
    """run build() with string interning on; returns (definition lines, result of build)"""
    _tbl.t = {}
    try:
        res = build()
        defs = ['Definition %s := h "%s".' % (name, H(s_)) for s_, name in _tbl.t.items()]
    finally:
        _tbl.t = None
    return defs, res


def short(dg):
    """digest as handed to Coq (64 bits of the sha256 + length; the python monitor compares the full digest)"""
    sha, n = dg.split(":")
    return sha[:16] + ":" + n


def c_hdrs(hs):
    return coq_list(["(%s, %s)" % (cs(a), cs(b)) for a, b in hs])


def c_request(method, uri, host, headers, body_dig):
    path, q = (uri.split("?", 1) + [None])[:2] if "?" in uri else (uri, None)
    qs = "None" if q is None else "(Some %s)" % cs(q)
    return "(mkReq %s %s %s %s %s %s)" % (cs(method), cs(path), qs, cs(host), c_hdrs(headers), cs(short(body_dig)))


def c_upstream(u_):
    beh = {"answer": "(UAnswer %d%%Z)" % u_.get("delay_ms", 0), "dialfail": "UDialFail", "reset": "UReset"}[u_["beh"]]
    return "(mkU %s %s %s)" % (cs(U(u_["id"])), cs(U(u_["ep"])), beh)


def c_ventry(v):
    st = {"active": "Active", "unreachable": "Unreachable", "left": "Left"}[v["status"]]
    return "(mkV %s %s %s %s)" % (cs(v["id"]), st, cs(v["addr"]), coq_list(["(%s, (%d)%%Z)" % (cs(U(e)), n) for e, n in v["eps"]]))


def dedup_view(vs):
    """AddNode on an existing id replaces the node (state.go:224): the last entry per id wins, as in the Go map"""
    out = {}
    for v in vs:
        out[v["id"]] = v
    return list(out.values())


def model_request(rq, key):
    """the request as the entry node's handler sees it"""
    # net/http hands header values to the handler without leading/trailing blanks
    hs = [(U(a), U(b).strip(" \t")) for a, b in rq["headers"]] + [("X-Vh-Req", key)]
    if rq["kind"] == "tcp":
        hs += [("Upgrade", "websocket"), ("Connection", "Upgrade"), ("Sec-WebSocket-Key", "x"), ("Sec-WebSocket-Version", "13")]
        return c_request("GET", "/_piko/v1/tcp/" + U(rq["seg"]), U(rq["host"]) or "127.0.0.1:0", hs, body_digest(None))
    return c_request(rq["method"], U(rq["target"]), U(rq["host"]), hs, body_digest(rq.get("body")))


def canon_record(rq, rec):
    """recorded upstream request -> model request; the documented environment additions are removed:
       'Accept-Encoding: gzip' added by http.Transport when the client sent no Accept-Encoding;
       'Connection: close' added by http.Transport (DisableKeepAlives)"""
    client_ae = any(U(a).lower() == "accept-encoding" for a, _ in rq["headers"])
    hs = []
    for nme, v in rec["headers"]:
        val = U(v)
        if nme.lower() == "accept-encoding" and not client_ae and val == "gzip":
            continue
        if nme.lower() == "connection" and val == "close":
            continue
        hs.append((nme, val))
    return c_request(U(rec["method"]), U(rec["uri"]), U(rec["host"]), hs, digest(rec["body_sha"], rec["body_len"]))


def c_obs(rq, ob):
    stamp = "None"
    if ob.get("stamped"):
        stamp = "(Some (%s, %s))" % (cs(U(ob["stamp_ep"])), cs(U(ob["stamp_up"])))
    ups = coq_list([canon_record(rq, r) for r in ob["up_reqs"]]) if rq["kind"] == "http" else "[]"
    rh, rb = [], ""
    if ob.get("resp") and rq["kind"] == "http":
        rh = [(a, U(b)) for a, b in ob["resp"]["headers"] if a.lower() not in ("x-vh-stamp-ep", "x-vh-stamp-up", "date", "content-length")
              and not (a.lower() == "connection" and U(b) == "close")]
        rb = short(digest(ob["resp"]["body_sha"], ob["resp"]["body_len"]))
    status = ob["status"] if not ob.get("err") or rq["kind"] == "tcp" else 0
    return "(mkOb %d%%N %s %s %s %s %s)" % (status, stamp, coq_list(["%d%%nat" % x for x in ob["inv"]]), ups, c_hdrs(rh), cs(rb))


def c_resp(rq):
    if rq["kind"] != "http":
        return '(mkResp 101%N [] (h ""))'
    sp = rq["resp"]
    return "(mkResp %d%%N %s %s)" % (sp["status"], c_hdrs([(U(a), U(b)) for a, b in sp["headers"]]), cs(short(body_digest(sp.get("body")))))


def case_to_coq(cl, co):
    nodes = []
    for i, n in enumerate(cl["nodes"]):
        nodes.append("(mkPN %s %s %d%%Z %s %s)" % (cs(n["id"]), cs("node:%d" % i), cl["timeout_ms"],
                                                 coq_list([c_upstream(u_) for u_ in n["upstreams"]]),
                                                 coq_list([c_ventry(v) for v in dedup_view(n["view"])])))
    reqs = []
    for ri, (rq, ob) in enumerate(zip(cl["requests"], co["requests"])):
        if is_env_fault(rq):
            continue        # always last in a cluster; the model has no notion of a response that ends half way / a half-closed client
        reqs.append("(mkPQ %d%%nat %s %s, %s)" % (rq["entry"], model_request(rq, ob["key"]), c_resp(rq), c_obs(rq, ob)))
    return "(mkPC %s %s)" % (coq_list(nodes), coq_list(reqs))


def dyn_case_to_coq(cl, co):
    """a dynamic cluster as ONE model history (Proxy/Dynamic.v): the registry ops are told, what the proxies themselves do to the
    registry (deregistering a go-away upstream at its first dial) is not - the model has to predict it.
    returns (text, [original request index of every item])"""
    gone0, nodes = [], []
    MB = {"gone": "answer", "dialfail_once": "dialfail"}
    for i, n in enumerate(cl["nodes"]):
        ups = []
        for u_ in n["upstreams"]:
            if u_["beh"] == "gone":
                gone0.append(U(u_["id"]))
            ups.append(c_upstream(dict(u_, beh=MB.get(u_["beh"], u_["beh"]))))
        nodes.append("(mkPN %s %s %d%%Z %s %s)" % (cs(n["id"]), cs("node:%d" % i), cl["timeout_ms"], coq_list(ups),
                                                 coq_list([c_ventry(v) for v in dedup_view(n["view"])])))
    reg = {i: {u_["id"]: u_["ep"] for u_ in n["upstreams"]} for i, n in enumerate(cl["nodes"])}
    items, idx = [], []
    for ri, (rq, ob) in enumerate(zip(cl["requests"], co["requests"])):
        if rq["kind"] == "connect":
            u_ = rq["up"]
            assert u_["beh"] in ("answer", "dialfail", "reset")
            reg[rq["entry"]][u_["id"]] = u_["ep"]
            items.append("(DOp (DConnect %d%%nat %s))" % (rq["entry"], c_upstream(u_))); idx.append(ri)
        elif rq["kind"] == "disconnect":
            ep = reg[rq["entry"]].pop(rq["up_id"], H(""))
            items.append("(DOp (DDisconnect %d%%nat %s %s))" % (rq["entry"], cs(U(ep)), cs(U(rq["up_id"])))); idx.append(ri)
        else:
            items.append("(DReq (mkPQ %d%%nat %s %s) %s)" % (rq["entry"], model_request(rq, ob["key"]), c_resp(rq), c_obs(rq, ob))); idx.append(ri)
            for a in rq.get("_after") or []:
                if a[0] == "beh":       # environment: the listener recovers (remove = the proxy's own doing: not told)
                    b = {"answer": "(UAnswer 0%Z)", "dialfail": "UDialFail", "reset": "UReset"}[a[3]]
                    items.append("(DOp (DSetBeh %s %s))" % (cs(a[2]), b)); idx.append(ri)
    return "(mkDC %s %s %s)" % (coq_list(nodes), coq_list([cs(g) for g in gone0]), coq_list(items)), idx


PRELUDE = ["From Coq Require Import List String NArith ZArith Bool.",
           "From Piko Require Import Base.Maps Base.Strs Proxy.Endpoint Proxy.Http Proxy.Route Proxy.Dynamic Run.Run_Proxy Run.Run_ProxyDyn.",
           "Import ListNotations. Open Scope string_scope. Open Scope list_scope."]

CODE_NAMES = {1: "status/stamp", 2: "invocation-counts", 3: "upstream-request-line/host/body", 4: "upstream-request-headers", 5: "client-response"}


def parse_m(out):
    m = re.search(r"M\s*=\s*(.*?)\s*:\s*list", out, flags=re.S)
    if not m:
        return None
    txt = m.group(1).strip().replace("%nat", "")
    if txt == "[]":
        return []
    return [(int(a), int(b), [int(x) for x in re.findall(r"\d+", c)])
            for a, b, c in re.findall(r"\(\s*(\d+)\s*,\s*(\d+)\s*,\s*\[([^\]]*)\]\s*\)", txt)]


def correspondence(pid, wd, clusters, outs, shard=16, tag="px"):
    """model vs implementation inside Coq; returns [{case, req, codes, names}]"""
    # clusters whose upstreams sit behind a real agent reverse proxy are monitor-only: the model has no third hop
    ok = [((i, ris), pc, po) for i, (c, o) in enumerate(zip(clusters, outs))
          if not o.get("panic") and len(o["requests"]) == len(c["requests"]) and not c.get("via_agent") and (not c.get("dynamic") or c.get("views_change")) and not c.get("auth")
          for pc, po, ris in phases(c, o)]
    jobs = [ok[i:i + shard] for i in range(0, len(ok), shard)]
    dyn = [(i, c, o) for i, (c, o) in enumerate(zip(clusters, outs))
           if c.get("dynamic") and not c.get("views_change") and not c.get("auth") and not o.get("panic") and len(o["requests"]) == len(c["requests"])]

    def work(arg):
        ji, job = arg
        defs, txt = with_table(lambda: ";\n".join(case_to_coq(c, o) for _, c, o in job))
        body = PRELUDE + defs + ["Definition cases : list pcase := [", txt, "].",
                                 "Definition M := Eval vm_compute in mismatches cases.", "Print M."]
        rc, out = coq_eval(wd, "Cases_%s_%s_%d" % (pid, tag, ji), "\n".join(body) + "\n")
        mm = parse_m(out)
        if rc != 0 or mm is None:
            raise RuntimeError("coq evaluation of proxy cases failed:\n" + out[-3000:])
        res = []
        for c, r, codes in mm:
            (ci, ris), pc, _ = job[c]
            kept = [ris[k] for k, rq in enumerate(pc["requests"]) if not is_env_fault(rq)]      # the model skips environment faults
            res.append((ci, kept[r] if r < len(kept) else ris[-1], codes))
        return res

    def dwork(arg):
        ji, job = arg
        maps = []

        def build():
            parts = []
            for _, c, o in job:
                t, idx = dyn_case_to_coq(c, o)
                parts.append(t); maps.append(idx)
            return ";\n".join(parts)
        defs, txt = with_table(build)
        body = PRELUDE + defs + ["Definition cases : list dcase := [", txt, "].",
                                 "Definition M := Eval vm_compute in dyn_mismatches cases.", "Print M."]
        rc, out = coq_eval(wd, "Cases_%s_%s_dyn%d" % (pid, tag, ji), "\n".join(body) + "\n")
        mm = parse_m(out)
        if rc != 0 or mm is None:
            raise RuntimeError("coq evaluation of dynamic proxy cases failed:\n" + out[-3000:])
        return [(job[c][0], maps[c][r] if r < len(maps[c]) else 0, codes) for c, r, codes in mm]

    djobs = [dyn[i:i + shard] for i in range(0, len(dyn), shard)]
    dis = []
    with cf.ThreadPoolExecutor(max_workers=8) as ex:
        for res in list(ex.map(work, list(enumerate(jobs)))) + list(ex.map(dwork, list(enumerate(djobs)))):
            for ci, ri, codes in res:
                dis.append({"case": ci, "req": ri, "codes": codes, "names": [CODE_NAMES.get(x, str(x)) for x in codes]})
    return dis


def host_correspondence(pid, wd, hosts, results, shard=1300, tag="px"):
    jobs = [(i, hosts[i:i + shard], results[i:i + shard]) for i in range(0, len(hosts), shard)]

    def work(job):
        si, hs, rs = job
        defs, items = with_table(lambda: ["(%s, %s, %s)" % (cs(a), cs(b), cs(U(r))) for (a, b), r in zip(hs, rs)])
        body = PRELUDE + defs + ["Definition hosts : list (string * string * string) := [", ";\n".join(items), "].",
                          "Definition M := Eval vm_compute in host_mismatches hosts.", "Print M."]
        rc, out = coq_eval(wd, "Hosts_%s_%s_%d" % (pid, tag, si), "\n".join(body) + "\n")
        m = re.search(r"M\s*=\s*(.*?)\s*:\s*list", out, flags=re.S)
        if rc != 0 or not m:
            raise RuntimeError("coq evaluation of host cases failed:\n" + out[-3000:])
        return [si + int(x) for x in re.findall(r"\d+", m.group(1).replace("%nat", ""))]

    bad = []
    with cf.ThreadPoolExecutor(max_workers=4) as ex:
        for r in ex.map(work, jobs):
            bad += r
    return bad


# ---------------------------------------------------------------- shrinking
def single_request_case(cl, ri):
    c = copy.deepcopy(cl)
    if cl.get("dynamic"):
        c["requests"] = c["requests"][:ri + 1]       # the history up to the request is part of the input
        return c
    c["requests"] = [c["requests"][ri]]
    c["id"] = cl["id"] + "-r%d" % ri
    return c


def shrink(pid, binary, wd, cl, ri, sig):
    """smallest replayable case: the single request on its cluster if that still fails, then without nodes / view entries /
    headers that do not matter"""
    mon = MONITORS[pid]
    if cl.get("dynamic"):
        c = copy.deepcopy(cl)
        last = ri
        c["requests"] = c["requests"][:last + 1]
        return c

    def fails(c):
        try:
            o = run_clusters(binary, wd, [c], tag="shrink")["clusters"][0]
        except Exception:
            return False
        if o.get("panic"):
            return sig == "panic"
        for i, (rq, ob) in enumerate(zip(c["requests"], o["requests"])):
            f = mon(c, i, rq, ob)
            if f and f["sig"] == sig:
                return True
        return False

    cand = single_request_case(cl, ri)
    if not fails(cand):
        cand = copy.deepcopy(cl)
        cand["requests"] = cand["requests"][:ri + 1]
        if not fails(cand):
            return cl
        return cand
    # drop headers one at a time
    changed = True
    rounds = 0
    while changed and rounds < 30:
        changed = False
        rounds += 1
        hs = cand["requests"][0]["headers"]
        for i in range(len(hs)):
            c2 = copy.deepcopy(cand)
            del c2["requests"][0]["headers"][i]
            if fails(c2):
                cand = c2
                changed = True
                break
        if changed:
            continue
        for n in range(len(cand["nodes"])):
            for vi in range(len(cand["nodes"][n]["view"])):
                c2 = copy.deepcopy(cand)
                del c2["nodes"][n]["view"][vi]
                if fails(c2):
                    cand = c2
                    changed = True
                    break
            if changed:
                break
    return cand


# ---------------------------------------------------------------- the shared run
def nontrivial_key(cl, rq, ob):
    """a request is non-trivial when it reached a second node, an upstream, or a gateway decision other than 'no endpoint'"""
    return json.dumps([cl["kind"], len(cl["nodes"]), rq["kind"], rq.get("method"), rq.get("target"), rq["host"], rq["headers"], rq["entry"],
                       [(n["upstreams"], n["view"]) for n in cl["nodes"]]], sort_keys=True)


def run_property(ctx, pid, nclusters_quick, nhosts):
    rng = random.Random(ctx["seed"])
    tier = ctx["tier"]
    nclusters = nclusters_quick if tier == "quick" else nclusters_quick * 15
    profile = PROFILES[pid]
    clusters = corpus() + [gen_dynamic_cluster(random.Random(7 + k), "corpus-dyn-" + sc, sc) for k, sc in enumerate(["reconnect", "twins", "goaway", "flaky", "moves"])] \
        + [gen_tls_cluster(random.Random(77), "corpus-tls"), reset_cluster("corpus-reset"), percent_cluster("corpus-percent")] \
        + ([marked_timeout_cluster("corpus-timeout-marked"), agent_burst_cluster("corpus-agent-burst"), empty_404_cluster("corpus-empty-404", False), empty_404_cluster("corpus-empty-404-b", False),
            empty_404_cluster("corpus-empty-404-agent", True)] if pid == "C08" else []) \
        + [gen_cluster(rng, "g%d" % i, profile) for i in range(nclusters)]
    hosts = gen_hosts(rng, nhosts if tier == "quick" else nhosts * 10)
    for hp in ["e.example.com", "e.example.com:8000", "1.2.3.4", "[::1]:80", "localhost", "", "e.example.com.", "a.b:c:d", "[e.x]:80", "[::ffff:1.2.3.4]"]:
        hosts.insert(0, ("", hp))
    binary = build_harness(PKG)
    t0 = time.time()
    out = run_clusters(binary, ctx["wd"], clusters, hosts)
    t_h = time.time() - t0
    outs = out["clusters"]
    violations, known = [], []
    kf = [k for k in known_findings() if k["kind"] == "known" and k["property"] == pid]

    mon_fail = run_monitor(pid, clusters, outs)
    # proxy ports that verify tokens (monitor only): an authorised request is served from whichever node it enters - the token
    # survives the inter-node hop - and only by an upstream of the endpoint the token was checked for
    tclusters = [gen_token_cluster(random.Random(ctx["seed"] * 131 + i), "tok%d" % i) for i in range(3 if tier == "quick" else 30)]
    touts = run_clusters(binary, ctx["wd"], tclusters, tag="tok")["clusters"]
    for cl, co in zip(tclusters, touts):
        bad = None
        if co.get("panic"):
            bad = (len(co.get("requests") or []), fail("panic", "harness panic/watchdog: " + co["panic"]))
        else:
            for ri, (rq, ob) in enumerate(zip(cl["requests"], co["requests"])):
                f = monitor_token_path(cl, ri, rq, ob)
                if f:
                    bad = (ri, f)
                    break
        if bad:
            ri, f = bad
            violations.append({"what": "%s monitor, authenticated proxy ports [%s]: %s (cluster %s, request %d)" % (pid, f["sig"], f["why"], cl["id"], ri), "found_input": True,
                               "replay_obj": {"property": pid, "kind": "token-path", "signature": f["sig"], "why": f["why"], "cluster": dict(cl, requests=cl["requests"][:ri + 1])}})
            break
    t0 = time.time()
    dis = correspondence(pid, ctx["wd"], clusters, outs)
    bad_hosts = host_correspondence(pid, ctx["wd"], hosts, out["hosts"])
    t_c = time.time() - t0
    log("[%s] harness %.1fs, coq correspondence %.1fs, %d clusters, %d requests, %d hosts" % (
        pid, t_h, t_c, len(clusters), sum(len(c["requests"]) for c in clusters), len(hosts)))

    seen = set()
    for ci, ri, f in mon_fail:
        if f["sig"] in seen:
            continue
        seen.add(f["sig"])
        cl = clusters[ci]
        if f["sig"] == "burst":
            # timing: a copy that misses the proxy timeout on an overloaded machine looks the same; it counts only if it
            # reproduces in two further runs of the cluster
            again = [run_monitor(pid, [cl], run_clusters(binary, ctx["wd"], [cl], tag="rerun")["clusters"]) for _ in range(2)]
            if not all(any(g["sig"] == "burst" for _, _, g in a) for a in again):
                log("[%s] burst failure of cluster %s did not reproduce (machine load); not reported" % (pid, cl["id"]))
                continue
        if f["sig"] == "panic":
            small = cl
        else:
            small = shrink(pid, binary, ctx["wd"], cl, ri, f["sig"])
        oo = run_clusters(binary, ctx["wd"], [small], tag="shrink")["clusters"][0]
        what = "%s monitor [%s]: %s (cluster %s, %d node(s), request %d)" % (pid, f["sig"], f["why"], cl["id"], len(cl["nodes"]), ri)
        hit = [k for k in kf if k["sig"] == f["sig"]]
        if hit:
            known.append("sig=%s %s" % (f["sig"], f["why"]))
            continue
        violations.append({"what": what, "found_input": True,
                           "replay_obj": {"property": pid, "kind": "monitor", "signature": f["sig"], "why": f["why"], "case": small, "observed": oo}})
    # observed quirk outside the property's precondition (empty Host header): reported as a known finding only when listed
    quirk = [(cl["id"], ri) for cl, co in zip(clusters, outs) for ri, ob in enumerate(co.get("requests") or []) if ob.get("_empty_host_rewritten")]
    if quirk and any(k["sig"] == "empty-host" for k in kf):
        known.append("sig=empty-host a request arriving with an empty Host header reaches the upstream with Host = <endpoint id> (%d request(s), first %s/%d)"
                     % (len(quirk), quirk[0][0], quirk[0][1]))
    if bad_hosts and not any(v["found_input"] for v in violations):
        i = bad_hosts[0]
        hdr, host = hosts[i]
        mine = py_endpoint([[H("x-piko-endpoint"), H(hdr)]] if hdr else [], host)
        got = U(out["hosts"][i])
        violations.append({"what": "EndpointIDFromRequest(x-piko-endpoint=%r, Host=%r) = %r disagrees with the model (python reading: %r); %d of %d hosts differ"
                                   % (hdr, host, got, mine, len(bad_hosts), len(hosts)), "found_input": pid == "C01",
                           "replay_obj": {"property": pid, "kind": "hosts", "broken": "corr:%s:proxy:endpoint-id" % pid, "hosts": [[hdr, host]],
                                          "observed": got, "all": [hosts[j] for j in bad_hosts[:50]]}})
    if dis and not mon_fail:
        # no monitor failure on the generated cases: search harder around the disagreeing case before giving up
        d = dis[0]
        cl = clusters[d["case"]]
        found = None
        rng2 = random.Random(ctx["seed"] + 1)
        extra = []
        for j in range(12):
            c2 = copy.deepcopy(cl)
            c2["id"] = "s%d" % j
            c2["requests"] = [copy.deepcopy(cl["requests"][d["req"]])] + [gen_http(rng2, c2["nodes"], EPS, True) for _ in range(6)]
            for r_ in c2["requests"]:
                r_["entry"] = rng2.randrange(len(c2["nodes"]))
            extra.append(c2)
        eo = run_clusters(binary, ctx["wd"], extra, tag="search")["clusters"]
        mf = run_monitor(pid, extra, eo)
        if mf:
            ci, ri, f = mf[0]
            small = shrink(pid, binary, ctx["wd"], extra[ci], ri, f["sig"])
            oo = run_clusters(binary, ctx["wd"], [small], tag="shrink")["clusters"][0]
            violations.append({"what": "%s monitor [%s]: %s (found by the search around a model disagreement)" % (pid, f["sig"], f["why"]), "found_input": True,
                               "replay_obj": {"property": pid, "kind": "monitor", "signature": f["sig"], "why": f["why"], "case": small, "observed": oo}})
        else:
            violations.append({"what": "model/implementation disagreement (%s) on request %d of cluster %s; no %s monitor failure found"
                                       % (",".join(d["names"]), d["req"], cl["id"], pid), "found_input": False,
                               "replay_obj": {"property": pid, "kind": "corr", "broken": "corr:%s:proxy:%s" % (pid, d["names"][0]), "disagreement": d,
                                              "case": single_request_case(cl, d["req"]), "observed": outs[d["case"]]["requests"][d["req"]],
                                              "all_disagreements": dis[:20]}})

    nreq = sum(len(c["requests"]) for c in clusters)
    keys = set()
    dist = {"status": {}, "kind": {}, "hops": {}, "cluster_kind": {}, "nodes": {}}
    for cl, co in zip(clusters, outs):
        dist["cluster_kind"][cl["kind"]] = dist["cluster_kind"].get(cl["kind"], 0) + 1
        dist["nodes"][str(len(cl["nodes"]))] = dist["nodes"].get(str(len(cl["nodes"])), 0) + 1
        for rq, ob in zip(cl["requests"], co.get("requests") or []):
            if is_op(rq):
                dist["kind"][rq["kind"]] = dist["kind"].get(rq["kind"], 0) + 1
                continue
            s = str(ob["status"]) + ("" if not ob.get("stamped") else "u")
            dist["status"][s] = dist["status"].get(s, 0) + 1
            dist["kind"][rq["kind"]] = dist["kind"].get(rq["kind"], 0) + 1
            hp = str(sum(ob["inv"]))
            dist["hops"][hp] = dist["hops"].get(hp, 0) + 1
            if sum(ob["inv"]) >= 2 or ob.get("stamped") or ob["status"] in (502, 504):
                keys.add(nontrivial_key(cl, rq, ob))
    sample_cl = clusters[len(corpus())] if len(clusters) > len(corpus()) else clusters[0]
    cov = {"evaluations": nreq + len(hosts), "distinct_nontrivial": len(keys),
           "rule": "client requests (HTTP raw / websocket dial) against 1..4 real proxy.Server instances with injected routing views and scripted upstreams "
                   "(corpus with the H1/H2/W1 witnesses first, then seeded random clusters of kinds %s); non-trivial = reached a second node, an upstream, "
                   "or a 502/504 gateway decision; distinct by (cluster placement+views, entry, request line, Host, headers). Plus %d hosts compared directly "
                   "between EndpointIDFromRequest and the model." % (sorted(profile["kinds"]), len(hosts)),
           "samples": [{"cluster": strip_case(clusters[0]), "first_observation": outs[0]["requests"][0] if outs[0].get("requests") else None},
                       {"cluster_nodes": sample_cl["nodes"], "request": sample_cl["requests"][0]},
                       {"hosts": hosts[:12]}],
           "correspondence": {"harness": "proxy (TestVerifHarness_Proxy, package server/proxy)", "histories": len(clusters), "ops": nreq,
                              "distribution": dist, "disagreements": len(dis), "host_pairs": len(hosts), "host_disagreements": len(bad_hosts), "seed": ctx["seed"]},
           "monitor": {"histories": len(clusters), "requests": nreq, "failures": len(mon_fail)},
           "observations": {"empty_host_rewritten_to_endpoint_id": len(quirk)},
           "harness_wall_s": round(t_h, 1), "coq_eval_wall_s": round(t_c, 1)}
    return {"coverage": cov, "violations": violations, "known": known}


def replay_property(pid, path, wd):
    obj = json.load(open(path))
    binary = build_harness(PKG)
    if obj.get("kind") == "hosts":
        hosts = [tuple(x) for x in obj["hosts"]]
        out = run_clusters(binary, wd, [], hosts, tag="replay")
        bad = host_correspondence(pid, wd, hosts, out["hosts"], tag="replay")
        print(json.dumps({"hosts": hosts, "implementation": [U(x) for x in out["hosts"]], "model_disagrees_at": bad}, indent=1))
        return 0
    if obj.get("kind") == "token-path":
        cl = obj["cluster"]
        co = run_clusters(binary, wd, [cl], tag="replay")["clusters"][0]
        print(json.dumps({"monitor": [{"request": ri, **f} for ri, (rq, ob) in enumerate(zip(cl["requests"], co.get("requests") or []))
                                      for f in [monitor_token_path(cl, ri, rq, ob)] if f], "panic": co.get("panic")}, indent=1))
        return 0
    case = obj["case"]
    out = run_clusters(binary, wd, [case], tag="replay")["clusters"]
    mf = run_monitor(pid, [case], out)
    print(json.dumps({"implementation": out[0], "monitor": [{"request": ri, **f} for _, ri, f in mf]}, indent=1))
    dis = correspondence(pid, wd, [case], out, tag="replay")
    print("model disagreements:", dis)
    return 0


# ---------------------------------------------------------------- C10 on the real data path: tokens confined to their endpoints
def gen_token_cluster(rng, cid):
    """proxy ports that verify tokens; endpoint ids that a URL / host parser would fold together (t, t:80, T, t:, t.) registered
    side by side on one or two nodes; every request names one of them in x-piko-endpoint and carries a token that lists one or
    two of them (or none: any endpoint)"""
    t = rng.choice(["t", "svc", "e"])
    twins = [t, t + ":80", t.upper(), t + ":", t + ".", "x" + t]
    rng.shuffle(twins)
    twins = twins[:rng.randint(2, 5)]
    nn = rng.randint(1, 2)
    nodes = [{"id": "n%d" % i, "upstreams": [], "view": []} for i in range(nn)]
    for k, tw in enumerate(twins):
        nodes[rng.randrange(nn)]["upstreams"].append(up("u%d" % k, tw))
    truth_views(nodes)
    reqs = []
    for _ in range(rng.randint(8, 14)):
        a = rng.choice(twins)
        r = rng.random()
        rq = hdr_req(rng.randrange(nn), a, rng)
        if r < 0.45:
            rq["token_eps"] = [H(a)] + ([H(rng.choice(twins))] if rng.random() < 0.3 else [])
        elif r < 0.8:
            rq["token_eps"] = [H(x) for x in rng.sample([x for x in twins if x != a], min(len(twins) - 1, rng.randint(1, 2)))]
        elif r < 0.9:
            rq["token_eps"] = []
        else:
            rq["no_token"] = True
        if rng.random() < 0.4:
            rq["xauth"] = True      # token in x-piko-authorization, the client's own credentials for the upstream in Authorization
        if rng.random() < 0.35:
            # a form post (urlencoded or multipart), possibly with a parameter that looks like a credential: the body is the
            # upstream's business - whoever inspects the request on the way must not consume it
            rq["method"] = "POST"
            if rng.random() < 0.6:
                rq["headers"] = rq["headers"] + [[H("Content-Type"), H("application/x-www-form-urlencoded")]]
                rq["body"] = {"hex": H(rng.choice(["a=1&b=2", "access_token=not-a-piko-token&x=1", "q=" + "z" * 300]))}
            else:
                rq["headers"] = rq["headers"] + [[H("Content-Type"), H("multipart/form-data; boundary=XB")]]
                rq["body"] = {"hex": H("--XB\r\nContent-Disposition: form-data; name=\"f\"\r\n\r\nvalue\r\n--XB--\r\n")}
        reqs.append(rq)
    return {"id": cid, "timeout_ms": NORMAL_TIMEOUT_MS, "kind": "adversarial", "auth": True, "nodes": nodes, "requests": reqs}


def monitor_token_path(cl, ri, rq, ob):
    ep = addressed(rq)
    if rq.get("no_token"):
        if ob["status"] != 401 or ob.get("stamped"):
            return fail("no-token", "request without a token on an authenticated proxy port was answered %d%s" % (ob["status"], " by an upstream" if ob.get("stamped") else ""))
        return None
    allowed = [U(x) for x in rq.get("token_eps") or []]
    if allowed and ep not in allowed:
        if ob["status"] != 401 or ob.get("stamped"):
            return fail("token-escape", "token lists endpoints %r, the request named %r and was answered %d%s"
                        % (allowed, ep, ob["status"], " by an upstream of %r" % U(ob["stamp_ep"]) if ob.get("stamped") else ""))
        return None
    if ob.get("stamped") and rq.get("xauth") and ob.get("up_reqs"):
        got = [U(v) for nme, v in ob["up_reqs"][0]["headers"] if nme.lower() == "authorization"]
        if got != ["Basic dXNlcjpwYXNz"]:
            return fail("client-credentials-lost", "the client's own Authorization header reached the upstream as %r" % got)
    if ob.get("stamped") and ob.get("up_reqs") and rq.get("body") is not None:
        rec = ob["up_reqs"][0]
        if digest(rec["body_sha"], rec["body_len"]) != body_digest(rq.get("body")):
            return fail("transparent-req", "the request body changed on its way through an authenticated proxy port: %d bytes sent, the upstream read %d"
                        % (len(body_bytes(rq["body"])), rec["body_len"]))
    if not ob.get("stamped") and ob["status"] in (502, 504) and not rq.get("no_token") and not (allowed and ep not in allowed):
        have = [u_ for n in cl["nodes"] for u_ in local_ups(n, ep)]
        if have and rq.get("body") is not None:
            return fail("transparent-req", "an authorised %s with a %d-byte body for %r (an upstream is connected) was answered %d by piko itself"
                        % (rq["method"], len(body_bytes(rq["body"])), ep, ob["status"]))
    if ob.get("stamped"):
        se = U(ob["stamp_ep"])
        if se != ep:
            return fail("checked-not-routed", "the token was checked for endpoint %r (it lists %r) but the request was delivered to an upstream of %r"
                        % (ep, allowed or "any", se))
    elif ob["status"] == 401:
        return fail("token-refused", "token lists %r, request named %r, answered 401" % (allowed or "any", ep))
    return None
