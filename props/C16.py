"""C16 - upstreams are registered exactly while connected; expiry ends connections."""
import concurrent.futures as cf
import copy, json, os, random, re, sys, time
sys.path.insert(0, os.path.dirname(os.path.dirname(os.path.abspath(__file__))))
from lib.common import *

ID = "C16"
PKG = "server/upstream"
TEST = "TestVerifHarness_Lifecycle"
COQ_TARGETS = ["Run/Run_Lifecycle.vo"]
META = {
    "text": "C16_closed_listener_never_reconnects / C16_accept_ctx_variant_refuted (NodeLoss/Connect.v): the client's AcceptWithContext + Upstream.connect under every schedule of session loss, Close/Shutdown and dial outcomes never establish a session by a dial started after the listener was closed (harness: listeners closed while a TCP front blacks the server out). Theorems (Properties/C16.v) over the Gallina model of the upstream handler life cycle (upstreamRoute's addSession/AddConn and its deferred RemoveConn/removeSession/sess.Close/conn.Close, LoadBalancedManager.AddConn/RemoveConn, cluster Add/RemoveLocalEndpoint, proxy-side RemoveConn after ErrGone, shedSessions, Shutdown, token deadline), for ALL event sequences: registered = open minus those dropped after go-away, sessions = open, advertised count = number registered (refuted for the pinned RemoveConn, D1), nothing left once nothing is open, a deadline closes at T and never before, no deadline when disconnect-on-expiry is disabled. The model is tied to server/upstream by running generated scenarios on a REAL upstream.Server (real manager, cluster state, JWT verifier, clients from /repo/client or raw gorilla+yamux) and comparing balancers, Endpoints(), advertised counts and the session table with the model after every step inside Coq; an independent python monitor evaluates the property on the observations.",
    "note": "Proof of the bookkeeping; partial for the runtime: that every real exit path of the handler unwinds (goroutine exit, yamux/websocket errors, context timers) and the wall clock are observed by the harness only. Trusted: Coq kernel+VM, the hand-written model, the Go harness/translation.",
    "technique": "Coq proof (invariant over all event lists of a per-connection state machine) + model/implementation correspondence by differential replay on real servers and clients",
}
ASSUMPTIONS = [
    "each handler's deferred sequence (RemoveConn, removeSession, sess.Close, conn.Close) is modelled as one atomic step; the harness observes the real server only at quiescence (polling, up to 5 s)",
    "that AcceptStreamWithContext really returns on client close, network drop, session close, context cancel and context deadline is library behaviour (yamux, gorilla, context): exercised by the harness, not proved",
    "mutual exclusion of manager / session-table updates rests on their mutexes (C20); the model is sequential",
    "token expiry has one second granularity (JWT NumericDate); observed close time must lie in [T-50ms, T+1500ms] of the wall clock",
    "connection ids stand for pointer identity of *ConnUpstream / *yamux.Session",
]
TRUSTED = ["python ground-truth monitor (props/C16.py) as the independent oracle on the implementation's observations",
           "harness-side identification of a connection's server session (the one new entry of Server.sessions after its handshake)"]

TOL_EARLY = 50      # ms: a close this much before T is still "at T" (clock measurement tolerance)
TOL_LATE = 1500     # ms
GUARD_LO = 90       # ms: the harness never takes an observation inside [T-100, close) of a pending deadline, so an
GUARD_HI = 110      #     observation at t >= T-GUARD_LO must show it closed; one at t >= T-GUARD_HI may have raced with it

EPS = ["e1", "ep-2", "e3"]


def H(s):
    return s.encode("latin-1").hex()


# ------------------------------------------------------------------ scenarios
def conn(u, e, client="real", tok=None, ahead=None):
    op = {"op": "connect", "u": u, "e": e, "client": client}
    if tok:
        op["tok"] = tok
    if ahead:
        op["ahead_ms"] = ahead
    return op


def O(op, u=None, **kw):
    d = {"op": op}
    if u is not None:
        d["u"] = u
    d.update(kw)
    return d


def corpus():
    cs = []

    def add(cid, ops, auth=False, disable=False, tenant=False, front=False, via_load=""):
        cs.append({"id": cid, "auth": auth, "disable": disable, "tenant": tenant, "front": front, "via_load": via_load, "ops": ops})
    three = [conn("u1", "e1"), conn("u2", "e1", "raw"), conn("u3", "ep-2")]
    # every way to end, on a shared endpoint
    add("c-client-shutdown", three + [O("client_shutdown", "u1"), O("client_shutdown", "u2"), O("client_shutdown", "u3")])
    add("c-goaway-shutdown", three + [O("goaway", "u1"), O("client_shutdown", "u1"), O("goaway", "u2"), O("client_shutdown", "u2"),
                                      O("client_shutdown", "u3")])
    # D1 witness: go-away, proxy gets ErrGone and removes it, then it disconnects; the sibling must stay advertised
    add("c-d1-goaway-errgone-disconnect", [conn("u1", "e1"), conn("u2", "e1"), O("goaway", "u1"), O("errgone", "u1"),
                                           O("client_shutdown", "u1"), O("client_shutdown", "u2")])
    add("c-d1-stale-second-errgone", [conn("u1", "e1"), conn("u2", "e1", "raw"), conn("u3", "e1"), O("goaway", "u2"),
                                      O("errgone", "u2"), O("errgone", "u2", stale=True), O("drop", "u2"),
                                      O("client_shutdown", "u1"), O("client_shutdown", "u3")])
    add("c-drop", [conn("u1", "e1", "raw"), conn("u2", "e1", "raw"), conn("u3", "e3", "raw"), O("drop", "u2"), O("drop", "u1"),
                   O("drop", "u3")])
    add("c-shed", three + [O("shed", n=1), O("shed", n=1), O("shed", n=5)])
    add("c-shed-after-errgone", [conn("u1", "e1"), conn("u2", "e1"), O("goaway", "u1"), O("errgone", "u1"), O("shed", n=2)])
    add("c-server-shutdown", three + [O("goaway", "u2"), O("errgone", "u2"), O("server_shutdown"), conn("u4", "e1"),
                                      O("client_shutdown", "u1")])
    # the server is unreachable for a moment (connections cut, reconnects refused); the application closes its listeners
    # meanwhile; when the server is back nothing may reconnect and register
    add("c-close-during-blackout", [conn("u1", "e1"), conn("u2", "e1", "raw"), conn("u3", "ep-2"), O("blackout"), O("sleep", ms=60),
                                    O("client_shutdown", "u1"), O("client_shutdown", "u3"), O("restore", ms=600), O("client_shutdown", "u2")], front=True)
    add("c-close-during-blackout-auth", [conn("u1", "e1", tok="noexp"), conn("u2", "e1", tok="exp", ahead=60000), O("blackout"),
                                         O("client_shutdown", "u2"), O("client_shutdown", "u1"), O("restore", ms=600)], auth=True, front=True)
    # a half-open client connection on the upstream port makes the HTTP part of the shutdown run into its (short) grace
    # period: the upstream connections are closed and deregistered all the same
    add("c-server-shutdown-straggler", three + [O("straggler"), O("server_shutdown", ms=300)])
    add("c-server-shutdown-straggler-auth", [conn("u1", "e1", tok="exp", ahead=60000), conn("u2", "ep-2", tok="noexp"), O("straggler"),
                                             O("server_shutdown", ms=200)], auth=True)
    add("c-errgone-without-goaway", [conn("u1", "e1"), conn("u2", "e1"), O("errgone", "u2"), O("errgone", "u1", stale=True),
                                     O("client_shutdown", "u1"), O("client_shutdown", "u2")])
    add("c-errgone-sweeps-siblings", [conn("u1", "e1"), conn("u2", "e1"), conn("u3", "e1"), O("goaway", "u1"), O("goaway", "u2"),
                                      O("goaway", "u3"), O("errgone", "u3"), O("client_shutdown", "u2"), O("client_shutdown", "u1"),
                                      O("client_shutdown", "u3")])
    add("c-double-end", [conn("u1", "e1"), conn("u2", "e1", "raw"), O("client_shutdown", "u1"), O("client_shutdown", "u1"),
                         O("goaway", "u1"), O("errgone", "u1", stale=True), O("drop", "u2"), O("client_shutdown", "u2"), O("shed", n=1)])
    # authentication / expiry
    add("c-auth-handshake", [conn("u1", "e1", tok="noexp"), conn("u2", "e1", "raw", tok="expired"), conn("u3", "e1", tok="bad"),
                             conn("u4", "e1", tok="forbidden"), conn("u5", "e1", "raw", tok="none"), conn("u6", "e1", "raw", tok="scoped"),
                             O("client_shutdown", "u1"), O("client_shutdown", "u6")], auth=True)
    add("c-expiry", [conn("u1", "e1", tok="exp", ahead=400), conn("u2", "e1", "raw", tok="noexp"), O("await_expiry", "u1"),
                     O("client_shutdown", "u2")], auth=True)
    add("c-expiry-disabled", [conn("u1", "e1", tok="exp", ahead=400), conn("u2", "e1", "raw", tok="expired"),
                              O("await_expiry", "u1"), O("client_shutdown", "u1")], auth=True, disable=True)
    add("c-expiry-raw-two-same", [conn("u1", "e1", "raw", tok="exp", ahead=500), conn("u2", "e1", tok="exp", ahead=500),
                                  conn("u3", "ep-2", tok="exp", ahead=1600), O("await_expiry", "u1"), O("await_expiry", "u2"),
                                  O("await_expiry", "u3")], auth=True)
    add("c-expiry-after-errgone", [conn("u1", "e1", tok="exp", ahead=700), conn("u2", "e1", tok="noexp"), O("goaway", "u1"),
                                   O("errgone", "u1"), O("await_expiry", "u1"), O("client_shutdown", "u2")], auth=True)
    add("c-expiry-ignored-without-verifier", [conn("u1", "e1", tok="exp", ahead=400), O("await_expiry", "u1"),
                                              O("client_shutdown", "u1")], auth=False)
    add("c-expiry-then-late-client-close", [conn("u1", "e1", tok="exp", ahead=400), conn("u2", "e1", tok="exp", ahead=1500),
                                            O("await_expiry", "u1"), O("client_shutdown", "u1"), O("server_shutdown")], auth=True)
    # the same through a tenant's verifier (x-piko-tenant-id): the token's expiry must survive MultiTenantVerifier
    add("c-expiry-tenant", [conn("u1", "e1", tok="exp", ahead=400), conn("u2", "e1", "raw", tok="exp", ahead=900), conn("u3", "e1", tok="noexp"),
                            O("await_expiry", "u1"), O("await_expiry", "u2"), O("client_shutdown", "u3")], auth=True, tenant=True)
    # the same through the real auth.Config.Load (what server.NewServer does), with a plain secret and with a JWKS key set:
    # "unless disconnect-on-expiry is disabled" must survive every way of configuring the keys
    for vl in ("hmac", "jwks"):
        add("c-expiry-disabled-load-" + vl, [conn("u1", "e1", tok="exp", ahead=400), conn("u2", "e1", "raw", tok="expired"),
                                            O("await_expiry", "u1"), O("client_shutdown", "u1")], auth=True, disable=True, via_load=vl)
        add("c-expiry-load-" + vl, [conn("u1", "e1", tok="exp", ahead=400), conn("u2", "ep-2", tok="noexp"), O("await_expiry", "u1"),
                                   O("client_shutdown", "u2")], auth=True, via_load=vl)
    add("c-expiry-tenant-disabled", [conn("u1", "e1", tok="exp", ahead=400), O("await_expiry", "u1"), O("client_shutdown", "u1")],
        auth=True, disable=True, tenant=True)
    add("c-shutdown-far-expiry", [conn("u1", "e1", tok="exp", ahead=60000), conn("u2", "e1", "raw", tok="exp", ahead=60000),
                                  conn("u3", "ep-2", tok="noexp"), O("server_shutdown")], auth=True)
    add("c-shed-far-expiry", [conn("u1", "e1", tok="exp", ahead=60000), conn("u2", "e1", tok="exp", ahead=60000), O("shed", n=2),
                              conn("u3", "e1", tok="exp", ahead=60000), O("client_shutdown", "u3")], auth=True)
    return cs


def silent_drop_case(ms=45000):
    """thorough tier (it takes 45 s): the network path of an idle upstream goes silent - nothing delivered, nothing closed. "Network
    drop" is one of the endings the property names: the server's own probing has to notice and deregister the upstream"""
    return {"id": "c-silent-drop", "auth": False, "disable": False, "tenant": False, "front": True, "via_load": "",
            "ops": [conn("u1", "e1"), conn("u2", "ep-2", "raw"), O("blackhole", ms=ms), O("client_shutdown", "u2"), O("client_shutdown", "u1")]}


def gen_case(rng, cid):
    r = rng.random()
    auth, disable = (False, False) if r < 0.35 else ((True, False) if r < 0.72 else (True, True))
    nconn = rng.randint(2, 6)
    eps = EPS[: rng.randint(1, 3)]
    ops = []
    conns = []          # (u, raw, expiring)
    live = []
    nexp = 0
    for i in range(nconn):
        u = "u%d" % (i + 1)
        e = rng.choice(eps)
        raw = rng.random() < 0.4
        tok = None
        ahead = None
        if auth:
            x = rng.random()
            if (x < 0.35 or (i == 0 and x < 0.6)) and nexp < 2:
                # a far expiry never fires during the scenario: the connection has to end some other way (the
                # deadline context must not shadow client close / shedding / server shutdown)
                tok, ahead = "exp", rng.choice([400, 600, 900, 1300, 60000, 60000])
                nexp += 1
            elif x < 0.8:
                tok = rng.choice(["noexp", "noexp", "scoped"])
            else:
                tok = rng.choice(["expired", "bad", "forbidden", "none"])
        elif rng.random() < 0.15:
            tok = rng.choice(["exp", "bad", "noexp"])
            ahead = 400
        conns.append((u, raw, tok == "exp" and ahead < 5000))
        ops.append(conn(u, e, "raw" if raw else "real", tok, ahead))
        if not auth or tok in ("exp", "noexp", "scoped"):
            live.append(u)
        # interleave a few ops between connects
        if live and rng.random() < 0.35:
            ops.append(mid_op(rng, live, conns))
    for _ in range(rng.randint(1, 5)):
        if live:
            ops.append(mid_op(rng, live, conns))
    # end everything so that the last observation is the empty server
    rawset = {u for (u, raw, _) in conns if raw}
    expset = {u for (u, _, ex) in conns if ex}
    fin = rng.random()
    if fin < 0.22:
        if rng.random() < 0.3:
            ops += [O("straggler"), O("server_shutdown", ms=rng.choice([150, 300]))]
        else:
            ops.append(O("server_shutdown"))
        if rng.random() < 0.5:
            ops.append(conn("u9", eps[0], "real", "noexp" if auth else None))
    elif fin < 0.3:
        ops.append(O("shed", n=nconn + 1))
    else:
        order = [u for (u, _, _) in conns]
        rng.shuffle(order)
        for u in order:
            if u in expset and auth and rng.random() < 0.7:
                ops.append(O("await_expiry", u))
                if disable:
                    ops.append(O("client_shutdown", u))
            elif u in rawset and rng.random() < 0.6:
                ops.append(O("drop", u))
            else:
                if rng.random() < 0.3:
                    ops.append(O("goaway", u))
                    if rng.random() < 0.5:
                        ops.append(O("errgone", u))
                ops.append(O("client_shutdown", u))
    return {"id": cid, "auth": auth, "disable": disable, "tenant": auth and rng.random() < 0.3,
            "via_load": rng.choice(["", "", "hmac", "jwks"]) if auth else "", "ops": ops}


def mid_op(rng, live, conns):
    u = rng.choice(live)
    raw = {c[0] for c in conns if c[1]}
    x = rng.random()
    if x < 0.25:
        return O("goaway", u)
    if x < 0.50:
        return O("errgone", u, stale=True) if rng.random() < 0.25 else O("errgone", u)
    if x < 0.62:
        return O("client_shutdown", u)
    if x < 0.72 and u in raw:
        return O("drop", u)
    if x < 0.80:
        return O("shed", n=rng.choice([0, 1, 1, 2]))
    if x < 0.85:
        return O("sleep", ms=rng.choice([5, 40, 120]))
    return O("goaway", u)


# ------------------------------------------------------------------ running the implementation
def run_cases(binary, wd, cases, tag="lc", parallel=16, timeout=900):
    out, logtxt = run_harness(binary, {"cases": cases, "parallel": parallel}, wd, tag=tag, timeout=timeout, test=TEST)
    if out is None:
        raise RuntimeError("lifecycle harness run failed:\n" + logtxt)
    return out["cases"]


# ------------------------------------------------------------------ independent monitor (ground truth of the scenario)
def expected_handshake(case, op, down):
    if down:
        return "unreachable"
    if not case["auth"]:
        return "connected"
    return "connected" if op.get("tok") in ("exp", "noexp", "scoped") else "rejected-401"


def monitor(case, out, stats=None):
    """the property's own predicate on what the REAL server did. None or {step, sig, why}.
    stats (optional list) collects close_time - T of every close attributed to a token deadline"""
    if out.get("panic"):
        return {"step": len(out.get("obs") or []), "sig": "panic", "why": "harness panic/watchdog: " + out["panic"]}
    info = {}      # u -> dict(ep, open, reg, goaway, T, deadline, ended_before)
    order = []
    down = False
    cut_alive = set()       # client listeners cut off by a blackout that the application has not closed (they may reconnect)
    for i, (op, ob) in enumerate(zip(case["ops"], out["obs"])):
        k = op["op"]
        u = op.get("u")
        if k in ("blackout", "blackhole"):
            cut_alive |= set(ob.get("dropped") or [])
        elif k == "client_shutdown":
            cut_alive.discard(u)
        elif k == "restore" and cut_alive:
            return None     # a listener that is still open reconnects, as it should: a new connection the scenario does not name
        if k == "connect":
            want = expected_handshake(case, op, down)
            if ob["res"] != want:
                return {"step": i, "sig": "handshake", "why": "handshake outcome %s, expected %s" % (ob["res"], want)}
            if ob["ok"] and u not in info:
                T = ob["exp"] if op.get("tok") == "exp" else None
                info[u] = {"ep": op["e"], "open": True, "reg": True, "goaway": False, "T": T,
                           "deadline": bool(case["auth"] and not case["disable"] and T is not None)}
                order.append(u)
        elif k in ("client_shutdown", "drop"):
            if u in info and ob["res"] == "ok" and info[u]["open"]:
                info[u].update(open=False, reg=False)
        elif k in ("blackout", "blackhole"):
            for x in ob.get("dropped") or []:
                if x in info and info[x]["open"]:
                    info[x].update(open=False, reg=False)
        elif k == "goaway":
            if u in info and info[u]["open"]:
                if ob["res"] == "ok":
                    info[u]["goaway"] = True
                elif not (info[u]["deadline"] and ob["t"] >= info[u]["T"] - GUARD_HI):
                    return {"step": i, "sig": "goaway", "why": "go-away of open connection %s not seen by the server (%s)" % (u, ob["res"])}
        elif k == "errgone":
            for x in ob.get("removed") or []:
                if x not in info or not info[x]["goaway"] or not info[x]["open"]:
                    return {"step": i, "sig": "errgone", "why": "Dial answered ErrGone for %s which had not announced go-away" % x}
                info[x]["reg"] = False
            if u in info and info[u]["open"] and info[u]["goaway"] and info[u]["reg"] and not op.get("stale"):
                if not (info[u]["deadline"] and ob["t"] >= info[u]["T"] - GUARD_HI):
                    return {"step": i, "sig": "errgone", "why": "proxy never got ErrGone from %s which announced go-away (%s)" % (u, ob["res"])}
        elif k == "shed":
            opened = [x for x in order if info[x]["open"]]
            shed = ob.get("shed") or []
            # a deadline that fired during this step also makes a session disappear
            raced = [x for x in shed if x in info and info[x]["deadline"] and ob["t"] >= info[x]["T"] - GUARD_HI]
            if any(x not in info or not info[x]["open"] for x in shed):
                return {"step": i, "sig": "shed", "why": "shed closed something that was not open: %s" % shed}
            # shedSessions appends before it tests `len(shedding) >= n`: n <= 0 still closes one session
            kk = min(max(op["n"], 1), len(opened))
            if not (kk <= len(shed) <= kk + len(raced)):
                return {"step": i, "sig": "shed", "why": "shedSessions(%d) with %d open closed %d" % (op["n"], len(opened), len(shed))}
            for x in shed:
                info[x].update(open=False, reg=False)
        elif k == "server_shutdown":
            down = True
            for x in order:
                if info[x]["open"]:
                    info[x].update(open=False, reg=False)
        elif k == "await_expiry":
            if u in info and info[u]["T"] is not None and info[u]["open"]:
                if info[u]["deadline"] and ob["res"] != "closed":
                    return {"step": i, "sig": "expiry-late", "why": "%s not closed 1.5 s after its token expiry" % u}
                if not info[u]["deadline"] and ob["res"] != "still-open":
                    return {"step": i, "sig": "expiry-disabled", "why": "%s closed at token expiry although no deadline applies" % u}
        # deadlines: a connection with an enabled deadline is closed at T, not before
        closed_at = ob.get("closed_at") or {}
        for x in order:
            d = info[x]
            if not d["open"]:
                continue
            if x in closed_at:
                if not d["deadline"]:
                    return {"step": i, "sig": "closed-without-cause", "why": "%s was closed by the server without any cause (t=%d)" % (x, closed_at[x])}
                if closed_at[x] < d["T"] - TOL_EARLY:
                    return {"step": i, "sig": "expiry-early", "why": "%s closed %d ms before its token expiry" % (x, d["T"] - closed_at[x])}
                if closed_at[x] > d["T"] + TOL_LATE:
                    return {"step": i, "sig": "expiry-late", "why": "%s closed %d ms after its token expiry" % (x, closed_at[x] - d["T"])}
                d.update(open=False, reg=False)
                if stats is not None:
                    stats.append(closed_at[x] - d["T"])
            elif d["deadline"] and ob["t"] >= d["T"] - GUARD_LO:
                return {"step": i, "sig": "expiry-late", "why": "%s still open at t=%d, token expired at %d" % (x, ob["t"], d["T"])}
        # registered == open (minus dropped after go-away), sessions == open, advertised == registered
        want_sess = sorted(x for x in order if info[x]["open"])
        if sorted(ob["sessions"]) != want_sess or ob["nsess"] != len(want_sess) or ob["unknown"]:
            leak = "session-leak" if len(ob["sessions"]) + ob["unknown"] > len(want_sess) or ob["nsess"] > len(want_sess) else "session-missing"
            return {"step": i, "sig": leak, "why": "session table %s (n=%d) but open connections are %s" % (ob["sessions"], ob["nsess"], want_sess)}
        want_bal = {}
        for x in order:
            if info[x]["reg"]:
                want_bal.setdefault(info[x]["ep"], []).append(x)
        if ob["balancers"] != want_bal:
            nreal = sum(len(v) for v in ob["balancers"].values())
            nwant = sum(len(v) for v in want_bal.values())
            return {"step": i, "sig": "registered-not-open" if nreal >= nwant else "open-not-registered",
                    "why": "balancers %s but open and not dropped are %s" % (ob["balancers"], want_bal)}
        want_cnt = {e: len(v) for e, v in want_bal.items()}
        if ob["endpoints"] != want_cnt:
            return {"step": i, "sig": "endpoints", "why": "Endpoints() %s but registered %s" % (ob["endpoints"], want_cnt)}
        if ob["cluster"] != want_cnt:
            return {"step": i, "sig": "advertised-count", "why": "advertised %s but registered %s" % (ob["cluster"], want_cnt)}
        if ob.get("timeout"):
            return {"step": i, "sig": "quiescence", "why": "server did not reach the expected quiescent state within 5 s"}
    return None


# ------------------------------------------------------------------ trace -> Coq
def cs(s):
    return '(h "%s")' % H(s)


def zlit(n):
    return "(%d)%%Z" % n


def c_tok(case, op, ob):
    k = op.get("tok") or "none"
    if k in ("none", "bad"):
        return "None"
    if k in ("noexp", "scoped"):
        return "(Tok None true)"
    if k == "forbidden":
        return "(Tok None false)"
    if k in ("exp", "expired"):
        return "(Tok (Some %s) true)" % zlit(ob["exp"])
    raise ValueError(k)


def events_of(case, op, ob, known, prev_closed):
    """events the model is told about for this step (oracle choices taken from the observation).
    known: u -> True once the model has been told about the connection"""
    k = op["op"]
    u = op.get("u")
    ev = ["EvTick %s" % zlit(ob["t0"])]
    if k == "connect":
        if ob["res"] != "unreachable" and u not in known:
            known[u] = True
            ev += ["EvDial %s %s %s" % (cs(u), cs(op["e"]), c_tok(case, op, ob)), "EvAccept %s" % cs(u)]
    elif k == "client_shutdown":
        if u in known and ob["res"] == "ok":
            ev.append("EvClientClose %s" % cs(u))
    elif k == "drop":
        if u in known and ob["res"] == "ok":
            ev.append("EvNetDrop %s" % cs(u))
    elif k in ("blackout", "blackhole"):
        ev += ["EvNetDrop %s" % cs(x) for x in (ob.get("dropped") or []) if x in known]
    elif k == "goaway":
        if u in known and ob["res"] == "ok":
            ev.append("EvGoAway %s" % cs(u))
    elif k == "errgone":
        ev += ["EvProxyErrGone %s" % cs(x) for x in (ob.get("removed") or [])]
    elif k == "shed":
        ev += ["EvShed %s" % cs(x) for x in (ob.get("shed") or [])]
    elif k == "server_shutdown":
        ev.append("EvServerShutdown")
    elif k == "await_expiry":
        # the close was first seen during this step: the deadline fired, at the observed time
        ca = ob.get("closed_at") or {}
        if ob["res"] == "closed" and u in ca and u not in prev_closed:
            ev.append("EvDeadline %s %s" % (cs(u), zlit(ca[u] + TOL_EARLY)))
    ev.append("EvTick %s" % zlit(ob["t"]))
    return ev


def c_obs(ob, rejected):
    bal = coq_list(["(%s, %s)" % (cs(e), coq_list([cs(x) for x in l])) for e, l in sorted(ob["balancers"].items())])
    eps = coq_list(["(%s, %d%%N)" % (cs(e), n) for e, n in sorted(ob["endpoints"].items())])
    cl = coq_list(["(%s, %d%%N)" % (cs(e), n) for e, n in sorted(ob["cluster"].items())])
    return "(Obs %s %s %s %d%%N %s %s)" % (bal, eps, cl, ob["nsess"], coq_list([cs(x) for x in ob["sessions"]]),
                                         coq_list([cs(x) for x in rejected]))


def case_to_coq(case, out):
    known = {}
    rejected = []
    steps = []
    prev_closed = {}
    for op, ob in zip(case["ops"], out["obs"]):
        if op["op"] == "connect" and ob["res"].startswith("rejected") and op["u"] not in known:
            rejected.append(op["u"])
        ev = events_of(case, op, ob, known, prev_closed)
        prev_closed = ob.get("closed_at") or {}
        steps.append("(%s, %s)" % (coq_list(ev), c_obs(ob, rejected)))
    return "{| lc_cfg := Cfg %s %s; lc_steps := %s |}" % (coq_bool(case["auth"]), coq_bool(case["disable"]), coq_list(steps))


def cases_file(cases, outs):
    body = ["From Coq Require Import List String NArith ZArith Bool.",
            "From Piko Require Import Base.Maps Base.Strs Lifecycle.Lifecycle Run.Run_Lifecycle.",
            "Import ListNotations. Open Scope string_scope. Open Scope list_scope.",
            "Definition cases : list lcase := [",
            ";\n".join(case_to_coq(c, o) for c, o in zip(cases, outs)),
            "].",
            "Definition M := Eval vm_compute in mismatches cases.",
            "Print M."]
    return "\n".join(body) + "\n"


CODE_NAMES = {1: "event-not-enabled", 2: "balancers", 3: "Endpoints()", 4: "advertised-counts", 5: "session-table", 6: "refused-handshakes"}


def parse_mismatches(out):
    m = re.search(r"M\s*=\s*(.*?)\s*:\s*list", out, flags=re.S)
    if not m:
        return None
    txt = m.group(1).strip()
    if txt == "[]":
        return []
    res = []
    for mm in re.finditer(r"\(\s*(\d+)\s*,\s*(\d+)\s*,\s*\[([^\]]*)\]\s*\)", txt.replace("%nat", "")):
        res.append((int(mm.group(1)), int(mm.group(2)), [int(x) for x in re.findall(r"\d+", mm.group(3))]))
    return res


def correspondence(wd, cases, outs, shard=12, tag="lc"):
    jobs = [(si, cases[si:si + shard], outs[si:si + shard]) for si in range(0, len(cases), shard)]

    def work(job):
        si, cc, oo = job
        rc, out = coq_eval(wd, "Cases_%s_%s_%d" % (ID, tag, si), cases_file(cc, oo))
        mm = parse_mismatches(out)
        if rc != 0 or mm is None:
            raise RuntimeError("coq evaluation of cases failed:\n" + out[-3000:])
        return [(si + c, s, codes) for (c, s, codes) in mm]
    dis = []
    with cf.ThreadPoolExecutor(max_workers=8) as ex:
        for r in ex.map(work, jobs):
            for (c, s, codes) in r:
                dis.append({"case": c, "step": s, "codes": codes, "names": [CODE_NAMES.get(x, str(x)) for x in codes]})
    return dis


# ------------------------------------------------------------------ shrinking (candidates of one round run in parallel)
def shrink(binary, wd, case, sig, max_rounds=8):
    ops = list(case["ops"])
    n = 2
    for _ in range(max_rounds):
        if len(ops) < 2:
            break
        chunk = max(1, len(ops) // n)
        cands = []
        for i in range(0, len(ops), chunk):
            cand = ops[:i] + ops[i + chunk:]
            if cand:
                cands.append(dict(case, id="%s-s%d" % (case["id"], i), ops=cand))
        outs = run_cases(binary, wd, cands, tag="shrink", parallel=16)
        hit = None
        for c, o in zip(cands, outs):
            f = monitor(c, o)
            if f is not None and f["sig"] == sig:
                hit = c
                break
        if hit is not None:
            ops = hit["ops"]
            n = max(n - 1, 2)
        else:
            if chunk == 1:
                break
            n = min(n * 2, len(ops))
    return dict(case, ops=ops)


def op_mix(cases):
    mix = {}
    for c in cases:
        for op in c["ops"]:
            k = op["op"]
            if k == "connect":
                k = "connect:" + op.get("client", "real") + ":" + (op.get("tok") or "none")
            if k == "errgone" and op.get("stale"):
                k = "errgone:stale"
            mix[k] = mix.get(k, 0) + 1
    return mix


def ways_ended(case):
    return sorted({op["op"] for op in case["ops"] if op["op"] in
                   ("client_shutdown", "goaway", "errgone", "drop", "shed", "server_shutdown", "await_expiry")})


def known_match(sig):
    for k in known_findings():
        if k["kind"] == "known" and k["property"] == ID and k["sig"] == sig:
            return "sig=%s %s" % (sig, k["text"])
    return None


# ------------------------------------------------------------------ entry points
def run(ctx):
    rng = random.Random(ctx["seed"])
    wd = ctx["wd"]
    quick = ctx["tier"] == "quick"
    ngen = 38 if quick else 500
    cases = corpus() + [gen_case(rng, "g%d" % i) for i in range(ngen)]
    if not quick:
        cases.append(silent_drop_case())
    binary = build_harness(PKG, dirs=["lifecycle"])
    t0 = time.time()
    outs = run_cases(binary, wd, cases, parallel=16 if quick else 24)
    log("[C16] %d scenarios on real servers in %.1fs" % (len(cases), time.time() - t0))
    race_info = None
    if not quick:
        rb = build_harness(PKG, race=True, dirs=["lifecycle"])
        rcases = corpus() + [gen_case(rng, "r%d" % i) for i in range(80)]
        t1 = time.time()
        routs = run_cases(rb, wd, rcases, tag="race", parallel=8)
        race_info = {"scenarios": len(rcases), "wall_s": round(time.time() - t1, 1)}
        cases += rcases
        outs += routs

    violations, known = [], []
    mon_fail = []
    closes = []
    for c, o in zip(cases, outs):
        f = monitor(c, o, closes)
        if f:
            mon_fail.append((c, o, f))
    okc = [(c, o) for c, o in zip(cases, outs) if not o.get("panic")]
    dis = correspondence(wd, [c for c, _ in okc], [o for _, o in okc])

    seen = set()
    for c, o, f in mon_fail:
        if f["sig"] in seen:
            continue
        seen.add(f["sig"])
        small, so, sf = c, o, f
        if f["sig"] != "panic":
            try:
                cand = shrink(binary, wd, c, f["sig"])
                co = run_cases(binary, wd, [cand], tag="shrunk")[0]
                cf_ = monitor(cand, co)
                if cf_ is not None and cf_["sig"] == f["sig"]:
                    small, so, sf = cand, co, cf_
            except Exception as e:          # shrinking is best effort
                log("[C16] shrink failed: %r" % e)
        km = known_match(f["sig"])
        if km:
            known.append(km)
            continue
        violations.append({"what": "C16 monitor [%s]: %s (scenario %s, %d steps, failing at step %d)"
                                   % (sf["sig"], sf["why"], small["id"], len(small["ops"]), sf["step"]),
                           "found_input": True,
                           "replay_obj": {"property": ID, "kind": "monitor", "signature": sf["sig"], "why": sf["why"],
                                          "step": sf["step"], "case": small, "observed": so}})
    if dis and not mon_fail:
        d = dis[0]
        c, o = okc[d["case"]]
        # search harder around the disagreeing scenario: same scenario again (timing), and its prefix
        extra = [dict(c, id=c["id"] + "-again%d" % i) for i in range(3)] + [dict(c, id=c["id"] + "-prefix", ops=c["ops"][: d["step"] + 1])]
        eouts = run_cases(binary, wd, extra, tag="again")
        found = None
        for ec, eo in zip(extra, eouts):
            f = monitor(ec, eo)
            if f:
                found = (ec, eo, f)
                break
        if found:
            ec, eo, f = found
            violations.append({"what": "C16 monitor [%s]: %s (scenario %s)" % (f["sig"], f["why"], ec["id"]), "found_input": True,
                               "replay_obj": {"property": ID, "kind": "monitor", "signature": f["sig"], "why": f["why"],
                                              "step": f["step"], "case": ec, "observed": eo}})
        else:
            violations.append({"what": "model/implementation disagreement (%s) at step %d of scenario %s, no monitor failure found"
                                       % (",".join(d["names"]), d["step"], c["id"]), "found_input": False,
                               "replay_obj": {"broken": "corr:C16:lifecycle:%s" % "+".join(d["names"]), "disagreement": d,
                                              "case": c, "observed": o}})
    nontriv = len({json.dumps(c["ops"], sort_keys=True) + str(c["auth"]) + str(c["disable"]) + str(c.get("tenant")) for c in cases if len(ways_ended(c)) >= 2})
    cov = {"evaluations": len(cases), "distinct_nontrivial": nontriv,
           "rule": "scenarios on a real upstream.Server: corpus (each way to end a connection, D1 witnesses, handshake refusals, expiry on/off) then random scenarios (2-6 connections on 1-3 endpoints, real and raw clients, go-away/ErrGone/shutdown/drop/shed/server shutdown/expiry, everything ended at the end); non-trivial = uses at least two different ways to end/deregister; distinct by (config, op list)",
           "samples": [cases[2]["ops"], cases[len(corpus())]["ops"]],
           "correspondence": {"harness": "lifecycle (real upstream.Server + client.Upstream / raw yamux clients)", "histories": len(okc),
                              "ops": sum(len(c["ops"]) for c in cases), "distribution": op_mix(cases), "disagreements": len(dis),
                              "seed": ctx["seed"]},
           "monitor": {"histories": len(cases), "failures": len(mon_fail)},
           "expiry_close_offsets_ms": {"n": len(closes), "min": min(closes) if closes else None, "max": max(closes) if closes else None},
           }
    if race_info:
        cov["race_build"] = race_info
    return {"coverage": cov, "violations": violations, "known": known}


def replay(path, wd):
    obj = json.load(open(path))
    case = obj["case"]
    binary = build_harness(PKG, dirs=["lifecycle"])
    out = run_cases(binary, wd, [case], tag="replay")[0]
    print(json.dumps({"implementation": out, "monitor": monitor(case, out)}, indent=1))
    if not out.get("panic"):
        print("model disagreements:", correspondence(wd, [case], [out], tag="replay"))
    return 0
