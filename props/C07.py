"""C07 - Tunnelled connections are faithful byte streams with close propagation."""
import concurrent.futures as cf
import json, os, random, re, sys, threading, time
sys.path.insert(0, os.path.dirname(os.path.dirname(os.path.abspath(__file__))))
from lib.common import *

ID = "C07"
COQ_TARGETS = ["Run/Run_Stream.vo"]
META = {
    "text": "Theorems (Properties/C07.v) over Gallina models of pkg/websocket Conn.Read/Conn.Write (the exact loop incl. the partial message reader, skipped empty messages, non-binary and close handling) and of the two-goroutine io.Copy pairs: every sequence of reads (any buffer sizes > 0, any short-read oracle) returns the exact prefix of the written messages, never (0,nil), net.ErrClosed exactly when everything before the close was delivered (C07_read_stream); any interleaving/chunking of writes and reads on one connection (C07_write_read_roundtrip) and through any number of copy stages (C07_two_hops) preserves the stream exactly once in order and reports end-of-stream only after full delivery; in the copy pair closing either end leads on every maximal run, in a bounded number of steps, to both copiers finished and both connections closed (C07_close_propagates), and both directions stay prefix-faithful under every interleaving (C07_pair_streams). The model is tied to the code by replaying every logged Read call of real Conn pairs over loopback on the model inside Coq; the system path (Dialer/Forwarder -> one or two nodes -> Listener / agent tcpproxy / client forwarder) is run with a monitor.",
    "note": "partial: gorilla framing, yamux, TCP and the kernel are environment (exercised, not proved); 'releases both legs' at the OS level is observed (no goroutine of a tunnelled connection survives) rather than proved; the system harness is monitor-only (schedules are not reproducible in the model); writes are modelled as non-blocking.",
    "technique": "Coq proof (invariants over op lists, measure for termination) + model/implementation correspondence by differential replay with read-size oracles + system-level monitor",
}
ASSUMPTIONS = [
    "gorilla/websocket delivers messages intact and in order, its message reader returns 1..min(len(buf), remaining) bytes per call and reports a lost transport as *CloseError 1006 (exercised on every run by the ws harness, not proved)",
    "yamux streams, TCP sockets and the kernel are reliable ordered byte streams with FIN-after-data close (exercised by the tunnel harness, not proved)",
    "Write never blocks forever: a peer that stops reading while its window is full (flow-control stall) is outside the copy-pair model; the real code has no write deadline in forward()",
    "Conn.Close() is abortive (closes the transport without a close handshake): bytes still in flight TOWARDS the closing end are lost by design; the stream theorems speak about bytes written before the writer's own close",
    "Read buffers are non-empty (io.Copy uses 32 KiB); Conn.Read with an empty buffer returns (0, nil) while a message is pending (modelled, not exercised)",
]
TRUSTED = ["python stream monitor (props/C07.py): concatenation of returned chunks == written payload (prefix until the close), never (0,nil), expected terminal error class",
           "tunnel harness (harness/tunnel) stream equality / EOF / leg-goroutine accounting",
           "position encoding of large payloads (DSeq) justified by the naturality theorem C07_read_natural"]

CONCRETE_MAX = 384           # directions with more payload than this cross into Coq as stream positions (hex literals are slow to check)
ERR_CODE = {"nil": 0, "closed": 1, "other": 2, "rawclose": 3, "timeout": 7}
CODE_NAMES = {1: "illegal-oracle", 2: "data", 3: "error-class"}


# ------------------------------------------------------------------ ws case generation
def B(n): return {"op": "bin", "n": n}
def T(n): return {"op": "text", "n": n}
CLOSE = {"op": "close"}
CLOSEFRAME = {"op": "closeframe"}
BAD = {"op": "bad"}
PING = {"op": "ping"}
def CUT(n, m, closed): return {"op": "cut", "n": n, "m": m, "closed": closed}


def mkdir(seed, ops, bufs, tail=None):
    return {"seed": seed, "ops": ops, "tail": tail or [], "bufs": bufs}


def unobservable(op):
    return op["op"] == "ping" or (op["op"] == "bin" and op["n"] == 0)


def mkcase(cid, d0, d1, closer):
    c = {"id": cid, "closer": closer, "dirs": [d0, d1]}
    # only the closer has a tail, and it always ends in something sticky
    c["dirs"][1 - closer]["tail"] = []
    if not c["dirs"][closer]["tail"]:
        c["dirs"][closer]["tail"] = [CLOSE]
    # Conn.Close() is abortive: if anything the closing side has not consumed yet is still in flight towards
    # it (an empty message, a ping, the pong answering its own ping) the kernel answers with a reset and the
    # peer sees ECONNRESET instead of end-of-stream. That is TCP, not piko: keep it out of the scripts.
    #  - the stream towards the closer must end in something its reader can wait for
    other = c["dirs"][1 - closer]
    if other["ops"] and unobservable(other["ops"][-1]):
        other["ops"] = other["ops"] + [B(1)]
    #  - the closer itself never pings (the pong would race with its Close)
    me = c["dirs"][closer]
    me["ops"] = [o for o in me["ops"] if o["op"] != "ping"]
    me["tail"] = [o for o in me["tail"] if o["op"] != "ping"]
    return c


CORPUS = [
    # empty messages at the start, in the middle and at the end; one-byte buffer
    mkcase("corpus-empty", mkdir(1, [B(0), B(3), B(0), B(0), B(2), B(0)], [1], [B(0), CLOSE]), mkdir(2, [B(0)], [1]), 0),
    # a message larger than the read buffer: the partial reader must be kept
    mkcase("corpus-partial", mkdir(3, [B(10), B(7)], [3], [CLOSE]), mkdir(4, [B(100)], [7, 1, 64]), 0),
    # message sizes around the buffer size and gorilla's 4096 buffers, both directions concurrently
    mkcase("corpus-4096", mkdir(5, [B(4095), B(4096), B(4097), B(1)], [4096]), mkdir(6, [B(4096), B(4096)], [4095, 4097], [CLOSE]), 1),
    # a text frame between binary messages, small buffer; then data continues
    mkcase("corpus-text", mkdir(7, [B(5), T(3), B(10), T(0), B(1)], [2, 3], [T(2), B(3), CLOSE]), mkdir(8, [B(4)], [16]), 0),
    # only empty writes, then close
    mkcase("corpus-only-empty", mkdir(9, [B(0), B(0)], [8], [CLOSE]), mkdir(10, [], [8]), 0),
    # nothing at all, immediate close by the server
    mkcase("corpus-nothing", mkdir(11, [], [8]), mkdir(12, [], [8], [CLOSE]), 1),
    # close handshake frame
    mkcase("corpus-closeframe", mkdir(13, [B(9)], [4]), mkdir(14, [B(3), B(0)], [1], [CLOSEFRAME, CLOSE]), 1),
    # the transport disappears in the middle of a message (client and server side)
    mkcase("corpus-cut-s", mkdir(15, [B(70)], [64]), mkdir(16, [B(7)], [16], [CUT(100, 40, True)]), 1),
    mkcase("corpus-cut-c", mkdir(17, [B(7)], [5], [CUT(300, 0, True)]), mkdir(18, [B(7)], [16]), 0),
    # protocol violation inside a fragmented message / at a message boundary
    mkcase("corpus-cut-other", mkdir(19, [B(7)], [16], [CUT(0, 4, False)]), mkdir(20, [], [16]), 0),
    mkcase("corpus-bad", mkdir(21, [], [16]), mkdir(22, [B(3)], [16], [BAD]), 1),
    # 64 KiB and 256 KiB transfers with large buffers, both directions at once
    mkcase("corpus-64k", mkdir(23, [B(65536), B(1), B(65535)], [65536]), mkdir(24, [B(70000)], [32768, 100], [CLOSE]), 1),
    mkcase("corpus-256k", mkdir(25, [B(262144)], [65536], [CLOSE]), mkdir(26, [B(131072), B(0), B(131072)], [65536, 4096]), 0),
    # single writes above 256 KiB (one websocket message each): nothing may cap a message
    mkcase("corpus-300k", mkdir(29, [B(300000)], [65536], [CLOSE]), mkdir(30, [B(262145), B(1)], [65536, 4096]), 0),
    mkcase("corpus-1m", mkdir(31, [B(1048576)], [65536], [CLOSE]), mkdir(32, [B(5)], [16]), 1),
    # pings are invisible
    mkcase("corpus-ping", mkdir(27, [B(3)], [2], [CLOSE]), mkdir(28, [PING, B(3), PING, B(0), PING, B(2)], [2]), 0),
]

SMALL_SIZES = [0, 0, 1, 1, 2, 3, 5, 8, 16, 31, 32, 33, 64, 100, 125, 126, 127, 128, 255, 256, 500, 1000]
MED_SIZES = [0, 1, 100, 1000, 4087, 4088, 4095, 4096, 4097, 8192, 9000, 16384, 20000, 32768, 65535, 65536]
MED_BUFS = [512, 1000, 4095, 4096, 4097, 8192, 16384, 32768, 65536]


def gen_dir(rng, seed, profile):
    if profile == "small":
        ops, total = [], 0
        for _ in range(rng.randint(0, 12)):
            r = rng.random()
            if r < 0.08:
                ops.append(T(rng.choice([0, 1, 5, 40])))
            elif r < 0.12:
                ops.append(dict(PING))
            else:
                n = rng.choice(SMALL_SIZES) if rng.random() < 0.7 else rng.randint(0, 1200)
                if total + n > 3000:
                    n = 0
                total += n
                ops.append(B(n))
        k = rng.randint(1, 4)
        bufs = [rng.choice([1, 1, 2, 3, 4, 7, 8, 16, 31, 64, 128, 1000, 4096]) if rng.random() < 0.8 else rng.randint(1, 300)
                for _ in range(k)]
        # bound the number of Read calls
        while total // min(bufs) > 1500:
            bufs[bufs.index(min(bufs))] = min(bufs) * 4
        return mkdir(seed, ops, bufs)
    limit = 65536 if profile == "medium" else 262144
    ops, total = [], 0
    for _ in range(rng.randint(1, 8)):
        n = rng.choice(MED_SIZES) if rng.random() < 0.7 else rng.randint(0, limit)
        if profile == "large" and rng.random() < 0.4:
            n = rng.choice([65536, 100000, 131072, 200000, 262144])
        if total + n > limit:
            n = max(0, limit - total)
        total += n
        ops.append(B(n))
        if rng.random() < 0.05:
            ops.append(T(rng.randint(0, 30)))
    k = rng.randint(1, 3)
    bufs = [rng.choice(MED_BUFS) if rng.random() < 0.8 else rng.randint(256, 65536) for _ in range(k)]
    return mkdir(seed, ops, bufs)


def gen_tail(rng):
    tail = []
    for _ in range(rng.choice([0, 0, 1, 2])):
        tail.append(B(rng.choice([0, 1, 3, 50, 300])))
    r = rng.random()
    if r < 0.5:
        tail.append(dict(CLOSE))
    elif r < 0.65:
        tail += [dict(CLOSEFRAME), dict(CLOSE)]
    elif r < 0.75:
        tail += [T(rng.randint(0, 20)), B(rng.randint(0, 40)), dict(CLOSE)]
    elif r < 0.86:
        m = rng.choice([0, 1, 10, 125, 126, 500])
        tail.append(CUT(m + rng.choice([1, 5, 1000, 70000]), m, True))
    elif r < 0.93:
        tail.append(CUT(0, rng.choice([0, 1, 10, 200]), False))
    else:
        tail.append(dict(BAD))
    return tail


def gen_ws_case(rng, cid):
    r = rng.random()
    profile = "small" if r < 0.72 else ("medium" if r < 0.95 else "large")
    closer = rng.randrange(2)
    d0 = gen_dir(rng, rng.randrange(1, 1 << 20), profile)
    d1 = gen_dir(rng, rng.randrange(1, 1 << 20), profile if rng.random() < 0.7 else "small")
    d = [d0, d1]
    d[closer]["tail"] = gen_tail(rng)
    return mkcase(cid, d0, d1, closer)


def executed_ops(case, d):
    """what direction d's writer puts on the wire, in order"""
    return list(case["dirs"][d]["ops"]) + (list(case["dirs"][d]["tail"]) if d == case["closer"] else [])


def nontrivial(case):
    for d in range(2):
        ops = executed_ops(case, d)
        mb = min(case["dirs"][d]["bufs"] or [4096])
        if any(o["op"] == "bin" and (o["n"] == 0 or o["n"] > mb) for o in ops):
            return True
        if any(o["op"] in ("text", "cut", "bad", "closeframe") for o in ops):
            return True
    return False


# ------------------------------------------------------------------ running the ws harness
def run_ws(binary, wd, cases, tag="ws", par=8):
    out, logtxt = run_harness(binary, {"cases": cases, "par": par}, wd, tag=tag, test="TestVerifHarness_WS", timeout=900)
    if out is None:
        raise RuntimeError("ws harness run failed:\n" + logtxt)
    return out["cases"]


# ------------------------------------------------------------------ independent monitor (ws mode)
def expected_terminal(ops):
    """error class of the sticky condition that ends the stream, or None"""
    for o in ops:
        if o["op"] in ("close", "closeframe"):
            return "closed"
        if o["op"] == "cut":
            return "closed" if o["closed"] else "other"
        if o["op"] == "bad":
            return "other"
    return None


def monitor_dir(case, d, out):
    """the property's own predicate on what the REAL reader of direction d observed"""
    do = out["dirs"][d]
    ops = executed_ops(case, d)
    payload = bytes.fromhex(do["payload"])
    reads = do["reads"] or []
    writer_is_closer = d == case["closer"]
    want_len = sum(o["n"] for o in ops if o["op"] == "bin") + sum(o["m"] for o in ops if o["op"] == "cut")
    for w in do["writes"] or []:
        if w["op"] == "bin" and (w["ret"] != w["n"] or w["err"] != "nil"):
            return {"sig": "write", "why": "Conn.Write(%d bytes) returned (%d, %s)" % (w["n"], w["ret"], w["err"])}
    if len(payload) != want_len:
        return {"sig": "write", "why": "writer put %d payload bytes on the wire, script has %d" % (len(payload), want_len)}
    delivered = b""
    others = 0
    for i, r in enumerate(reads):
        data = bytes.fromhex(r["d"])
        if r["n"] != len(data) or r["n"] < 0 or r["n"] > r["b"]:
            return {"sig": "count", "why": "read %d: returned n=%d with a %d byte buffer" % (i, r["n"], r["b"])}
        if r["n"] == 0 and r["e"] == "nil":
            return {"sig": "zero-nil", "why": "read %d returned (0, nil)" % i}
        if r["e"] == "timeout":
            return {"sig": "timeout", "why": "read %d blocked although the peer had %s" % (
                i, "closed" if writer_is_closer else "sent %d more bytes" % (len(payload) - len(delivered)))}
        delivered += data
        if not payload.startswith(delivered):
            return {"sig": "stream", "why": "read %d: bytes delivered are not a prefix of the bytes written (lost, duplicated, reordered or altered) at offset %d" % (i, len(delivered) - len(data))}
        if r["e"] == "other":
            others += 1
        if r["e"] == "closed" and delivered != payload:
            return {"sig": "early-close", "why": "read %d returned net.ErrClosed after %d of %d bytes" % (i, len(delivered), len(payload))}
    texts = sum(1 for o in ops if o["op"] == "text")
    if writer_is_closer:
        term = expected_terminal(ops)
        last = reads[-1]["e"] if reads else "none"
        if delivered != payload:
            return {"sig": "stream-incomplete", "why": "%d of %d bytes delivered before the stream ended with %s" % (len(delivered), len(payload), last)}
        if last != term:
            return {"sig": "terminal", "why": "stream ended with error class %s, expected %s" % (last, term)}
        if others != texts + (1 if term == "other" else 0):
            return {"sig": "text", "why": "%d non-binary/other errors for %d text frames" % (others, texts)}
    else:
        if not do["phase1_ok"] or delivered != payload:
            return {"sig": "stream-incomplete", "why": "%d of %d bytes delivered while the connection was open" % (len(delivered), len(payload))}
        if others != texts:
            return {"sig": "text", "why": "%d non-binary/other errors for %d text frames" % (others, texts)}
        if any(r["e"] not in ("nil", "other") for r in reads):
            return {"sig": "terminal", "why": "error %s on an open connection" % [r["e"] for r in reads if r["e"] not in ("nil", "other")][0]}
    return None


def monitor_case(case, out):
    if out.get("panic"):
        return {"sig": "panic", "why": "harness panic/watchdog: " + out["panic"], "dir": 0}
    for d in range(2):
        f = monitor_dir(case, d, out)
        if f:
            f["dir"] = d
            return f
    return None


# ------------------------------------------------------------------ trace -> Coq
def cs(hexs):
    return '(h "%s")' % hexs


def dir_to_coq(case, d, out):
    do = out["dirs"][d]
    payload = bytes.fromhex(do["payload"])
    abstract = len(payload) > CONCRETE_MAX

    def data(off, n):
        if abstract:
            return "(DSeq %d %d)" % (off, n)
        return "(DLit %s)" % cs(payload[off:off + n].hex())

    frames, off = [], 0
    for o in executed_ops(case, d):
        k = o["op"]
        if k == "bin":
            frames.append("FBin %s" % data(off, o["n"])); off += o["n"]
        elif k == "text":
            frames.append("FText (DLit %s)" % cs(("74" * o["n"])))
        elif k in ("close", "closeframe"):
            frames.append("FClose")
        elif k == "cut":
            frames.append("FBinCut %s %s" % (data(off, o["m"]), coq_bool(o["closed"]))); off += o["m"]
        elif k == "bad":
            frames.append("FErr")
    # the returned bytes once, concatenated; the calls run-length encoded (see rle_blocks)
    triples, pieces, pos = [], [], 0
    delivered = b""
    for r in do["reads"] or []:
        raw = bytes.fromhex(r["d"])
        triples.append((r["b"], r["n"], ERR_CODE.get(r["e"], 8)))
        if abstract:
            if payload[pos:pos + len(raw)] == raw:
                if raw:
                    if pieces and pieces[-1][0] == "seq" and pieces[-1][1] + pieces[-1][2] == pos:
                        pieces[-1][2] += len(raw)
                    else:
                        pieces.append(["seq", pos, len(raw)])
            else:
                pieces.append(["bad"])
        else:
            delivered += raw
        pos += len(raw)
    if abstract:
        data = ["(DSeq %d %d)" % (p[1], p[2]) if p[0] == "seq" else "DBad" for p in pieces]
    else:
        data = ["(DLit %s)" % cs(delivered[k:k + 2048].hex()) for k in range(0, len(delivered), 2048)]
    period = max(1, len(case["dirs"][d]["bufs"] or [1]))
    reads = ["(%d, %s)" % (rep, coq_list(["(%d, %d, %d)" % t for t in blk])) for rep, blk in rle_blocks(triples, period)]
    return "{| wc_frames := %s; wc_reads := %s; wc_data := %s |}" % (coq_list(frames), coq_list(reads), coq_list(data)), abstract


def rle_blocks(triples, period):
    """[(rep, block)]: the read calls cycle through the buffer list, so whole cycles tend to repeat"""
    out, i, n = [], 0, len(triples)
    while i < n:
        rep = 0
        for L in (period, 1):
            blk = triples[i:i + L]
            if len(blk) < L:
                continue
            rep = 1
            while triples[i + rep * L:i + (rep + 1) * L] == blk:
                rep += 1
            if rep >= 2:
                out.append((rep, blk)); i += rep * L
                break
            rep = 0
        if rep == 0:
            if out and out[-1][0] == 1 and len(out[-1][1]) < 64:
                out[-1][1].append(triples[i])
            else:
                out.append((1, [triples[i]]))
            i += 1
    return out


def cases_file(items):
    # one Definition per case: elaborating one huge list literal is much slower than many small terms
    body = ["From Coq Require Import List String NArith Bool.",
            "From Piko Require Import Base.Strs Stream.WsConn Run.Run_Stream.",
            "Import ListNotations. Open Scope string_scope. Open Scope list_scope. Open Scope N_scope."]
    for i, it in enumerate(items):
        body.append("Definition c%d : wcase := %s." % (i, it))
    body.append("Definition cases : list wcase := [%s]." % "; ".join("c%d" % i for i in range(len(items))))
    body.append("Definition M := Eval vm_compute in mismatches cases.")
    body.append("Print M.")
    return "\n".join(body) + "\n"


def parse_mismatches(out):
    m = re.search(r"M\s*=\s*(.*?)\s*:\s*list", out, flags=re.S)
    if not m:
        return None
    txt = m.group(1).strip()
    if txt == "[]":
        return []
    res = []
    for mm in re.finditer(r"\(\s*(\d+)\s*,\s*(\d+)\s*,\s*\[([^\]]*)\]\s*\)", txt.replace("%nat", "")):
        res.append((int(mm.group(1)), int(mm.group(2)), [int(x) for x in re.findall(r"\d+", mm.group(3))]))
    return res


def correspondence(wd, cases, outs, tag="ws", shard=120):
    """evaluate the model on every logged Read inside Coq. returns (disagreements, stats)"""
    items, index, nabs, nreads = [], [], 0, 0
    for ci, (c, o) in enumerate(zip(cases, outs)):
        if o.get("panic"):
            continue
        for d in range(2):
            txt, ab = dir_to_coq(c, d, o)
            items.append(txt); index.append((ci, d)); nabs += 1 if ab else 0
            nreads += len(o["dirs"][d]["reads"] or [])
    jobs = [(si, items[si:si + shard]) for si in range(0, len(items), shard)]

    def work(job):
        si, its = job
        rc, out = coq_eval(wd, "Cases_%s_%s_%d" % (ID, tag, si), cases_file(its))
        mm = parse_mismatches(out)
        if rc != 0 or mm is None:
            raise RuntimeError("coq evaluation of cases failed:\n" + out[-3000:])
        return [(si + i, s, codes) for (i, s, codes) in mm]

    dis = []
    with cf.ThreadPoolExecutor(max_workers=8) as ex:
        for r in ex.map(work, jobs):
            for (i, s, codes) in r:
                ci, d = index[i]
                dis.append({"case": ci, "dir": d, "step": s, "codes": codes, "names": [CODE_NAMES.get(x, str(x)) for x in codes]})
    return dis, {"histories": len(items), "reads": nreads, "abstract": nabs, "concrete": len(items) - nabs}


# ------------------------------------------------------------------ shrinking a failing ws case
def shrink_ws(case, fdir, fails, budget=40, seconds=45):
    """greedy reduction; fails(candidate) re-runs the compiled harness"""
    cur = json.loads(json.dumps(case))
    used = [0]
    t_end = time.time() + seconds

    def attempt(cand):
        if used[0] >= budget or time.time() > t_end:
            used[0] = budget
            return False
        used[0] += 1
        return fails(cand)

    def variants(c):
        o = 1 - fdir
        # silence the other direction
        if c["dirs"][o]["ops"]:
            v = json.loads(json.dumps(c)); v["dirs"][o]["ops"] = []; yield v
        if c["closer"] == o and c["dirs"][o]["tail"] != [CLOSE]:
            v = json.loads(json.dumps(c)); v["dirs"][o]["tail"] = [dict(CLOSE)]; yield v
        ops = c["dirs"][fdir]["ops"]
        # drop halves, then single ops
        n = len(ops)
        if n >= 2:
            for half in (ops[:n // 2], ops[n // 2:]):
                v = json.loads(json.dumps(c)); v["dirs"][fdir]["ops"] = list(half); yield v
        for i in range(n):
            v = json.loads(json.dumps(c)); v["dirs"][fdir]["ops"] = ops[:i] + ops[i + 1:]; yield v
        tail = c["dirs"][fdir]["tail"]
        if c["closer"] == fdir and len(tail) > 1:
            for i in range(len(tail) - 1):
                v = json.loads(json.dumps(c)); v["dirs"][fdir]["tail"] = tail[:i] + tail[i + 1:]; yield v
            if tail != [CLOSE]:
                v = json.loads(json.dumps(c)); v["dirs"][fdir]["tail"] = [dict(CLOSE)]; yield v
        bufs = c["dirs"][fdir]["bufs"]
        if len(bufs) > 1:
            for b in bufs:
                v = json.loads(json.dumps(c)); v["dirs"][fdir]["bufs"] = [b]; yield v
        for i, op in enumerate(ops):
            if op["op"] in ("bin", "text") and op["n"] > 1:
                for nn in (op["n"] // 2, 1):
                    v = json.loads(json.dumps(c)); v["dirs"][fdir]["ops"][i]["n"] = nn; yield v

    progress = True
    while progress and used[0] < budget:
        progress = False
        for v in variants(cur):
            if attempt(v):
                cur = v
                progress = True
                break
    return cur


# ------------------------------------------------------------------ tunnel (system) scenarios, monitor only
def chunks(rng, total, maxn=6):
    if total == 0:
        return [0] if rng.random() < 0.5 else []
    n = rng.randint(1, maxn)
    cuts = sorted(rng.randint(0, total) for _ in range(n - 1))
    out, prev = [], 0
    for c in cuts + [total]:
        out.append(c - prev); prev = c
    if rng.random() < 0.3:
        out.insert(rng.randrange(len(out) + 1), 0)      # an empty write
    return out


def gen_conn(rng, big=False):
    mode = rng.choice(["full", "full", "half"])
    closer = rng.choice(["client", "upstream"])
    sizes = [0, 1, 10, 100, 4096, 5000, 20000] if not big else [65536, 100000, 262144, 262145, 300000, 1048576]
    up, down = rng.choice(sizes), rng.choice(sizes)
    one_write = big and rng.random() < 0.6        # the whole payload in ONE Write call (one websocket message on a dialer leg)
    if mode == "half":
        if closer == "client":
            down = 0
        else:
            up = 0
    rb = lambda: [rng.choice([7, 100, 512, 4096, 32768, 65536]) for _ in range(rng.randint(1, 3))]
    c = {"up": [up] if one_write and up else chunks(rng, up), "down": [down] if one_write and down else chunks(rng, down), "rbuf_up": rb(), "rbuf_down": rb(),
         "closer": closer, "mode": mode, "seed": rng.randrange(1, 1 << 20)}
    if mode == "half":
        c["down" if closer == "client" else "up"] = []
    return c


def slow_consumer_scenarios():
    """thorough tier: the writer sends 200 KB and closes; the reader takes 7 s before it reads on. The stream still arrives whole,
    then end-of-stream - nothing may give up on a closed-but-unread stream after a few seconds"""
    mk = lambda closer: {"up": [200000] if closer == "client" else [], "down": [200000] if closer == "upstream" else [], "rbuf_up": [4096], "rbuf_down": [4096],
                         "closer": closer, "mode": "half", "seed": 4242, "pause_ms": 7000}
    return [{"id": "slow-consumer-1node", "nodes": 1, "entry": "dialer", "exit": "listener", "conns": [mk("client")]},
            {"id": "slow-consumer-2node", "nodes": 2, "entry": "dialer", "exit": "listener", "conns": [mk("client"), mk("upstream")]}]


def gen_scenarios(rng, tier):
    combos = [(1, "dialer", "listener"), (2, "dialer", "listener"), (1, "forwarder", "agent"), (2, "dialer", "clientfwd")]
    if tier != "quick":
        combos = [(n, e, x) for n in (1, 2) for e in ("dialer", "forwarder") for x in ("listener", "agent", "clientfwd")]
    scs = []
    for i, (n, e, x) in enumerate(combos):
        nconn = 4 if tier == "quick" else 10
        conns = [gen_conn(rng, big=(j == 1)) for j in range(nconn)]
        # always: a client-closes and an upstream-closes connection in both modes
        conns[0]["closer"], conns[-1]["closer"] = "client", "upstream"
        for c in (conns[0], conns[-1]):
            if c["mode"] == "half":
                if c["closer"] == "client":
                    c["down"] = []
                    if not c["up"]:
                        c["up"] = [5, 0, 1000]
                else:
                    c["up"] = []
                    if not c["down"]:
                        c["down"] = [5, 0, 1000]
        # both directions busy at the same moment for a long time: 3 MiB each way in 32 KiB writes (a buffer shared by the two
        # copiers of a leg, a frame interleaved into the other direction, all show as a differing byte)
        conns.insert(1, {"up": [32768] * 96, "down": [32768] * 96, "rbuf_up": [32768], "rbuf_down": [65536], "closer": "client" if i % 2 else "upstream",
                         "mode": "full", "seed": 900 + i})
        if x in ("agent", "clientfwd"):
            # the service behind the exit does not close when it sees end-of-stream (a publisher that never reads): the client
            # closed the tunnel, so the leg to the service has to be released all the same
            conns.insert(1, {"up": [5, 1000], "down": [], "rbuf_up": [512], "rbuf_down": [512], "closer": "client", "mode": "half",
                             "seed": 777 + i, "linger_ms": 4000})
        scs.append({"id": "t%d-%dn-%s-%s" % (i, n, e, x), "nodes": n, "entry": e, "exit": x, "conns": conns,
                    "echo_burst": 24 if (x in ("clientfwd", "agent") or i == 0) else 0})
    # endpoint ids with characters a URL gives a meaning to, through the real client.Dialer / client.Upstream (C01: never delivered
    # to an upstream of a different endpoint): next to each such endpoint listen the ids a careless URL construction would
    # fold it into - their listeners must never see a connection
    odd = [("db?replica", ["db"]), ("cach%65", ["cache", "cach"]), ("a#frag", ["a"]), ("x y", ["x"]), ("q?x=1&y=2", ["q"])]
    for k, (epid, decoys) in enumerate(odd if tier != "quick" else [odd[rng.randrange(len(odd))], odd[0]][:2]):
        scs.append({"id": "odd%d" % k, "nodes": 1 + k % 2, "entry": "dialer", "exit": "listener", "endpoint": epid, "decoys": decoys,
                    "conns": [{"up": [5, 100], "down": [7], "rbuf_up": [64], "rbuf_down": [64], "closer": "client", "mode": "full", "seed": 50 + k}],
                    "echo_burst": 0})
    if tier != "quick":
        scs += slow_consumer_scenarios()
    return scs


def run_tunnel(binary, wd, scenarios, tag="tunnel"):
    out, logtxt = run_harness(binary, {"scenarios": scenarios}, wd, tag=tag, test="TestVerifHarness_Tunnel", timeout=1500)
    if out is None:
        raise RuntimeError("tunnel harness run failed:\n" + logtxt)
    return out["scenarios"]


def monitor_scenario(sc, so):
    if so.get("decoy_hits"):
        return {"sig": "tunnel-wrong-endpoint", "why": "scenario %s: connections dialled to endpoint %r were delivered to the listener of endpoint %r" % (sc["id"], sc.get("endpoint"), so["decoy_hits"][0])}
    if so.get("panic"):
        return {"sig": "tunnel-panic", "why": "scenario %s: %s" % (sc["id"], so["panic"])}
    for i, (spec, co) in enumerate(zip(sc["conns"], so["conns"])):
        where = "scenario %s connection %d (%s closes, %s)" % (sc["id"], i, spec["closer"], spec["mode"])
        for dirn, gk, sk in (("client->upstream", "got_up", "sent_up"), ("upstream->client", "got_down", "sent_down")):
            if co[sk].startswith("big:") or co[gk].startswith("big:"):
                # fingerprints of streams above 256 KiB: big:<length>:<sha256 prefix>:<first differing offset>
                g, s_ = co[gk].split(":"), co[sk].split(":")
                if g[1:3] != s_[1:3]:
                    return {"sig": "tunnel-stream", "why": "%s: %s stream differs: %s of %s bytes arrived, first differing byte at offset %s" % (where, dirn, g[1], s_[1], g[3])}
                continue
            if co[gk] != co[sk]:
                return {"sig": "tunnel-stream", "why": "%s: %s stream differs: %d of %d bytes%s" % (
                    where, dirn, len(co[gk]) // 2, len(co[sk]) // 2, "" if co[sk].startswith(co[gk]) else " and not a prefix")}
        if co["error"]:
            return {"sig": "tunnel-error", "why": "%s: %s" % (where, co["error"])}
        if co["zero_reads"]:
            return {"sig": "tunnel-zero-nil", "why": "%s: %d reads returned (0, nil)" % (where, co["zero_reads"])}
        if not co["eof_seen"]:
            return {"sig": "tunnel-eof", "why": "%s: the other end did not observe end-of-stream (%s)" % (where, co["eof_class"])}
        if spec.get("linger_ms") and not co.get("linger_closed"):
            return {"sig": "tunnel-half-released", "why": "%s: the client closed the tunnel; the service behind the %s exit saw end-of-stream but could still write to its connection %d ms later - the leg to the service was not released"
                    % (where, sc["exit"], co.get("linger_ms", 0))}
    if so.get("decoy_hits"):
        return {"sig": "tunnel-wrong-endpoint", "why": "scenario %s: connections dialled to endpoint %r were delivered to the listener of endpoint %r" % (sc["id"], sc.get("endpoint"), so["decoy_hits"][0])}
    if so.get("burst_bad"):
        return {"sig": "tunnel-burst", "why": "scenario %s: %d clients connected at the same moment to an echoing upstream end: %s" % (sc["id"], so.get("burst_n", 0), "; ".join(so["burst_bad"]))}
    if len(so["conns"]) != len(sc["conns"]) or so.get("failed"):
        return {"sig": "tunnel-panic", "why": "scenario %s: %d of %d connections ran" % (sc["id"], len(so["conns"]), len(sc["conns"]))}
    if not so["released"]:
        return {"sig": "tunnel-leak", "why": "scenario %s: %d goroutines of tunnelled connections still alive (baseline %d) long after every connection was closed" % (
            sc["id"], so["legs_final"], so["legs_base"])}
    return None


# ------------------------------------------------------------------ run / replay
def known_sig(sig):
    for k in known_findings():
        if k["kind"] == "known" and k["property"] == ID and k["sig"] == sig:
            return k
    return None


def trim_case(case):
    return {"id": case["id"], "closer": case["closer"],
            "dirs": [{"ops": d["ops"][:8], "tail": d["tail"], "bufs": d["bufs"]} for d in case["dirs"]]}


def run(ctx):
    rng = random.Random(ctx["seed"])
    quick = ctx["tier"] == "quick"
    n = 190 if quick else 3000
    cases = [json.loads(json.dumps(c)) for c in CORPUS] + [gen_ws_case(rng, "g%d" % i) for i in range(n)]
    scenarios = gen_scenarios(rng, ctx["tier"])
    ws_bin = build_harness("pkg/websocket")
    tun_bin = build_harness("tests/server")

    # the system scenarios run in their own process while the ws campaign and its Coq evaluation go on
    tun = {}

    def tunnel_job():
        try:
            t0 = time.time()
            tun["outs"] = run_tunnel(tun_bin, ctx["wd"], scenarios)
            tun["secs"] = time.time() - t0
        except Exception as e:      # reported below
            tun["error"] = repr(e)
    th = threading.Thread(target=tunnel_job)
    th.start()

    # backpressure probe (monitor only), also on its own: a reader that does not read for a while - 1.5 s always, 11 s in
    # the thorough tier - while the writer has far more to send than the buffers hold; nothing may fail or be lost
    stall = {}
    stall_cases = [{"id": "stall-1500", "closer": 0, "dirs": [mkdir(1, [], [16]), mkdir(2, [], [16])], "stall_ms": 1500, "stall_total": 8 << 20}]
    stall_cases.append({"id": "stall-close", "closer": 0, "dirs": [mkdir(1, [], [16]), mkdir(2, [], [16])], "stall_ms": 1, "stall_close": True, "stall_total": 64 << 20})
    if not quick:
        stall_cases.append({"id": "stall-11000", "closer": 0, "dirs": [mkdir(1, [], [16]), mkdir(2, [], [16])], "stall_ms": 11000, "stall_total": 16 << 20})

    def stall_job():
        try:
            stall["outs"] = run_ws(ws_bin, ctx["wd"], stall_cases, tag="ws_stall", par=2)
        except Exception as e:
            stall["error"] = repr(e)
    th2 = threading.Thread(target=stall_job)
    th2.start()

    t1 = time.time()
    ncorp = len(CORPUS)
    outs = run_ws(ws_bin, ctx["wd"], cases[:ncorp], tag="ws_corpus")
    if any(monitor_case(c, o) for c, o in zip(cases, outs)):
        # the hand-picked connections already fail: that is a failing input, skip the random campaign
        log("[C07] corpus connection fails the stream monitor; random campaign skipped")
        cases = cases[:ncorp]
    else:
        outs += run_ws(ws_bin, ctx["wd"], cases[ncorp:])
    log("[C07] ws harness: %d connections in %.1fs" % (len(cases), time.time() - t1))
    violations, known = [], []
    mon_fail = []
    for c, o in zip(cases, outs):
        f = monitor_case(c, o)
        if f:
            mon_fail.append((c, o, f))
    t1 = time.time()
    dis, cstats = correspondence(ctx["wd"], cases, outs)
    log("[C07] model replay in Coq: %d directions, %d reads, %d disagreements in %.1fs" % (
        cstats["histories"], cstats["reads"], len(dis), time.time() - t1))
    t1 = time.time()
    th.join()
    log("[C07] tunnel scenarios joined after a further %.1fs (own time %.1fs)" % (time.time() - t1, tun.get("secs", 0)))

    th2.join()
    if stall.get("error"):
        raise RuntimeError("ws stall probe failed to run: " + stall["error"])
    for c, o in zip(stall_cases, stall["outs"]):
        st = o.get("stall") or {}
        why = None
        if o.get("panic"):
            why = "panic: " + o["panic"]
        elif c.get("stall_close"):
            if not st.get("close_returned"):
                why = "Close() of the writing side did not return within 4 s while its Write was blocked by the stalled reader (%d bytes accepted so far)" % st.get("written", 0)
            elif not st.get("write_released"):
                why = "Close() returned after %d ms but the blocked Write was not released" % st.get("close_ms", -1)
        elif st.get("write_err"):
            why = "Write failed with %r after %d of %d bytes" % (st["write_err"], st.get("written", 0), c["stall_total"])
        elif st.get("read") != c["stall_total"] or not st.get("intact"):
            why = "%d of %d bytes arrived (%s), read ended with %r" % (st.get("read", 0), c["stall_total"], "intact" if st.get("intact") else "corrupted", st.get("read_err"))
        if why:
            violations.append({"what": ("C07 ws backpressure probe: the reader never read; %s" % why) if c.get("stall_close") else
                                       "C07 ws backpressure probe: the reader paused for %d ms while %d bytes were being written: %s" % (c["stall_ms"], c["stall_total"], why),
                               "found_input": True, "replay_obj": {"property": ID, "kind": "ws-stall", "signature": "stall", "why": why, "case": c, "observed": st}})
            break

    seen = set()
    for c, o, f in mon_fail:
        if f["sig"] in seen:
            continue
        seen.add(f["sig"])
        k = known_sig(f["sig"])
        if k:
            known.append("sig=%s %s" % (f["sig"], k["text"]))
            continue

        def fails(cand, sig=f["sig"]):
            oo = run_ws(ws_bin, ctx["wd"], [cand], tag="shrink")[0]
            ff = monitor_case(cand, oo)
            return ff is not None and ff["sig"] == sig
        small = shrink_ws(c, f["dir"], fails) if f["sig"] != "panic" else c
        oo = run_ws(ws_bin, ctx["wd"], [small], tag="shrink")[0]
        ff = monitor_case(small, oo) or f
        violations.append({"what": "C07 ws monitor [%s]: %s (direction %d of case %s)" % (f["sig"], ff["why"], ff.get("dir", f["dir"]), small["id"]),
                           "found_input": True,
                           "replay_obj": {"property": ID, "kind": "ws", "signature": f["sig"], "why": ff["why"], "case": small,
                                          "observed": trim_obs(oo)}})
    if dis and not mon_fail:
        # model and implementation disagree although the stream monitor is satisfied: look harder around the case
        d = dis[0]
        c = cases[d["case"]]
        extra = [gen_ws_case(random.Random(ctx["seed"] * 1000 + i), "x%d" % i) for i in range(60)]
        eouts = run_ws(ws_bin, ctx["wd"], extra, tag="extra")
        found = [(ec, eo, monitor_case(ec, eo)) for ec, eo in zip(extra, eouts)]
        found = [(ec, eo, f) for ec, eo, f in found if f]
        if found:
            ec, eo, f = found[0]
            violations.append({"what": "C07 ws monitor [%s]: %s" % (f["sig"], f["why"]), "found_input": True,
                               "replay_obj": {"property": ID, "kind": "ws", "signature": f["sig"], "why": f["why"], "case": ec,
                                              "observed": trim_obs(eo)}})
        else:
            violations.append({"what": "model/implementation disagreement (%s) at read %d of direction %d of case %s, stream monitor satisfied"
                                       % (",".join(d["names"]), d["step"], d["dir"], c["id"]), "found_input": False,
                               "replay_obj": {"broken": "corr:C07:ws:" + "+".join(d["names"]), "property": ID, "kind": "ws",
                                              "disagreement": d, "case": c, "observed": trim_obs(outs[d["case"]])}})

    # ---- system path
    tun_fail = []
    tstats = {"scenarios": len(scenarios), "connections": 0, "bytes": 0, "failures": 0}
    if "error" in tun:
        violations.append({"what": "tunnel harness did not run: " + tun["error"][:400], "found_input": False,
                           "replay_obj": {"broken": "corr:C07:tunnel:harness-run", "detail": tun["error"][-3000:]}})
    else:
        for sc, so in zip(scenarios, tun["outs"]):
            tstats["connections"] += len(so["conns"])
            tstats["bytes"] += sum((int(co[k].split(":")[1]) if co[k].startswith("big:") else len(co[k]) // 2) for co in so["conns"] for k in ("got_up", "got_down"))
            f = monitor_scenario(sc, so)
            if f:
                tun_fail.append((sc, so, f))
        tstats["failures"] = len(tun_fail)
        tstats["goroutines"] = [[so["baseline"], so["final"], so["legs_base"], so["legs_final"]] for so in tun["outs"]]
        tstats["scenarios_run"] = len(tun["outs"])
        seen = set()
        for sc, so, f in tun_fail:
            if f["sig"] in seen:
                continue
            seen.add(f["sig"])
            k = known_sig(f["sig"])
            if k:
                known.append("sig=%s %s" % (f["sig"], k["text"]))
                continue
            if f["sig"] == "tunnel-eof" and "(reset:" in f["why"]:
                # both streams arrived complete and the close WAS observed, as a TCP reset instead of a clean EOF: the
                # kernel answers a websocket close frame that arrives after the other side has closed its socket with
                # RST - a race of the environment under load, not reproducible on demand. Raised only if it reproduces.
                again = run_tunnel(tun_bin, ctx["wd"], [sc], tag="tunnel-again")[0]
                f2 = monitor_scenario(sc, again)
                if not (f2 and f2["sig"] == "tunnel-eof"):
                    tstats.setdefault("unreproduced", []).append(f["why"][:300])
                    log("[C07] tunnel-eof (reset) on %s did not reproduce on a second run of the scenario" % sc["id"])
                    continue
            violations.append({"what": "C07 tunnel monitor [%s]: %s" % (f["sig"], f["why"]), "found_input": True,
                               "replay_obj": {"property": ID, "kind": "tunnel", "signature": f["sig"], "why": f["why"],
                                              "scenario": sc, "observed": trim_tunnel(so)}})

    nontriv = len({json.dumps(c["dirs"], sort_keys=True) + str(c["closer"]) for c in cases if nontrivial(c)})
    mix = {}
    for c in cases:
        for d in range(2):
            for o in executed_ops(c, d):
                key = o["op"] if not (o["op"] == "bin" and o["n"] == 0) else "bin-empty"
                mix[key] = mix.get(key, 0) + 1
    mix.update({"reads": cstats["reads"], "directions-as-positions": cstats["abstract"], "directions-as-bytes": cstats["concrete"],
                "payload_bytes": sum(len(o["dirs"][d]["payload"]) // 2 for o in outs for d in range(2))})
    cov = {"evaluations": len(cases) + tstats["connections"], "distinct_nontrivial": nontriv,
           "rule": "ws: corpus of hand-picked connections first, then random two-direction scripts of binary writes 0..256 KiB incl. empty ones, injected text/ping frames, read-buffer lists 1..64 KiB, terminal close / close frame / transport cut inside a message / protocol violation; non-trivial = some message is empty or larger than the smallest read buffer of its reader, or a frame was injected; distinct by script. tunnel: generated chunkings through Dialer|Forwarder -> 1|2 nodes -> Listener|agent tcpproxy|client forwarder",
           "samples": [trim_case(cases[0]), trim_case(cases[min(len(CORPUS) + 1, len(cases) - 1)]), {"tunnel": scenarios[0]["id"], "conn": scenarios[0]["conns"][0]}],
           "correspondence": {"harness": "harness/ws TestVerifHarness_WS (real pkg/websocket.Conn pairs over loopback)",
                              "histories": cstats["histories"], "ops": cstats["reads"], "distribution": mix,
                              "disagreements": len(dis), "seed": ctx["seed"]},
           "monitor": {"histories": len(cases) * 2, "failures": len(mon_fail)},
           "tunnel": tstats}
    return {"coverage": cov, "violations": violations, "known": known}


def trim_obs(o):
    """observations for a replay file: long hex strings shortened"""
    def short(s):
        return s if len(s) <= 400 else s[:200] + "...(%d bytes)..." % (len(s) // 2) + s[-100:]
    return {"panic": o.get("panic", ""),
            "dirs": [{"payload": short(d["payload"]), "writes": d["writes"], "phase1_ok": d["phase1_ok"],
                      "reads": [{"b": r["b"], "n": r["n"], "e": r["e"], "d": short(r["d"])} for r in (d["reads"] or [])[:200]]}
                     for d in o.get("dirs", [])]}


def trim_tunnel(so):
    def short(s):
        return s if len(s) <= 200 else s[:100] + "...(%d bytes)..." % (len(s) // 2) + s[-60:]
    return {"panic": so.get("panic", ""), "released": so.get("released"), "legs_base": so.get("legs_base"),
            "legs_final": so.get("legs_final"), "goroutines": (so.get("goroutines") or "")[:6000],
            "conns": [{k: (short(v) if isinstance(v, str) else v) for k, v in co.items()} for co in so.get("conns", [])]}


def replay(path, wd):
    obj = json.load(open(path))
    if obj.get("kind") == "tunnel":
        binary = build_harness("tests/server")
        so = run_tunnel(binary, wd, [obj["scenario"]], tag="replay")[0]
        print(json.dumps({"implementation": trim_tunnel(so), "monitor": monitor_scenario(obj["scenario"], so)}, indent=1))
        return 0
    case = obj["case"]
    binary = build_harness("pkg/websocket")
    out = run_ws(binary, wd, [case], tag="replay")[0]
    if obj.get("kind") == "ws-stall":
        print(json.dumps({"stall": out.get("stall"), "panic": out.get("panic")}, indent=1))
        return 0
    print(json.dumps({"implementation": trim_obs(out), "monitor": monitor_case(case, out)}, indent=1))
    dis, _ = correspondence(wd, [case], [out], tag="replay")
    print("model disagreements:", dis)
    return 0
