"""C20 - concurrent operation never deadlocks, panics or races on shared state.

Static half (the model is REGENERATED from the source on every run): harness/lockorder (x/tools SSA + CHA/VTA
call graph + flow-sensitive held-set analysis) extracts the relation "mutex m2 may be acquired while m1 is held"
from the current tree; Coq re-checks `acyclic edges = true` on the regenerated list and instantiates the generic
theorem (ordered acquisition => no deadlock, any number of threads and steps). Cycles / self edges / edges against
the documented hierarchy are reported by name with one witness call path per edge.
Dynamic half: harness/stress drives 3+ real nodes (manager + cluster state + gossip on loopback sockets, real
schedulers) under the race detector with a watchdog on every call, then checks registry == routing table ==
published gossip state at quiescence. Thorough tier: the extractor is validated against lock nestings recorded at
run time (mutex fields mechanically swapped for a recording type through the build overlay)."""
import json, os, random, re, shutil, threading, time

from lib.common import *
from props import sched_probe

ID = "C20"
COQ_TARGETS = ["ConcP/LockEdgesP.vo", "ConcP/ScheduleP.vo"]
META = {
    "text": "C20_atomic_calls_consistent (Conc/Atomic.v): a micro-step machine - any number of goroutines, each any sequence of AddConn/RemoveConn calls made of the individual updates (registry, routing table, read the count, publish the count read) between Lock and Unlock of the manager's mutex - under EVERY schedule ends with registry = routing table = published count; C20_early_unlock_refuted: releasing the mutex before the cluster is told loses that (the seeded lock-scope changes). Theorems (Properties/C20.v): for any ranking of mutexes respected by every goroutine no reachable state of the "
            "threads x mutexes machine is a deadlock, every run is bounded and can be completed (any number of threads and "
            "steps); the acyclicity checker is sound (accepted => ranking exists, so cycles and self edges are rejected); the "
            "lock graph extracted from the CURRENT source by harness/lockorder is acyclic (re-computed in Coq every run) and "
            "lies inside manager.mu < gossip clusterState.mu < syncer.mu < cluster State.mu < leaves; after completed "
            "AddConn/RemoveConn calls registry = routing table = published state. Partial: data-race freedom, absence of "
            "panics and wall-clock completion are tested by a -race stress run with a watchdog on every call, not proved. Round 6: the extractor also emits per-function facts (lock_holders: this function acquires mutex B - itself or through what it calls - while it holds mutex A); C20_registry_changes_publish_under_manager_lock proves on the regenerated table that AddConn and RemoveConn update the cluster state and publish to gossip while holding the manager's mutex, i.e. the hypothesis under which C20_atomic_calls_consistent speaks about the code.",
    "note": "Trusted: Coq kernel+VM, the SSA lock-order extractor (x/tools v0.29.0 CHA+VTA call graph), the Go race detector, "
            "the stress harness. RWMutex read locks modelled as exclusive. Channel waits are not modelled.",
    "technique": "Coq proof over a model regenerated from the source (lock relation extracted by SSA analysis, incl. per-function lock facts: the hypothesis of the atomicity theorem) + race-detector/"
                 "watchdog stress of the real code + quiescent consistency monitor (+ run-time validation of the extractor in "
                 "the thorough tier)",
}
ASSUMPTIONS = [
    "a goroutine is abstracted to its sequence of Lock/Unlock operations; code between two lock operations terminates "
    "(no channel receive/WaitGroup wait for another goroutine while a mutex is held - the extractor lists go statements "
    "made while holding a piko mutex: none)",
    "sync.RWMutex read locks are treated as exclusive locks (conservative for deadlock: a Go reader blocks behind a waiting "
    "writer)",
    "mutex identity is (struct type, field): two instances of one type count as one mutex, so nesting two instances is "
    "reported as a self edge",
    "only mutexes declared in the piko module are in the relation; library mutexes (prometheus, zap, yamux, net/http ...) "
    "are tracked inside single library functions only and are assumed to be released before those functions return; the "
    "extractor reports every piko mutex that may be acquired synchronously while such a library mutex is held: none",
    "data-race freedom, absence of panics and completion within 10 s per call are established by testing (race detector, "
    "watchdog) for the schedules the stress run happened to produce, not proved",
    "node expiry (1 minute constant in pkg/gossip) is only reached in the thorough tier",
]
TRUSTED = [
    "harness/lockorder (Go, ~800 lines): assumes no locking through reflection or unsafe; dynamic calls (interfaces, stored "
    "closures, bound methods) are resolved by class hierarchy analysis refined by variable type analysis "
    "(golang.org/x/tools v0.29.0 go/callgraph/{cha,vta}, sound modulo reflection/unsafe); a `go f()` made while holding is "
    "treated like a call (the new goroutine does not inherit locks, this only adds edges); the address of a piko mutex is "
    "only ever used as receiver of a direct sync.(RW)Mutex method call (checked, violations are reported); deferred calls "
    "are charged with every mutex the function may hold anywhere; unlocks performed by callees are ignored (adds edges)",
    "Go race detector (ThreadSanitizer runtime) and the Go scheduler: only the interleavings that occurred are examined",
    "harness/stress/vhst_test.go (placeholder upstreams and sessions, real manager / cluster state / gossip / sockets)",
]

HIER = {"server/upstream.LoadBalancedManager.mu": 0, "pkg/gossip.clusterState.mu": 1, "server/gossip.syncer.mu": 2,
        "server/cluster.State.mu": 3, "pkg/gossip.accrualFailureDetector.mu": 4, "server/upstream.Server.sessionsMu": 5}
HIER_TEXT = "LoadBalancedManager.mu < gossip clusterState.mu < syncer.mu < cluster State.mu < {accrualFailureDetector.mu, Server.sessionsMu}"
EXPECTED_EDGES = [("server/upstream.LoadBalancedManager.mu", "server/cluster.State.mu"),
                  ("server/upstream.LoadBalancedManager.mu", "pkg/gossip.clusterState.mu"),
                  ("pkg/gossip.clusterState.mu", "server/cluster.State.mu"),
                  ("pkg/gossip.clusterState.mu", "server/gossip.syncer.mu"),
                  ("pkg/gossip.clusterState.mu", "pkg/gossip.accrualFailureDetector.mu"),
                  ("server/gossip.syncer.mu", "server/cluster.State.mu")]
ANCHORED = ["server/upstream/manager.go", "server/upstream/server.go", "server/cluster/state.go", "server/gossip/syncer.go",
            "pkg/gossip/state.go", "pkg/gossip/failuredetector.go"]
LODIR = os.path.join(VERIF, "harness", "lockorder")
_MGR, _CL, _GS = "server/upstream.LoadBalancedManager.mu", "server/cluster.State.mu", "pkg/gossip.clusterState.mu"
REQUIRED_HOLDERS = [(f, _MGR, t) for f in ("(*server/upstream.LoadBalancedManager).AddConn", "(*server/upstream.LoadBalancedManager).RemoveConn") for t in (_CL, _GS)]
GEN = os.path.join(COQ, "generated", "LockEdges.v")
STRESS_PKG = "server/upstream"
STRESS_TEST = "TestVerifHarness_Stress"


# ------------------------------------------------------------------ extractor
def build_extractor(wd):
    d = os.path.join(wd, "lockorder")
    os.makedirs(d, exist_ok=True)
    out = os.path.join(d, "lockorder")
    with Lock("gobuild"):
        t0 = time.time()
        p = sh(["go", "build", "-o", out, "."], cwd=LODIR, env=GOENV, timeout=900, check=False)
        if p.returncode != 0:
            raise BuildError("lockorder extractor does not build:\n" + p.stdout[-3000:])
        log("[go] built lockorder extractor in %.1fs" % (time.time() - t0))
    return out


def run_extractor(binary, wd, tag="cur", cg="vta"):
    d = os.path.join(wd, "lockorder")
    vpath, jpath = os.path.join(d, "LockEdges.%s.v" % tag), os.path.join(d, "report.%s.json" % tag)
    for f in (vpath, jpath):
        if os.path.exists(f):
            os.remove(f)
    t0 = time.time()
    p = sh([binary, "-repo", REPO, "-coq", vpath, "-json", jpath, "-cg", cg], cwd=d, env=GOENV, timeout=1200, check=False)
    if p.returncode != 0 or not os.path.exists(jpath):
        raise BuildError("lockorder extractor failed on %s (the tree does not load / type-check?):\n%s" % (REPO, p.stdout[-3000:]))
    log("[lockorder] %s (%.1fs)" % (p.stdout.strip().split("\n")[-1], time.time() - t0))
    rep = json.load(open(jpath))
    rep["edges"] = rep.get("edges") or []
    return rep, open(vpath).read()


def find_cycles(edges):
    """one cycle per strongly connected component that has one (self loops included), as node lists a,b,..,a"""
    adj = {}
    for a, b in edges:
        adj.setdefault(a, []).append(b)
        adj.setdefault(b, [])
    index, low, stack, on, comps, counter = {}, {}, [], set(), [], [0]

    def strong(v):
        index[v] = low[v] = counter[0]
        counter[0] += 1
        stack.append(v)
        on.add(v)
        for w in adj[v]:
            if w not in index:
                strong(w)
                low[v] = min(low[v], low[w])
            elif w in on:
                low[v] = min(low[v], index[w])
        if low[v] == index[v]:
            comp = []
            while True:
                w = stack.pop()
                on.discard(w)
                comp.append(w)
                if w == v:
                    break
            comps.append(comp)
    for v in sorted(adj):
        if v not in index:
            strong(v)
    cycles = []
    for comp in comps:
        cs = set(comp)
        for v in sorted(comp):
            if v in adj[v]:
                cycles.append([v, v])
        if len(comp) > 1:
            start = sorted(comp)[0]
            # shortest cycle through start inside the component (BFS)
            prev, q = {start: None}, [start]
            found = None
            while q and found is None:
                x = q.pop(0)
                for y in adj[x]:
                    if y == x:
                        continue  # self loops are reported separately
                    if y == start:
                        found = x
                        break
                    if y in cs and y not in prev:
                        prev[y] = x
                        q.append(y)
            path = []
            x = found
            while x is not None:
                path.append(x)
                x = prev[x]
            cycles.append(list(reversed(path)) + [start])
    return cycles


def witness(rep, a, b):
    for e in rep["edges"]:
        if e["from"] == a and e["to"] == b:
            return "%s locked %s at %s; then (%s at %s) %s" % (e["holder"], a, e["held_since"], e["kind"], e["site"], " -> ".join(e["path"]))
    return "?"


def coq_run_check(wd, rep, acyclic_py):
    """re-check the theorems on the list extracted in THIS run (inside Coq)"""
    edges = [(e["from"], e["to"]) for e in rep["edges"]]
    q = lambda s: '"%s"' % s.replace('"', '""')
    body = ["From Coq Require Import List String Bool.",
            "From Piko Require Import Conc.LockOrder Conc.Acyclic Conc.Expected ConcP.LockEdgesP.",
            "Import ListNotations. Open Scope string_scope.",
            "Definition run_edges : list (string * string) := [%s]." % "; ".join("(%s, %s)" % (q(a), q(b)) for a, b in edges),
            "Definition run_holders : list holder := [%s]." % "; ".join("(%s, %s, %s)" % (q(f.replace("(*", "(^").replace("*)", "^)")), q(a), q(b)) for f, a, b in (rep.get("holders") or [])),
            "Definition HP := Eval vm_compute in holders_present run_holders. Print HP.",
            "Definition A := Eval vm_compute in acyclic run_edges. Print A.",
            "Definition E := Eval vm_compute in filter (fun e => negb (edge_expected e)) run_edges. Print E."]
    if acyclic_py:
        body += ["Theorem run_acyclic : acyclic run_edges = true. Proof. vm_compute. reflexivity. Qed.",
                 "Theorem run_no_deadlock : forall s0 s, init_within run_edges s0 -> steps s0 s -> ~ deadlocked s.",
                 "Proof. exact (acyclic_no_deadlock run_edges run_acyclic). Qed.",
                 "Print Assumptions run_no_deadlock."]
    rc, out = coq_eval(wd, "RunEdges", "\n".join(body) + "\n", timeout=600)
    flat = re.sub(r"\s+", " ", out)
    return {"rc": rc, "holders_present": "HP = true" in flat, "acyclic": "A = true" in flat, "acyclic_false": "A = false" in flat, "unexpected_empty": "E = []" in flat,
            "closed": "Closed under the global context" in out, "log": out[-3000:]}


# ------------------------------------------------------------------ stress
def stress_input(ctx, seed, thorough):
    return {"seed": seed, "duration_ms": 75000 if thorough else 10000, "watchdog_ms": 10000, "interval_ms": 20, "nodes": 3,
            "endpoints": 300, "conn_workers": 6, "read_workers": 3, "membership": True, "expiry_wait": thorough,
            "converge_ms": 5000}


def run_stress(binary, inp, wd, tag, extra_env=None):
    inpath, outpath = os.path.join(wd, tag + ".in.json"), os.path.join(wd, tag + ".out.json")
    json.dump(inp, open(inpath, "w"))
    if os.path.exists(outpath):
        os.remove(outpath)
    env = dict(GOENV)
    env.update({"VERIF_IN": inpath, "VERIF_OUT": outpath, "GORACE": "halt_on_error=0"})
    env.update(extra_env or {})
    limit = inp["duration_ms"] // 1000 + inp["watchdog_ms"] // 1000 + 180
    t0 = time.time()
    try:
        p = sh([binary, "-test.run", "^" + STRESS_TEST + "$", "-test.count=1", "-test.timeout", "%ds" % limit],
               cwd=wd, env=env, timeout=limit + 60, check=False)
        rc, text = p.returncode, p.stdout
    except Exception as e:  # subprocess.TimeoutExpired
        rc, text = -1, "harness process did not exit: " + repr(e)[:300]
    res = {"rc": rc, "out": None, "log": text[-20000:], "wall_s": round(time.time() - t0, 1)}
    if os.path.exists(outpath):
        try:
            res["out"] = json.load(open(outpath))
        except Exception:
            pass
    races = []
    if "WARNING: DATA RACE" in text:
        for blk in text.split("==================")[0:40]:
            if "WARNING: DATA RACE" in blk:
                races.append(blk.strip()[:5000])
    res["races"] = races
    m = re.search(r"(fatal error: [^\n]*|panic: [^\n]*)", text)
    res["crash"] = m.group(1) if (m and rc != 0) else None
    return res


def race_signature(blk):
    fr = re.findall(r"^\s+([A-Za-z0-9_./*()\[\]-]+)\(\)\n\s+(\S+?):(\d+)", blk, flags=re.M)
    return "; ".join("%s (%s:%s)" % (f, os.path.basename(p), l) for f, p, l in fr[:2]) or blk[:120]


def blocked_summary(dump):
    """from the goroutine dump: the piko frames of goroutines parked in a mutex acquisition (who waits where)"""
    chains = {}
    for g in (dump or "").split("\n\n"):
        head = g.split("\n", 1)[0]
        if "sync.Mutex.Lock" not in head and "sync.RWMutex" not in head:
            continue
        frames = re.findall(r"^github\.com/andydunstall/piko/(.+?)\([^()]*\)\s*$", g, flags=re.M)
        frames = [f for f in frames if "vhst" not in f and "TestVerifHarness" not in f][:6]
        if frames:
            key = " <- ".join(frames)
            chains[key] = chains.get(key, 0) + 1
    return ["%d goroutine(s) blocked in Lock: %s" % (n, k) for k, n in sorted(chains.items(), key=lambda kv: -kv[1])][:8]


def stress_verdict(res, inp):
    """independent monitor on what the real code did: [(signature, what, extra)]"""
    bad = []
    o = res["out"]
    for blk in res["races"][:1]:
        bad.append(("race", "data race reported by the race detector (%d report(s)): %s" % (len(res["races"]), race_signature(blk)),
                    {"race_reports": res["races"][:3]}))
    if o is None:
        bad.append(("crash", "stress harness died without a result (rc=%s): %s" % (res["rc"], res["crash"] or res["log"][-300:].replace("\n", " | ")),
                    {"log": res["log"][-8000:]}))
        return bad
    if o.get("setup_error"):
        bad.append(("setup", "stress harness could not set its nodes up: " + o["setup_error"], {}))
    if o.get("timeouts"):
        t = o["timeouts"][0]
        blocked = blocked_summary(o.get("goroutines"))
        bad.append(("timeout", "%d call(s) did not return within %d ms (deadlock / unbounded blocking), first: %s by worker %s; %s"
                    % (len(o["timeouts"]), inp["watchdog_ms"], t["op"], t["worker"], "; ".join(blocked[:3])),
                    {"timeouts": o["timeouts"], "blocked": blocked, "goroutine_dump": (o.get("goroutines") or "")[:200000]}))
    if o.get("panics"):
        bad.append(("panic", "panic in a concurrent call: " + o["panics"][0][:300].replace("\n", " | "), {"panics": o["panics"][:5]}))
    for c in o.get("consistency") or []:
        if not c["equal"]:
            bad.append(("inconsistent", "at quiescence registry / routing table / published gossip state of %s differ: %s"
                        % (c["node"], "; ".join(c["diff"][:4])), {"node_check": c}))
            break
    if o.get("completed") and res["rc"] != 0 and not res["races"]:
        bad.append(("crash", "stress harness exited with rc=%s: %s" % (res["rc"], res["crash"] or res["log"][-300:].replace("\n", " | ")),
                    {"log": res["log"][-8000:]}))
    return bad


# ------------------------------------------------------------------ run-time validation of the extractor (thorough)
REC_PKG = "pkg/zzvhlockrec"
REC_SRC = '''package zzvhlockrec

// generated by /verif/props/C20.py - recording mutexes (C20, validation of the lock-order extractor)
import (
	"os"
	"runtime"
	"sync"
)

var (
	mu    sync.Mutex
	held  = map[uint64][]string{}
	pairs = map[[2]string]struct{}{}
)

func gid() uint64 {
	var b [64]byte
	n := runtime.Stack(b[:], false)
	var id uint64
	for _, c := range b[len("goroutine "):n] {
		if c < '0' || c > '9' {
			break
		}
		id = id*10 + uint64(c-'0')
	}
	return id
}

func acquired(name string) {
	g := gid()
	mu.Lock()
	for _, h := range held[g] {
		k := [2]string{h, name}
		if _, ok := pairs[k]; !ok {
			pairs[k] = struct{}{}
			if p := os.Getenv("VERIF_LOCKREC"); p != "" {
				if f, err := os.OpenFile(p, os.O_APPEND|os.O_CREATE|os.O_WRONLY, 0o644); err == nil {
					_, _ = f.WriteString(h + "\\t" + name + "\\n")
					_ = f.Close()
				}
			}
		}
	}
	held[g] = append(held[g], name)
	mu.Unlock()
}

func released(name string) {
	g := gid()
	mu.Lock()
	hs := held[g]
	for i := len(hs) - 1; i >= 0; i-- {
		if hs[i] == name {
			hs = append(hs[:i], hs[i+1:]...)
			break
		}
	}
	if len(hs) == 0 {
		delete(held, g)
	} else {
		held[g] = hs
	}
	mu.Unlock()
}
'''
REC_TYPE = '''
type %(T)s struct{ m sync.%(K)s }

func (x *%(T)s) Lock()   { x.m.Lock(); acquired("%(N)s") }
func (x *%(T)s) Unlock() { released("%(N)s"); x.m.Unlock() }
'''
REC_RW = '''func (x *%(T)s) RLock()   { x.m.RLock(); acquired("%(N)s") }
func (x *%(T)s) RUnlock() { released("%(N)s"); x.m.RUnlock() }
'''


def recording_overlay(wd):
    """mechanically rewritten copies of the CURRENT text of the anchored files: every struct field of type sync.Mutex /
    sync.RWMutex gets a recording type (nothing else changes), plus the generated recorder package"""
    d = os.path.join(wd, "rec")
    shutil.rmtree(d, ignore_errors=True)
    os.makedirs(d)
    repl, types, fields = {}, [], []
    for rel in ANCHORED:
        src = open(os.path.join(REPO, rel)).read()
        pkg = os.path.dirname(rel)
        cur, out, changed = None, [], False
        for line in src.split("\n"):
            m = re.match(r"^type\s+(\w+)\s+struct\s*\{", line)
            if m:
                cur = m.group(1)
            elif line.startswith("}"):
                cur = None
            m = re.match(r"^(\s+)(\w+)(\s+)sync\.(Mutex|RWMutex)\s*(//.*)?$", line)
            if m and cur:
                name = "%s.%s.%s" % (pkg, cur, m.group(2))
                tname = "M_" + re.sub(r"\W", "_", name)
                types.append((tname, m.group(4), name))
                fields.append(name)
                line = "%s%s%szzvhlockrec.%s" % (m.group(1), m.group(2), m.group(3), tname)
                changed = True
            out.append(line)
        if not changed:
            continue
        text = "\n".join(out)
        text = re.sub(r"\nimport \(\n", '\nimport (\n\t"github.com/andydunstall/piko/%s"\n' % REC_PKG, text, count=1)
        if not re.search(r"\bsync\.", text.replace("zzvhlockrec.", "")):
            text = re.sub(r'\n\t"sync"\n', "\n", text, count=1)
        dst = os.path.join(d, rel.replace("/", "__"))
        open(dst, "w").write(text)
        repl[os.path.join(REPO, rel)] = dst
    rec = REC_SRC
    for t, k, n in types:
        rec += REC_TYPE % {"T": t, "K": k, "N": n}
        if k == "RWMutex":
            rec += REC_RW % {"T": t, "N": n}
    dst = os.path.join(d, "zzvhlockrec.go")
    open(dst, "w").write(rec)
    repl[os.path.join(REPO, REC_PKG, "zzvhlockrec.go")] = dst
    return repl, fields


def build_recording_harness(wd):
    repl, fields = recording_overlay(wd)
    ov = overlay_for([STRESS_PKG], ["stress"])
    ov["Replace"].update(repl)
    ovp = os.path.join(wd, "rec", "overlay.json")
    json.dump(ov, open(ovp, "w"))
    out = os.path.join(wd, "rec", "stress_rec.test")
    with Lock("gobuild"):
        t0 = time.time()
        p = sh(["go", "test", "-c", "-tags", "verif", "-overlay", ovp, "-vet=off", "-o", out, "./" + STRESS_PKG],
               cwd=REPO, env=GOENV, timeout=1500, check=False)
        if p.returncode != 0:
            raise BuildError("recording-mutex build failed:\n" + p.stdout[-4000:])
        log("[go] built recording-mutex stress binary in %.1fs" % (time.time() - t0))
    return out, fields


def validate_extractor(ctx, rep):
    wd = ctx["wd"]
    binary, fields = build_recording_harness(wd)
    recfile = os.path.join(wd, "rec", "pairs.tsv")
    if os.path.exists(recfile):
        os.remove(recfile)
    inp = stress_input(ctx, ctx["seed"] + 17, False)
    inp["duration_ms"] = 15000
    res = run_stress(binary, inp, wd, "stress_rec", {"VERIF_LOCKREC": recfile})
    observed = set()
    if os.path.exists(recfile):
        for line in open(recfile):
            a, _, b = line.strip().partition("\t")
            if a and b:
                observed.add((a, b))
    extracted = {(e["from"], e["to"]) for e in rep["edges"]}
    missing = sorted(observed - extracted)
    return {"instrumented_fields": fields, "observed_pairs": sorted(observed), "missing_from_extracted": missing,
            "extracted_not_observed": sorted(extracted - observed), "harness_completed": bool(res["out"] and res["out"].get("completed")),
            "ops": sum((res["out"] or {}).get("ops", {}).values()) if res["out"] else 0, "log": res["log"][-1500:] if not res["out"] else ""}


# ------------------------------------------------------------------ main
def run(ctx):
    wd, tier = ctx["wd"], ctx["tier"]
    thorough = tier == "thorough"
    violations, known, cov, extra_assumptions = [], [], {}, []
    t_start = time.time()

    # ---- build both tools first (one lock), then run extractor and stress side by side
    ext = build_extractor(wd)
    binary = build_harness(STRESS_PKG, race=True, dirs=["stress"])
    sres = {}

    def stress_thread():
        runs = []
        seeds = [ctx["seed"]] + ([ctx["seed"] + 1] if thorough else [])
        for i, sd in enumerate(seeds):
            inp = stress_input(ctx, sd, thorough and i == 0)
            runs.append((inp, run_stress(binary, inp, wd, "stress%d" % i)))
            if stress_verdict(runs[-1][1], inp):
                break
        else:
            # a node whose ONLY endpoint keeps connecting and disconnecting (its endpoint map is empty half of the time) while
            # status readers hold and walk snapshots of it: a snapshot must never share the live map
            inp = dict(stress_input(ctx, ctx["seed"] + 5, False), endpoints=1, duration_ms=3000, membership=False, conn_workers=2, max_hold=1)
            runs.append((inp, run_stress(binary, inp, wd, "stress-drain")))
        sres["runs"] = runs
    th = threading.Thread(target=stress_thread)
    th.start()
    try:
        rep, vtext = run_extractor(ext, wd)
    finally:
        th.join()

    # ---- static half
    edges = [(e["from"], e["to"]) for e in rep["edges"]]
    mutexes = [m["name"] for m in rep["mutexes"]]
    cycles = find_cycles(edges)
    committed = open(GEN).read() if os.path.exists(GEN) else ""
    committed_edges = set(re.findall(r'\("([^"]+)", "([^"]+)"\)', committed.split("Definition lock_edges")[-1].split("].")[0])) if committed else set()
    new_edges = sorted(set(edges) - committed_edges)
    gone_edges = sorted(committed_edges - set(edges))
    default_repo = os.path.realpath(REPO) == os.path.realpath("/repo")
    regenerated = False
    if vtext != committed and default_repo:
        tmp = GEN + ".tmp%d" % os.getpid()
        open(tmp, "w").write(vtext)
        os.replace(tmp, GEN)
        regenerated = True
        ok, mlog = coq_make(["Properties/%s.vo" % ID] + COQ_TARGETS)
        prop = coq_property(ID) if ok else {"ok": False, "log": mlog[-3000:], "theorems": [], "closed": 0, "axioms": []}
        nobl, per = coq_deps_obligations(ID)
        good = ok and prop["ok"] and not prop["axioms"]
        cov.update({"obligations": nobl, "discharged": nobl if good else 0, "property_theorems": prop["theorems"],
                    "print_assumptions_closed": prop["closed"], "axioms": prop["axioms"], "files_with_obligations": per})
        log("[C20] generated/LockEdges.v rewritten from the current tree (+%d -%d edges), rebuilt: %s" % (len(new_edges), len(gone_edges), "ok" if good else "FAILED"))
        if not good and not cycles:
            violations.append({"what": "Properties/C20.v no longer checks against the regenerated lock relation: " + (mlog if not ok else prop["log"])[-600:],
                               "found_input": False, "replay_obj": {"broken": "theorem:Properties/C20.v", "kind": "static", "log": (mlog if not ok else prop["log"])[-4000:]}})
        if not good and committed:
            # the theorems do not hold of this tree's relation (reported below / above). The previous file is put back so that
            # the shared Coq tree keeps building - a later run on a tree that is fine must not start from a rejected table; the
            # rejected one stays in the work directory
            open(os.path.join(wd, "LockEdges.rejected.v"), "w").write(vtext)
            tmp = GEN + ".tmp%d" % os.getpid()
            open(tmp, "w").write(committed)
            os.replace(tmp, GEN)
            coq_make(["Properties/%s.vo" % ID] + COQ_TARGETS)
    run_chk = coq_run_check(wd, rep, not cycles)

    def edge_objs(pairs):
        return [e for e in rep["edges"] if (e["from"], e["to"]) in set(pairs)]
    for cyc in cycles:
        pairs = list(zip(cyc, cyc[1:]))
        if len(cyc) == 2 and cyc[0] == cyc[1]:
            what = ("lock graph: SELF EDGE %s -> %s (the non-reentrant mutex may be re-acquired while it is held = self deadlock): %s"
                    % (cyc[0], cyc[1], witness(rep, cyc[0], cyc[1])))
        else:
            what = "lock graph: CYCLE %s; " % " -> ".join(cyc) + "; ".join("[%s -> %s: %s]" % (a, b, witness(rep, a, b)) for a, b in pairs)
        violations.append({"what": what[:1800], "found_input": False,
                           "replay_obj": {"broken": "theorem:C20_lock_graph_acyclic", "property": ID, "kind": "static", "cycle": cyc,
                                          "edges": edge_objs(pairs), "new_edges_vs_committed": new_edges, "coq": run_chk["log"][-1500:]}})
    inverse = [(a, b) for a, b in edges if a != b and a in HIER and b in HIER and HIER[a] >= HIER[b]]
    for a, b in inverse:
        violations.append({"what": ("lock graph: edge %s -> %s is the INVERSE of the documented hierarchy (%s): %s" % (a, b, HIER_TEXT, witness(rep, a, b)))[:1800],
                           "found_input": False,
                           "replay_obj": {"broken": "theorem:C20_expected_order", "property": ID, "kind": "static", "edge": [a, b],
                                          "edges": edge_objs([(a, b)]), "coq": run_chk["log"][-1500:]}})
    if run_chk["rc"] == 0 and not run_chk["holders_present"]:
        have = {tuple(h) for h in (rep.get("holders") or [])}
        lost = [h for h in REQUIRED_HOLDERS if h not in have]
        violations.append({"what": ("lock graph: AddConn / RemoveConn no longer tell the cluster state and publish to gossip while holding the manager's mutex "
                                    "(the hypothesis of C20_atomic_calls_consistent; theorem C20_registry_changes_publish_under_manager_lock fails on the regenerated table): missing %s"
                                    % "; ".join("%s acquires %s while holding %s" % (f, b, a) for f, a, b in lost))[:1800],
                           "found_input": False,
                           "replay_obj": {"broken": "theorem:C20_registry_changes_publish_under_manager_lock", "property": ID, "kind": "static",
                                          "missing": lost, "holders": sorted(have), "coq": run_chk["log"][-1500:]}})
    # Coq and python must agree about the regenerated list
    if run_chk["rc"] != 0 or run_chk["acyclic"] != (not cycles) or (run_chk["unexpected_empty"] != (not inverse and not [c for c in cycles if len(c) == 2])) \
            or (not cycles and not run_chk["closed"]):
        if not cycles and not inverse:
            violations.append({"what": "Coq re-check of the regenerated lock relation failed: " + run_chk["log"][-600:], "found_input": False,
                               "replay_obj": {"broken": "theorem:C20_no_deadlock(run_edges)", "kind": "static", "log": run_chk["log"]}})
    diag = rep["diagnostics"]
    pre = [("mutex_address_escapes", "the address of a piko mutex escapes (extractor precondition)"),
           ("unresolved_lock_receivers", "lock operation on a mutex the extractor cannot identify (extractor precondition)"),
           ("deferred_lock_calls", "deferred Lock call (unsupported pattern)"),
           ("dynamic_calls_without_callee_while_holding", "dynamic call made while holding a piko mutex for which the call graph has no callee (the relation may be incomplete)"),
           ("piko_mutex_acquired_while_library_mutex_held", "a piko mutex may be acquired while a library mutex is held (outside the proved relation)")]
    for key, txt in pre:
        if diag.get(key):
            violations.append({"what": "lock-order extractor: %s: %s" % (txt, "; ".join(diag[key][:3])[:900]), "found_input": False,
                               "replay_obj": {"broken": "corr:C20:lockorder:" + key, "kind": "static", "items": diag[key][:50]}})
    outside = [m for m in mutexes if m not in HIER]
    missing_expected = [list(e) for e in EXPECTED_EDGES if e not in set(edges)]

    # ---- dynamic half
    total_ops, ops_mix, stress_cov = 0, {}, []
    seen_sig = set()
    for i, (inp, res) in enumerate(sres.get("runs", [])):
        o = res["out"] or {}
        for k, v in (o.get("ops") or {}).items():
            ops_mix[k] = ops_mix.get(k, 0) + v
            total_ops += v
        stress_cov.append({"seed": inp["seed"], "duration_ms": inp["duration_ms"], "wall_s": res["wall_s"], "rc": res["rc"],
                           "races": len(res["races"]), "timeouts": len(o.get("timeouts") or []), "panics": len(o.get("panics") or []),
                           "statuses_seen": o.get("statuses_seen"), "compactions_observed": o.get("compactions_observed"),
                           "expired_nodes_observed": o.get("expired_nodes_observed"), "remote_view_converged": o.get("remote_view_converged"),
                           "max_op_ms": max((o.get("max_op_ms") or {"-": 0}).values()),
                           "final_endpoints": {c["node"]: len(c["registry"]) for c in (o.get("consistency") or [])},
                           "consistent": all(c["equal"] for c in (o.get("consistency") or [])) if o.get("consistency") else None})
        for sig, what, extra in stress_verdict(res, inp):
            if sig in seen_sig:
                continue
            seen_sig.add(sig)
            obj = {"property": ID, "kind": "stress", "signature": sig, "why": what, "input": inp, "race_build": True}
            obj.update(extra)
            violations.append({"what": "C20 stress (%s): %s" % (sig, what[:900]), "found_input": True, "replay_obj": obj})

    # ---- the gossip receive loop, datagrams back to back, under the race detector
    from props import gossip_common as gc
    bv, bcov = gc.burst_race_probe(ID, wd, random.Random(ctx["seed"]), 8 if not thorough else 60)
    violations += bv

    # ---- thorough: the extractor against recorded lock nestings
    validation = None
    if thorough:
        try:
            validation = validate_extractor(ctx, rep)
            if validation["missing_from_extracted"]:
                violations.append({"what": "lock-order extractor is UNSOUND on this tree: nesting observed at run time but not extracted: "
                                           + "; ".join("%s -> %s" % p for p in validation["missing_from_extracted"][:5]), "found_input": True,
                                   "replay_obj": {"broken": "corr:C20:lockorder:observed-subset", "property": ID, "kind": "validation", "validation": validation}})
        except BuildError as e:
            validation = {"error": str(e)[-1500:]}
            violations.append({"what": "recording-mutex build failed (anchored files changed shape?): " + str(e)[-500:], "found_input": False,
                               "replay_obj": {"broken": "corr:C20:lockorder:recording-build", "kind": "validation", "log": str(e)[-4000:]}})

    nontrivial = len([k for k, v in ops_mix.items() if v > 0]) + len(edges)
    cov.update({
        "evaluations": total_ops + len(edges),
        "distinct_nontrivial": nontrivial,
        "rule": "evaluations = calls of the real code executed concurrently under the watchdog in the -race stress run(s) + lock-order "
                "edges re-checked in Coq; distinct_nontrivial = number of distinct operation kinds that ran at least once + number of "
                "distinct extracted edges (the individual calls are not distinguished further)",
        "samples": [{"edge": [e["from"], e["to"]], "holder": e["holder"], "held_since": e["held_since"], "kind": e["kind"],
                     "site": e["site"], "path": e["path"]} for e in rep["edges"][:8]] + ([{"stress_input": sres["runs"][0][0]}] if sres.get("runs") else []),
        "lock_graph": {"callgraph": rep["callgraph"], "stats": rep["stats"], "timings_ms": rep["timings_ms"], "mutexes": mutexes,
                       "edges": [{"from": e["from"], "to": e["to"], "witness": witness(rep, e["from"], e["to"])} for e in rep["edges"]],
                       "cycles": cycles, "inverse_edges": inverse, "mutexes_outside_hierarchy": outside,
                       "expected_edges_not_found": missing_expected, "diagnostics": {k: len(v or []) for k, v in diag.items()},
                       "go_statements_while_holding": diag.get("go_statements_while_holding") or [],
                       "committed_copy": {"regenerated_this_run": regenerated, "new_edges": new_edges, "removed_edges": gone_edges},
                       "coq_recheck": {"acyclic": run_chk["acyclic"], "expected_order": run_chk["unexpected_empty"],
                                       "no_deadlock_instantiated_closed": run_chk["closed"]}},
        "correspondence": {"harness": "harness/lockorder (model regenerated from source) + harness/stress (-race, watchdog %d ms)" % 10000,
                           "histories": len(sres.get("runs", [])), "ops": total_ops, "distribution": ops_mix,
                           "disagreements": len([v for v in violations if not v["found_input"]]), "seed": ctx["seed"], "runs": stress_cov,
                           "extractor_validation": validation, "receive_loop_race_probe": bcov},
        "monitor": {"histories": len(sres.get("runs", [])), "failures": len([v for v in violations if v["found_input"]]),
                    "checks": ["no call exceeds the watchdog", "no panic", "no race report", "registry == routing table == published == harness ledger at quiescence"]},
    })
    if missing_expected:
        extra_assumptions.append("note: expected edge(s) %s were not found by the extractor on this tree (code no longer nests these locks, or the call graph lost them)" % missing_expected)
    log("[C20] edges=%d cycles=%d inverse=%d ops=%d stress=%s (%.1fs)" % (len(edges), len(cycles), len(inverse), total_ops,
                                                                        [c["wall_s"] for c in stress_cov], time.time() - t_start))
    # the periodic tasks themselves: real scheduleFunc with intervals down to 50 us (finding S1) against Conc/Schedule.v
    try:
        scov, sviol = sched_probe.run(ctx, ID)
    except BuildError as e:
        scov, sviol = {"build_failed": True}, [{"what": "harness-build: the scheduler probe no longer compiles against the tree: " + str(e)[-400:], "found_input": False,
                                                 "replay_obj": {"broken": "corr:C20:sched:harness-build", "log": str(e)[-3000:]}}]
    cov["scheduler"] = scov
    violations += sviol
    return {"coverage": cov, "violations": violations, "known": known, "assumptions": extra_assumptions}


def replay(path, wd):
    obj = json.load(open(path))
    kind = obj.get("kind")
    if kind == "sched":
        return sched_probe.replay(obj, wd)
    if kind == "stress":
        binary = build_harness(STRESS_PKG, race=True, dirs=["stress"])
        res = run_stress(binary, obj["input"], wd, "replay")
        bad = stress_verdict(res, obj["input"])
        print(json.dumps({"recorded": {"signature": obj.get("signature"), "why": obj.get("why")},
                          "now": [{"signature": s, "what": w} for s, w, _ in bad],
                          "ops": (res["out"] or {}).get("ops"), "rc": res["rc"]}, indent=1))
        for s, w, extra in bad:
            if "goroutine_dump" in extra:
                print(extra["goroutine_dump"][:6000])
            for r in extra.get("race_reports", [])[:1]:
                print(r)
        print("(schedules are not replayable exactly: the same seed and configuration are re-run under the race detector)")
        return 1 if bad else 0
    if kind == "burst-race":
        from props import gossip_common as gc
        binary = build_harness("pkg/gossip", race=True, dirs=["gossip"])
        out, logtxt = run_harness(binary, {"mode": "world", "cases": obj.get("cases") or [obj["case"]]}, wd, tag="replay", timeout=900)
        print("clean" if out is not None else logtxt[-5000:])
        return 0 if out is not None else 1
    ext = build_extractor(wd)
    rep, _ = run_extractor(ext, wd, tag="replay")
    edges = [(e["from"], e["to"]) for e in rep["edges"]]
    cyc = find_cycles(edges)
    print(json.dumps({"recorded": {k: obj.get(k) for k in ("broken", "cycle", "edge")}, "edges_now": edges, "cycles_now": cyc,
                      "witnesses": {"%s -> %s" % (a, b): witness(rep, a, b) for c in cyc for a, b in zip(c, c[1:])}}, indent=1))
    if kind == "validation":
        print(json.dumps(obj.get("validation"), indent=1)[:6000])
    return 1 if cyc else 0
