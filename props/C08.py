"""C08 - HTTP proxying is transparent and gateway failures map to 400/502/504."""
from props.proxy_common import *

ID = "C08"
COQ_TARGETS = ["Run/Run_Proxy.vo", "Run/Run_ProxyDyn.vo", "ProxyP/DynamicP.vo"]
META = {
    "text": "Theorems (Properties/C08.v) over the Gallina model of the per-hop request/response transformation (keepControlHeaders, x-piko-forward, hop-by-hop removal incl. "
            "headers named in Connection, Te/Upgrade re-adding, X-Forwarded-For folding) and of the gateway decisions: the upstream sees method, raw path, raw query, Host, body and "
            "every end-to-end header's value list unchanged over one or two hops and the client sees the upstream's status, body and end-to-end headers unchanged; piko's own answer is "
            "400 iff no endpoint is derivable, 502 iff no upstream is selectable/reachable or it refuses/closes, 504 iff the upstream is slower than the configured timeout and the "
            "request is not a websocket upgrade, otherwise the upstream's own response; the answer time is bounded by the timeout whenever it applies. Tied to the code by REAL "
            "proxy.Server instances with scripted upstreams that record the request verbatim: methods incl. custom, escaped paths, ';' queries, repeated/mixed-case headers, "
            "Connection-listed headers, bodies to 256 KiB, chunked both ways, refusing/closing/slow upstreams, websocket upgrades spelled websocket/WebSocket/WEBSOCKET (W1).",
    "note": "Partial: net/http and httputil behaviour is environment (exercised and compared, not proved); wall-clock bounds are observed only (a 200 ms proxy timeout against a 3 s "
            "upstream, and a 600 ms upstream that only websocket upgrades address). Compared headers exclude, on both sides: Content-Length/Transfer-Encoding (framing, bodies are "
            "compared by sha256), 'Accept-Encoding: gzip' and 'Connection: close' added by http.Transport, Date on responses.",
    "technique": "Coq proof on an executable Gallina model (header-list lemmas: split/join round trip, control and end-to-end names survive; status table by case analysis over "
                 "two handler steps) + model/implementation correspondence by differential testing on real servers + independent python monitor",
}
ASSUMPTIONS = [
    "header names are HTTP tokens, header values printable ASCII/TAB without surrounding blanks; request targets consist of RFC 3986 path/query characters (net/url re-encodes others, e.g. '|' -> %7C)",
    "the client sends a non-empty Host: with an EMPTY Host header the upstream sees Host = <endpoint id> (Director sets URL.Host, http.Transport falls back to it) - modelled, excluded from the Host clause",
    "at most one User-Agent header (http.Transport folds repeats to the first value); no Expect: 100-continue, no trailers, no HEAD in the generated traffic",
    "a response whose Connection header carries the token 'close' loses its whole Connection header inside net/http before piko sees it, so headers it names are then not stripped - upstreams of the harness do not send it",
    "websocket upgrades announce the Upgrade header in Connection (RFC 7230 6.7); an unannounced 'Upgrade: websocket' is dropped at the first hop and the second node applies its timeout (Example in Properties/C08.v)",
    "one configured timeout for all nodes of a cluster; upstream-produced 502/504 are told apart from piko's own by the upstream's stamp",
]
TRUSTED = ["python monitor C08 (props/proxy_common.py monitor_c08): field-by-field equality of the recorded request / seen response and the 400/502/504 table",
           "scripted upstream listeners of the harness (hand-written raw HTTP responses, verbatim request records)"]


def run(ctx):
    return run_property(ctx, ID, 34, 300)


def replay(path, wd):
    return replay_property(ID, path, wd)
