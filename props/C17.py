"""C17 - own state is a last-write-wins map; compaction preserves live keys."""
import random
from props.gossip_common import *

from props import bulk_probe
from props import consts_common
ID = "C17"
COQ_TARGETS = ["Run/Run_Gossip.vo"]
META = {
    "text": "Theorems (Properties/C17.v) over the Gallina model of UpsertLocal/DeleteLocal/LeaveLocal/CompactLocal: for every op list the live entries equal a last-write-wins map, an effective change takes exactly one fresh version and no-ops none, compaction keeps every live key/value in order and drops every tombstone. The model is tied to pkg/gossip/state.go by replaying generated op scripts on the real clusterState and on the model (inside Coq) after every op. C17_compaction_never_indexes_empty: CompactLocal's index -1 (a panic on a state without entries) is unreachable for every threshold >= 1, in particular for the compactThreshold of the current source (regenerated constants), and is reached with threshold 0 (precondition). Bulk pulls after deletions and a compaction (600+ keys, partly synchronised observer; monitor only).",
    "note": "Trusted: Coq kernel+VM, the hand-written model, the Go harness/translation; versions modelled unbounded; CompactLocal threshold >= 1.",
    "technique": "Coq proof (induction over op lists, refinement to a map spec) + model/implementation correspondence by differential replay + translator tie for the compaction threshold and marker (regenerated constants) + bulk-pull probe (monitor only)",
}
ASSUMPTIONS = [
    "uint64 versions modelled unbounded (N); a node would need 2^64 local writes to wrap",
    "CompactLocal is only modelled for threshold >= 1 (the only call site passes 100); threshold 0 on an empty state panics in the real code",
    "user keys are not the internal names _internal:left / _internal:compact (API precondition)",
]
TRUSTED = ["python LWW monitor (props/C17.py) as the independent oracle on the implementation's observed states"]


def live_of(view):
    return {e["k"]: e["v"] for e in view["entries"] if not e["del"] and not e["int"]}


def monitor(case, out):
    """independent check of the property on the REAL observations. returns None or a failure dict"""
    spec = {}
    ver = 0
    cur = {"ver": 0, "entries": []}
    for i, (op, ob) in enumerate(zip(case["ops"], out["obs"])):
        prev = cur
        for v in ob["views"]:
            if v["n"] == 0 and v["id"] == case["nodes"][0]["id"]:
                cur = v
        k = op["op"]
        prev_live = live_of(prev)
        if k == "race_compact":
            # concurrency probe: I fresh keys written while another goroutine deletes a scratch key and compacts
            for j in range(op["i"]):
                spec[H("w-%d" % j)] = H("v%d" % j)
            spec.pop(H("scratch"), None)
            live = live_of(cur)
            if live != spec:
                lost = [bytes.fromhex(x).decode() for x in spec if x not in live][:5]
                wrong = [bytes.fromhex(x).decode() for x in live if spec.get(x) != live[x]][:5]
                return {"step": i, "why": "after %d writes concurrent with compactions the live state is not the last-write-wins map: lost %r, wrong or extra %r"
                                          % (op["i"], lost, wrong), "sig": "lww-concurrent"}
            continue
        if k == "upsert":
            changed = spec.get(op["k"]) != op["v"]
            spec[op["k"]] = op["v"]
        elif k == "delete":
            changed = op["k"] in spec
            spec.pop(op["k"], None)
        else:
            changed = None
        live = live_of(cur)
        if live != spec:
            return {"step": i, "why": "live state differs from last-write-wins map", "live": live, "spec": spec, "sig": "lww"}
        if changed is True:
            if cur["ver"] != prev["ver"] + 1:
                return {"step": i, "why": "effective change did not take exactly one fresh version", "sig": "version"}
            mine = [e for e in cur["entries"] if e["k"] == op["k"]]
            if len(mine) != 1 or mine[0]["ver"] != cur["ver"]:
                return {"step": i, "why": "changed key not stamped with the new version", "sig": "version"}
        if changed is False and (cur["ver"] != prev["ver"] or cur["entries"] != prev["entries"]):
            return {"step": i, "why": "no-op write consumed a version or changed state", "sig": "noop"}
        if k == "compact":
            ndel = len([e for e in prev["entries"] if e["del"]])
            if ndel >= op["th"] and prev["entries"]:
                if any(e["del"] for e in cur["entries"]):
                    return {"step": i, "why": "tombstone survived compaction", "sig": "compact"}
                order_prev = [e["k"] for e in prev["entries"] if not e["del"] and not (e["int"] and e["k"] == H("_internal:compact"))]
                order_cur = [e["k"] for e in cur["entries"] if not (e["int"] and e["k"] == H("_internal:compact"))]
                if order_prev != order_cur:
                    return {"step": i, "why": "compaction changed the set or relative order of kept entries", "sig": "compact"}
                mk = [e for e in cur["entries"] if e["int"] and e["k"] == H("_internal:compact")]
                if len(mk) != 1 or mk[0]["v"] != H(str(prev["ver"])) or mk[0]["ver"] != cur["ver"]:
                    return {"step": i, "why": "compaction marker wrong", "sig": "compact"}
                vs = [e["ver"] for e in cur["entries"]]
                if vs != list(range(prev["ver"] + 1, prev["ver"] + 1 + len(vs))):
                    return {"step": i, "why": "re-versioning not consecutive above the old version", "sig": "compact"}
            elif cur["ver"] != prev["ver"] or cur["entries"] != prev["entries"]:
                return {"step": i, "why": "compaction below threshold changed state", "sig": "compact"}
    return None


CORPUS = [
    # D2 witness: delete then upsert of the empty value
    {"id": "corpus-d2", "nodes": [{"id": H("a"), "addr": H("10.0.0.1:7000")}],
     "ops": [{"op": "upsert", "n": 0, "k": H("k"), "v": H("v")}, {"op": "delete", "n": 0, "k": H("k")},
             {"op": "upsert", "n": 0, "k": H("k"), "v": H("")}]},
    {"id": "corpus-compact", "nodes": [{"id": H("a"), "addr": H("10.0.0.1:7000")}],
     "ops": [{"op": "upsert", "n": 0, "k": H("k"), "v": H("1")}, {"op": "upsert", "n": 0, "k": H("j"), "v": H("2")},
             {"op": "delete", "n": 0, "k": H("k")}, {"op": "compact", "n": 0, "th": 1},
             {"op": "upsert", "n": 0, "k": H("k"), "v": H("3")}, {"op": "delete", "n": 0, "k": H("j")},
             {"op": "compact", "n": 0, "th": 1}, {"op": "compact", "n": 0, "th": 1}]},
]


def sync_monitor(case, out):
    """after the exchanges of a bulk history observer 0 holds exactly owner 1's live keys and values"""
    fv = fold_views(case, out)
    ido = case["nodes"][1]["id"]
    own, seen = fv.get((1, ido)), fv.get((0, ido))
    live = lambda v: {e["k"]: e["v"] for e in v["entries"] if not e["del"]}
    if own is None or seen is None:
        return {"why": "the observer does not know the owner after the join/exchanges", "sig": "sync"}
    if seen["ver"] == own["ver"] and live(seen) != live(own):
        lo, ls = live(own), live(seen)
        miss = sorted(k for k in lo if ls.get(k) != lo[k])[:3]
        extra = sorted(k for k in ls if k not in lo)[:3]
        return {"why": "observer has the owner's version %d but %d of the owner's %d live keys differ or are missing (e.g. %s) and %d keys the owner does not have (e.g. %s)"
                       % (own["ver"], len([k for k in lo if ls.get(k) != lo[k]]), len(lo), [bytes.fromhex(k).decode("latin-1") for k in miss],
                          len([k for k in ls if k not in lo]), [bytes.fromhex(k).decode("latin-1") for k in extra]), "sig": "sync"}
    if seen["ver"] < own["ver"]:
        ls = live(seen)
        bad = sorted(e["k"] for e in own["entries"] if e["ver"] <= seen["ver"] and not e["del"] and ls.get(e["k"]) != e["v"])
        if bad:
            return {"why": "observer has seen the owner up to version %d of %d but %d keys last written at or below that version are missing or differ (e.g. %s)"
                           % (seen["ver"], own["ver"], len(bad), [bytes.fromhex(k).decode("latin-1") for k in bad[:3]]), "sig": "sync"}
    if seen["ver"] > own["ver"]:
        return {"why": "observer is ahead of the owner (version %d > %d)" % (seen["ver"], own["ver"]), "sig": "sync"}
    return None


def run(ctx):
    rng = random.Random(ctx["seed"])
    n = 400 if ctx["tier"] == "quick" else 6000
    cases = list(CORPUS) + [gen_world_case(rng, "g%d" % i, PROFILE_LOCAL) for i in range(n)]
    binary = build_harness("pkg/gossip", dirs=["gossip"])
    outs = run_world(binary, ctx["wd"], cases)
    violations, known = [], []
    # monitor on the implementation
    mon_fail = []
    for c, o in zip(cases, outs):
        if o.get("panic"):
            mon_fail.append((c, {"step": len(o.get("obs") or []), "why": "panic/timeout: " + o["panic"], "sig": "panic"}))
            continue
        f = monitor(c, o)
        if f:
            mon_fail.append((c, f))
    # concurrency probes (monitor only): local writes racing CompactLocal
    ccases = [{"id": "conc%d" % i, "nodes": [{"id": H("a"), "addr": H("10.0.0.1:7000")}],
               "ops": [{"op": "upsert", "n": 0, "k": H("k"), "v": H("1")}, {"op": "race_compact", "n": 0, "i": it},
                       {"op": "upsert", "n": 0, "k": H("k"), "v": H("2")}]}
              for i, it in enumerate([3000, 12000] if ctx["tier"] == "quick" else [3000, 8000, 12000, 16000])]
    couts = run_world(binary, ctx["wd"], ccases, tag="conc")
    for c, o in zip(ccases, couts):
        f = {"step": 0, "why": "panic/timeout: " + o["panic"], "sig": "panic"} if o.get("panic") else monitor(c, o)
        if f:
            violations.append({"what": "C17 monitor (writes concurrent with compaction): %s" % f["why"], "found_input": True,
                               "replay_obj": {"property": ID, "kind": "monitor-conc", "signature": f["sig"], "why": f["why"], "case": c}})
            break
    # observers that synchronise afterwards end up with the same live state: an owner with 130-260 keys (deleted, compacted),
    # an observer that catches up through the join stream and/or many datagram exchanges (monitor only here; the same
    # histories go through the model in C02)
    bcases = [gen_bulk_case(rng, "bulk%d" % i) for i in range(3 if ctx["tier"] == "quick" else 40)]
    bouts = run_world(binary, ctx["wd"], bcases, tag="bulk")
    for c, o in zip(bcases, bouts):
        f = {"why": "panic/timeout: " + o["panic"], "sig": "panic"} if o.get("panic") else sync_monitor(c, o)
        if f:
            violations.append({"what": "C17 monitor (observer synchronising with a large state): %s" % f["why"], "found_input": True,
                               "replay_obj": {"property": ID, "kind": "monitor-bulk", "signature": f["sig"], "why": f["why"], "case": c}})
            break
    # correspondence (only on histories that ran to completion)
    okc = [(c, o) for c, o in zip(cases, outs) if not o.get("panic")]
    dis = correspondence(ID, ctx["wd"], [c for c, _ in okc], [o for _, o in okc])
    seen_sigs = set()
    for c, f in mon_fail:
        if f["sig"] in seen_sigs:
            continue
        seen_sigs.add(f["sig"])

        def fails(cand, sig=f["sig"]):
            oo = run_world(binary, ctx["wd"], [cand], tag="shrink")[0]
            if oo.get("panic"):
                return sig == "panic"
            ff = monitor(cand, oo)
            return ff is not None and ff["sig"] == sig
        small = shrink_case(c, fails)
        oo = run_world(binary, ctx["wd"], [small], tag="shrink")[0]
        violations.append({"what": "C17 monitor: %s (history of %d ops)" % (f["why"], len(small["ops"])), "found_input": True,
                           "replay_obj": {"property": ID, "kind": "monitor", "signature": f["sig"], "why": f["why"],
                                          "case": small, "observed": oo}})
    if dis and not mon_fail:
        d = dis[0]
        c = okc[d["case"]][0]
        violations.append({"what": "model/implementation disagreement (%s) at step %d of history %s, no LWW failure found"
                                   % (",".join(d["names"]), d["step"], c["id"]), "found_input": False,
                           "replay_obj": {"broken": "corr:C17:gossip_h:local", "disagreement": d, "case": c,
                                          "observed": okc[d["case"]][1]}})
    nontriv = len({json.dumps(c["ops"]) for c in cases if any(o["op"] == "delete" for o in c["ops"])})
    cov = {"evaluations": len(cases), "distinct_nontrivial": nontriv,
           "rule": "random op scripts over 11 keys x 9 values on one real clusterState (corpus first); non-trivial = contains a delete; distinct by op list",
           "samples": [cases[0]["ops"], cases[len(cases) // 2]["ops"][:12]],
           "correspondence": {"harness": "gossip_h world mode (1 node)", "histories": len(okc), "ops": sum(len(c["ops"]) for c in cases),
                              "distribution": op_mix(cases), "disagreements": len(dis), "seed": ctx["seed"]},
           "monitor": {"histories": len(cases), "failures": len(mon_fail)}}
    # translator half of the tie: the constants of the current source, regenerated; the theorems on them re-checked
    ccov, cviol = consts_common.regen(ctx, ID, binary)
    cov["source_constants"] = ccov
    if cviol and not any(v.get("found_input") for v in violations):
        violations.append(cviol)
    # bulk synchronisation over the datagram path (hundreds to thousands of entries; monitor only)
    bcov, bv = bulk_probe.run(ctx, ID)
    cov["bulk_pull"] = bcov
    violations += bv
    return {"coverage": cov, "violations": violations, "known": known}


def replay(path, wd):
    obj = json.load(open(path))
    if obj.get("kind") == "bulk":
        return bulk_probe.replay(obj, wd)
    case = obj["case"]
    binary = build_harness("pkg/gossip", dirs=["gossip"])
    out = run_world(binary, wd, [case], tag="replay")[0]
    print(json.dumps({"implementation": out, "monitor": monitor(case, out)}, indent=1))
    dis = correspondence(ID, wd, [case], [out], tag="replay")
    print("model disagreements:", dis)
    return 0
