"""Bulk synchronisation over the datagram path (monitor only; part of C02, C03, C13, C17): an observer pulls an owner with hundreds
to thousands of entries (mixed sizes, deletions, a compaction, a partly synchronised start) through the REAL digest/delta
exchange, one loss-free exchange per round (harness/gossip/bulk_test.go). What the property texts demand and this probe
judges: every datagram fits the limit; the version the observer reports never moves backwards; whenever it reports version v
every owner entry at or below v is held exactly (no hole - C02); the pull ends with a view identical to the owner's state
(C03, C17 after a compaction) within the bound; nobody's own state is changed by received packets (C13).
The theorems C02_world_invariant / C03_rounds_converge cover every size; the Coq replay of histories stops at a few
hundred keys per owner, this probe carries the comparison with the real code beyond that."""
import json, random

from lib.common import *


def gen_cases(rng, quick):
    cs = [{"id": "corpus-300-mixed", "keys": 300, "max": 1400, "long_each": 7, "long_len": 180, "deletes": 0, "compact": False, "prefetch": 0, "rounds": 80},
          {"id": "corpus-1300-small", "keys": 1300, "max": 1400, "long_each": 0, "long_len": 0, "deletes": 0, "compact": False, "prefetch": 0, "rounds": 200},
          {"id": "corpus-600-compacted", "keys": 600, "max": 1400, "long_each": 5, "long_len": 90, "deletes": 170, "compact": True, "prefetch": 320, "rounds": 160},
          {"id": "corpus-280-small-packets", "keys": 280, "max": 400, "long_each": 4, "long_len": 120, "deletes": 40, "compact": False, "prefetch": 100, "rounds": 300}]
    for i in range(2 if quick else 30):
        k = rng.choice([150, 270, 520, 1100]) if quick else rng.choice([150, 270, 520, 1100, 2300, 4200])
        le = rng.choice([0, 3, 5, 9])
        cs.append({"id": "b%d" % i, "keys": k, "max": rng.choice([600, 1000, 1400]), "long_each": le, "long_len": rng.choice([60, 150, 300]) if le else 0,
                   "deletes": rng.choice([0, 0, k // 5, k // 2]), "compact": rng.random() < 0.5, "prefetch": rng.choice([0, 0, k // 3, k - 5]),
                   "rounds": max(60, k // 3)})
    return cs


def monitor(c, o):
    if o.get("panic"):
        return {"sig": "bulk-panic", "why": "bulk pull failed: " + o["panic"]}
    if o["oversize"]:
        return {"sig": "bulk-oversize", "why": o["oversize"]}
    vs = o["versions"]
    for i in range(1, len(vs)):
        if vs[i] < vs[i - 1]:
            return {"sig": "bulk-version-back", "why": "the version the observer reports for the owner went from %d to %d in round %d" % (vs[i - 1], vs[i], i)}
    if o["hole"]:
        return {"sig": "bulk-hole", "why": o["hole"]}
    if o["own_touched"]:
        return {"sig": "bulk-own-touched", "why": o["own_touched"]}
    if not o["equal"]:
        return {"sig": "bulk-not-converged", "why": "after %d loss-free exchanges (bound %d) the observer's view is not the owner's state: %s; versions per round %s"
                % (len(vs), c["rounds"], o["diff"], (vs[:6] + ["..."] + vs[-3:]) if len(vs) > 10 else vs)}
    return None


def run(ctx, pid):
    rng = random.Random(ctx["seed"] * 31 + 7)
    quick = ctx["tier"] == "quick"
    binary = build_harness("pkg/gossip", dirs=["gossip"])
    cases = gen_cases(rng, quick)
    outs, lg = run_harness(binary, cases, ctx["wd"], tag="bulk", test="TestVerifHarness_Bulk", timeout=1200)
    if outs is None:
        raise RuntimeError("bulk harness failed:\n" + lg)
    viol = []
    for c, o in zip(cases, outs):
        f = monitor(c, o)
        if f:
            viol.append({"what": "%s bulk pull [%s]: %s (case %s)" % (pid, f["sig"], f["why"], json.dumps(c)), "found_input": True,
                         "replay_obj": {"property": pid, "kind": "bulk", "signature": f["sig"], "why": f["why"], "case": c,
                                        "observed": {k: v for k, v in o.items() if k != "versions"}}})
            break
    cov = {"harness": "gossip/bulk (real exchange, summaries only)", "histories": len(cases), "keys": [c["keys"] for c in cases],
           "datagrams": sum(o.get("datagrams", 0) for o in outs), "rounds_used": [len(o["versions"]) for o in outs],
           "compacted": sum(1 for c in cases if c["compact"]), "failures": len(viol)}
    return cov, viol


def replay(obj, wd):
    binary = build_harness("pkg/gossip", dirs=["gossip"])
    outs, lg = run_harness(binary, [obj["case"]], wd, tag="replay", test="TestVerifHarness_Bulk")
    print(json.dumps({"case": obj["case"], "implementation": outs[0], "monitor": monitor(obj["case"], outs[0])}, indent=1)[:5000])
    return 0
