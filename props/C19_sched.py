"""C19, scheduling part: the rebalance loop of server/server.go (started only when `Threshold != 0`, one
Rebalance() per second) exercised on a real server.Server value with real upstream connections
(harness/rebalance_sched). Used by props/C19.py."""
import json, math, os, sys

sys.path.insert(0, os.path.dirname(os.path.dirname(os.path.abspath(__file__))))
from lib.common import *
from props import C19 as P

TEST = "TestVerifHarness_RebalanceSched"
PKG = "server"
WINDOW_MS = 2600     # > 2 ticks of the one-second loop: observation time when nothing is closed
MAX_MS = 12000       # generous upper bound to see the first close when something should be closed


def sc(cid, thr, rate, minc, open_, remotes):
    return {"id": cid, "thr": P.bits(thr), "rate": P.bits(rate), "min_conns": minc, "open": open_,
            "remotes": [{"status": st, "endpoints": list(eps)} for st, eps in remotes]}


CASES = [
    # rebalancing disabled: a clearly imbalanced node (4 connections, average 2) must keep all its connections
    sc("sched-disabled-0", 0.0, 0.5, 1, 4, [("active", [])]),
    sc("sched-disabled-neg0", -0.0, 1.0, 0, 5, [("active", []), ("active", [1])]),
    # enabled and imbalanced: the loop must run (first tick within a second)
    sc("sched-enabled", 0.2, 0.5, 1, 4, [("active", [])]),
    sc("sched-enabled-tiny-thr", 5e-324, 0.05, 1, 3, [("active", [1])]),
    # enabled but guarded: balanced, below min_conns, single node, only inactive peers carry the load
    sc("sched-balanced", 0.2, 0.5, 1, 4, [("active", [4])]),
    sc("sched-minconns", 0.2, 0.5, 5, 4, [("active", [])]),
    sc("sched-single", 0.2, 0.5, 1, 4, []),
    sc("sched-below-thr", 0.5, 0.5, 1, 5, [("active", [3]), ("unreachable", [0])]),
    # NaN threshold: `!= 0` holds and `balance < NaN` never does (outside the hypotheses of the theorems; model agrees)
    sc("sched-nan", float("nan"), 0.5, 1, 2, [("active", [40])]),
]


def to_rebalance_case(c):
    return {"id": c["id"], "thr": c["thr"], "rate": c["rate"], "min_conns": c["min_conns"], "open": c["open"],
            "local": [c["open"]], "remotes": [{"status": r["status"], "endpoints": r["endpoints"], "via": "add"} for r in c["remotes"]]}


def monitor(c, o):
    """independent predicate: nothing may be closed while rebalancing is disabled, or by a guarded node"""
    if o.get("panic"):
        return {"sig": "sched-panic", "why": "panic/timeout in the scheduling harness: " + o["panic"]}
    rc = to_rebalance_case(c)
    avg, nact, total = P.expected_avg(rc)
    if o.get("early"):
        # a tick fell into the connection phase: only "sessions were closed" was observed (initial state = the intended one)
        o = dict(o, avg=avg)
    if o["open"] != c["open"] or o["nodes"] != 1 + len(c["remotes"]):
        return {"sig": "sched-harness", "why": "unexpected initial state %r (expected open %d, %d nodes)" % (o, c["open"], 1 + len(c["remotes"]))}
    if o["avg"] != avg:
        return {"sig": "avg", "why": "AvgConns = %d but total %d over %d ACTIVE nodes taken to whole connections is %d" % (o["avg"], total, nact, avg)}
    thr = P.unbits(c["thr"])
    k = o["closed"]
    if thr == 0 and k != 0:       # +0 and -0
        return {"sig": "sched-disabled", "why": "rebalancing disabled (threshold %r) but %d of %d upstream connections were closed by the rebalance loop within %d ms"
                                                 % (thr, k, c["open"], o.get("elapsed_ms", 0))}
    if k > c["open"]:
        return {"sig": "more-than-open", "why": "closed %d of %d" % (k, c["open"])}
    if k != 0:
        if 1 + len(c["remotes"]) <= 1:
            return {"sig": "guard-nodes", "why": "closed %d sessions although no other node is known" % k}
        if c["open"] < P.go_int_of_uint(c["min_conns"]):
            return {"sig": "guard-minconns", "why": "closed %d sessions with %d open < min_conns" % (k, c["open"])}
        if math.isfinite(thr) and thr > 0 and avg > 0 and c["open"] <= avg:
            return {"sig": "below-average", "why": "closed %d sessions although local %d <= average %d" % (k, c["open"], avg)}
    return None


def run_cases(binary, wd, cases, tag="sched"):
    inp = [dict(c, window_ms=WINDOW_MS, max_ms=(MAX_MS if expect_shed_hint(c) else WINDOW_MS)) for c in cases]
    out, logtxt = run_harness(binary, {"cases": inp}, wd, tag=tag, test=TEST, timeout=300)
    if out is None:
        raise RuntimeError("scheduling harness run failed:\n" + logtxt)
    global LAST_DEFAULTS
    LAST_DEFAULTS = (out.get("defaults_before"), out.get("defaults_after"))
    return out["cases"]


LAST_DEFAULTS = (None, None)


def flat(d, pre=""):
    out = {}
    if isinstance(d, dict):
        for k, v in d.items():
            out.update(flat(v, pre + "." + k if pre else k))
    else:
        out[pre] = d
    return out


def expect_shed_hint(c):
    """how long to wait: configurations that may shed are observed until the first close (at most MAX_MS), the others for
    the fixed window. Only a waiting-time hint (the verdicts come from the monitor and from the Coq model)."""
    thr = P.unbits(c["thr"])
    if thr == 0 or len(c["remotes"]) < 1 or c["open"] < max(1, P.go_int_of_uint(c["min_conns"])):
        return False
    avg, _, _ = P.expected_avg(to_rebalance_case(c))
    if math.isfinite(thr) and avg > 0 and (c["open"] <= avg or (c["open"] - avg) / avg < thr * (1 - 1e-9)):
        return False
    return True


def cases_file(cases, outs):
    body = ["From Coq Require Import List ZArith Bool.",
            "From Piko Require Import Rebalance.Rebalance Run.Run_Rebalance.",
            "Import ListNotations. Open Scope Z_scope.",
            "Definition cases : list rcase := [",
            ";\n".join(P.case_to_coq(to_rebalance_case(c), (dict(o, avg=P.expected_avg(to_rebalance_case(c))[0]) if o.get("early") else o))
                        for c, o in zip(cases, outs)),
            "].",
            "Definition M := Eval vm_compute in sched_mismatches cases.",
            "Print M."]
    return "\n".join(body) + "\n"


def correspondence(wd, cases, outs, tag="sched"):
    rc, out = coq_eval(wd, "Cases_C19_%s" % tag, cases_file(cases, outs))
    mm = P.parse_mismatches(out)
    if rc != 0 or mm is None:
        raise RuntimeError("coq evaluation of scheduling cases failed:\n" + out[-3000:])
    names = dict(P.CODE_NAMES)
    names[4] = "closed-in-window"
    return [{"case": i, "codes": codes, "names": [names.get(x, str(x)) for x in codes], "model_tick": k} for (i, codes, k) in mm]


def run_sched(ctx, known_sigs):
    wd = ctx["wd"]
    binary = build_harness(PKG, dirs=["rebalance_sched"])
    cases = list(CASES)
    outs = run_cases(binary, wd, cases)
    violations, known = [], []
    fails = [(c, o, monitor(c, o)) for c, o in zip(cases, outs)]
    fails = [(c, o, f) for c, o, f in fails if f]
    okc = [(c, o) for c, o in zip(cases, outs) if not o.get("panic")]
    dis = correspondence(wd, [c for c, _ in okc], [o for _, o in okc])
    seen = set()
    for c, o, f in fails:
        if f["sig"] in seen:
            continue
        seen.add(f["sig"])
        what = "C19 monitor (rebalance loop): %s [%s]" % (f["why"], P.describe(to_rebalance_case(c)))
        if f["sig"] in known_sigs:
            known.append("sig=%s %s" % (f["sig"], what))
            continue
        violations.append({"what": what, "found_input": True,
                           "replay_obj": {"property": "C19", "kind": "sched", "signature": f["sig"], "why": f["why"], "case": c, "observed": o}})
    if dis and not fails:
        d = dis[0]
        c, o = okc[d["case"]]
        violations.append({"what": "rebalance loop: model/implementation disagreement on %s for %s [%s]: real server closed %d sessions in %d ms, model tick closes %d"
                                   % (",".join(d["names"]), c["id"], P.describe(to_rebalance_case(c)), o["closed"], o.get("elapsed_ms", 0), d["model_tick"]),
                           "found_input": False,
                           "replay_obj": {"broken": "corr:C19:sched:" + "+".join(d["names"]), "kind": "sched", "disagreement": d, "case": c, "observed": o}})
    # "only when rebalancing is enabled": a node started with no rebalancing option at all has it disabled - the configuration
    # `piko server` starts from (Default(), flags registered, empty command line) is the documented default
    b, a = LAST_DEFAULTS
    if b is not None and a is not None:
        fb, fa = flat(b), flat(a)
        diff = sorted(k for k in set(fb) | set(fa) if fb.get(k) != fa.get(k))
        reb = [k for k in diff if "rebalance" in k.lower()]
        if reb:
            k = reb[0]
            violations.append({"what": "C19 defaults: registering the command-line flags changes %s from %r to %r: a server started without any rebalancing option %s"
                                       % (k, fb.get(k), fa.get(k), "runs the rebalance loop" if "threshold" in k.lower() else "does not rebalance as documented"),
                               "found_input": True,
                               "replay_obj": {"property": "C19", "kind": "sched-defaults", "signature": "defaults", "changed": {x: [fb.get(x), fa.get(x)] for x in diff}}})
    cov = {"harness": "harness/rebalance_sched (real server.Server.startUpstreamServer + upstreamRebalance, loopback listener, websocket+yamux upstream connections)",
           "cases": len(cases), "window_ms": WINDOW_MS, "flag_defaults_differ_from_Default": (sorted(k for k in set(flat(b)) | set(flat(a)) if flat(b).get(k) != flat(a).get(k)) if b and a else None), "disagreements": len(dis), "monitor_failures": len(fails),
           "observed": [{"id": o["id"], "closed": o.get("closed"), "elapsed_ms": o.get("elapsed_ms")} for o in outs]}
    return {"violations": violations, "known": known, "coverage": cov}


def replay_sched(obj, wd):
    case = obj["case"]
    binary = build_harness(PKG, dirs=["rebalance_sched"])
    outs = run_cases(binary, wd, [case], tag="replay_sched")
    print(json.dumps({"configuration": P.describe(to_rebalance_case(case)), "implementation": outs[0], "monitor": monitor(case, outs[0])}, indent=1))
    if not outs[0].get("panic"):
        print("model disagreements:", correspondence(wd, [case], outs, tag="replay_sched") or "none")
    return 0
