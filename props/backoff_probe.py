"""Reconnection timing (part of C18: "upstream listeners reconnect to a surviving node"): pkg/backoff and the retry loop of
client/upstream.go against the model NodeLoss/Backoff.v.

 * harness/backoff  (PKG pkg/backoff): the REAL Backoff with scripted (retries, min, max), every (wait, ok) recorded;
 * harness/reconnect (PKG client): the REAL Upstream.connect / Upstream.Listen against a loopback server that fails the first
   N handshakes; the exact backoff each retry announced is taken from the loop's own log record, the arrival time of every
   attempt is recorded by the server.
Monitor (independent of the model): every wait lies in [min(min,max), 1.1*max + 1ns]; the first wait starts at min and each
following one at twice the previous (capped) with at most 10 % added; a backoff that retries forever never aborts; the loop
really waits (the next attempt arrives no earlier than the announced wait) and does not wait much longer; a non-retryable
status ends the loop after one attempt; exactly one retry per failed attempt.
Correspondence: Run/Run_Backoff.v re-executes the calls in the model with the observed waits as the jitter oracle."""
import json, os, random, re

from lib.common import *

CODE_NAMES = {1: "abort-verdict", 2: "illegal-wait", 3: "retry-count", 4: "dial-classification"}
MS = 1000000
DEF_MIN, DEF_MAX = 100 * MS, 15000 * MS


def raw_cases(rng, n):
    cs = [{"id": "corpus-default", "retries": 0, "min": DEF_MIN, "max": DEF_MAX, "calls": 14},
          {"id": "corpus-retries3", "retries": 3, "min": 10 * MS, "max": 1000 * MS, "calls": 9},
          {"id": "corpus-retries1", "retries": 1, "min": 1, "max": 3, "calls": 5},
          {"id": "corpus-min-above-max", "retries": 0, "min": 500 * MS, "max": 20 * MS, "calls": 6},
          {"id": "corpus-min-eq-max", "retries": 0, "min": 7 * MS, "max": 7 * MS, "calls": 6},
          {"id": "corpus-tiny", "retries": 0, "min": 1, "max": 1000, "calls": 16},
          {"id": "corpus-long", "retries": 0, "min": 3, "max": 2 ** 40, "calls": 60},
          {"id": "corpus-zero-min", "retries": 0, "min": 0, "max": 10 * MS, "calls": 4}]
    for i in range(n):
        mn = rng.choice([1, 7, 1000, MS, 10 * MS, 100 * MS, rng.randrange(1, 10 ** 9)])
        mx = rng.choice([mn, mn * 2, mn * 3 + 1, mn * 1000, 15000 * MS, rng.randrange(1, 10 ** 11), max(1, mn // 3)])
        cs.append({"id": "raw%d" % i, "retries": rng.choice([0, 0, 0, 1, 2, 5, 9]), "min": mn, "max": mx, "calls": rng.randrange(1, 40)})
    return cs


def conn_cases(rng, n):
    cs = [{"id": "corpus-defaults-2fails", "min": 0, "max": 0, "fails": 2, "status": 503, "via": "listen"},
          {"id": "corpus-cap", "min": 2 * MS, "max": 11 * MS, "fails": 7, "status": 0, "via": "connect"},
          {"id": "corpus-fatal-401", "min": 2 * MS, "max": 20 * MS, "fails": 3, "status": 401, "via": "connect"},
          {"id": "corpus-fatal-404", "min": 2 * MS, "max": 20 * MS, "fails": 3, "status": 404, "via": "listen"},
          {"id": "corpus-cancel", "min": 3 * MS, "max": 30 * MS, "fails": 50, "status": 502, "cancel_at": 4, "via": "connect"},
          {"id": "corpus-default-max", "min": 3 * MS, "max": 0, "fails": 6, "status": 500, "via": "connect"}]
    for i in range(n):
        mn = rng.choice([1, 2, 3, 5]) * MS
        cs.append({"id": "conn%d" % i, "min": mn, "max": rng.choice([mn, 2 * mn, 7 * mn, 10 * mn + 1, 40 * MS]),
                   "fails": rng.randrange(0, 9), "status": rng.choice([0, 0, 408, 429, 500, 502, 503, 504, 400, 401, 403, 404, 409, 501]),
                   "via": rng.choice(["connect", "listen"])})
    for c in cs:
        c.setdefault("cancel_at", 0)
        c.setdefault("limit_ms", 20000)
    return cs


def eff(mn, mx):
    return (mn or DEF_MIN), (mx or DEF_MAX)


def waits_ok(mn, mx, waits):
    """the property's own predicate on a sequence of granted waits of ONE backoff; returns None or a reason"""
    last = 0
    for i, w in enumerate(waits):
        base = mn if last == 0 else 2 * last
        if base > mx:
            base = mx
        if w < base:
            return "wait %d is %d ns, below its base %d ns (min %d, max %d, previous wait %d)" % (i, w, base, mn, mx, last)
        if w > base + base // 10 + 1:
            return "wait %d is %d ns, more than 10 %% above its base %d ns (min %d, max %d, previous wait %d)" % (i, w, base, mn, mx, last)
        if w > mx + mx // 10 + 1:
            return "wait %d is %d ns, above max + 10 %% (max %d)" % (i, w, mx)
        last = w
    return None


def monitor_raw(c, o):
    if o.get("panic"):
        return {"sig": "backoff-panic", "why": "Backoff panicked: " + o["panic"]}
    granted = [w for w, ok in zip(o["waits"], o["oks"]) if ok]
    if c["retries"] == 0 and not all(o["oks"]):
        return {"sig": "backoff-gave-up", "why": "a backoff that retries forever aborted at call %d" % o["oks"].index(False)}
    if c["retries"] > 0:
        want = [i <= c["retries"] for i in range(c["calls"])]
        if o["oks"] != want:
            return {"sig": "backoff-retries", "why": "retries=%d: verdicts %r" % (c["retries"], o["oks"])}
    if c["min"] > 0:
        why = waits_ok(c["min"], c["max"], granted)
        if why:
            return {"sig": "backoff-wait", "why": why}
    return None


def monitor_conn(c, o):
    if o.get("panic"):
        return {"sig": "reconnect-panic", "why": "connect loop failed: " + o["panic"]}
    mn, mx = eff(c["min"], c["max"])
    if c["status"] in (409, 501):
        return None         # whether such an answer is worth a retry is the implementation's choice: compared with the model only
    fatal = c["status"] in (400, 401, 403, 404)
    arr = o["arrivals"]
    if fatal and c["fails"] > 0:
        if o["outcome"] != "fatal" or len(arr) != 1 or o["waits"]:
            return {"sig": "reconnect-fatal", "why": "a %d answer is not retryable: outcome %s after %d attempts, waits %r" % (c["status"], o["outcome"], len(arr), o["waits"])}
        return None
    if c["cancel_at"]:
        if o["outcome"] != "ctx":
            return {"sig": "reconnect-ctx", "why": "context cancelled at attempt %d: outcome %s after %d attempts" % (c["cancel_at"], o["outcome"], len(arr))}
        if len(arr) > c["cancel_at"]:
            return {"sig": "reconnect-ctx", "why": "dialled %d more time(s) after the context was cancelled" % (len(arr) - c["cancel_at"])}
        return waits_fail(mn, mx, o["waits"])
    if o["outcome"] != "connected":
        return {"sig": "reconnect-gave-up", "why": "server accepts from attempt %d on; the loop ended with %s (%s) after %d attempts" % (c["fails"] + 1, o["outcome"], o.get("err"), len(arr))}
    if len(arr) != c["fails"] + 1 or len(o["waits"]) != c["fails"]:
        return {"sig": "reconnect-count", "why": "%d failed attempts: %d attempts seen, %d waits announced" % (c["fails"], len(arr), len(o["waits"]))}
    f = waits_fail(mn, mx, o["waits"])
    if f:
        return f
    for i, w in enumerate(o["waits"]):
        gap = arr[i + 1] - arr[i]
        if gap < w - 2 * MS:
            return {"sig": "reconnect-no-wait", "why": "attempt %d arrived %d ns after attempt %d although a wait of %d ns was announced" % (i + 1, gap, i, w)}
        if gap > w + 3000 * MS:
            return {"sig": "reconnect-late", "timing": True, "why": "attempt %d arrived %d ms after attempt %d; announced wait %d ms" % (i + 1, gap // MS, i, w // MS)}
    return None


def waits_fail(mn, mx, waits):
    why = waits_ok(mn, mx, waits)
    return {"sig": "reconnect-wait", "why": "Upstream.connect (min %d, max %d): %s" % (mn, mx, why)} if why else None


def coq_case_raw(c, o):
    obs = "; ".join("(%d, %s)" % (w, coq_bool(ok)) for w, ok in zip(o["waits"], o["oks"]))
    return "BRaw %d %d %d [%s]" % (c["retries"], c["min"], c["max"], obs)


def coq_case_conn(c, o):
    fails = len(o["arrivals"]) - (1 if o["outcome"] == "connected" else 0)
    if o["outcome"] in ("fatal", "ctx"):
        fails = len(o["waits"])         # the last failed attempt ends the loop without a retry
    return "BConnect %d %d [%s] %d" % (c["min"], c["max"], "; ".join(str(w) for w in o["waits"]), fails)


def cases_file(items):
    return "\n".join(["From Coq Require Import List ZArith Bool.",
                      "From Piko Require Import NodeLoss.Backoff Run.Run_Backoff.",
                      "Import ListNotations. Open Scope Z_scope.",
                      "Definition cases : list bcase := [", ";\n".join(items), "].",
                      "Definition M := Eval vm_compute in mismatches cases.", "Print M."]) + "\n"


def parse_mismatches(out):
    m = re.search(r"M\s*=\s*(.*?)\s*:\s*list", out, flags=re.S)
    if not m:
        return None
    txt = m.group(1).strip()
    if txt == "[]":
        return []
    return [(int(a), [int(x) for x in re.findall(r"\d+", b)]) for a, b in re.findall(r"\(\s*(\d+)\s*,\s*\[([^\]]*)\]\s*\)", txt.replace("%nat", ""))]


def run_once(rng, wd, quick, tag="bo"):
    """returns (coverage, failures, disagreements); failures = [(kind, case, out, {sig, why})]"""
    rb = build_harness("pkg/backoff", dirs=["backoff"])
    cb = build_harness("client", dirs=["reconnect"])
    rcs = raw_cases(rng, 60 if quick else 1500)
    ccs = conn_cases(rng, 10 if quick else 80)
    routs, lg = run_harness(rb, rcs, wd, tag=tag + "raw", test="TestVerifHarness_Backoff", timeout=300)
    if routs is None:
        raise RuntimeError("backoff harness failed:\n" + lg)
    couts, lg = run_harness(cb, ccs, wd, tag=tag + "conn", test="TestVerifHarness_Reconnect", timeout=600)
    if couts is None:
        raise RuntimeError("reconnect harness failed:\n" + lg)
    fails = []
    for c, o in zip(rcs, routs):
        f = monitor_raw(c, o)
        if f:
            fails.append(("raw", c, o, f))
    for c, o in zip(ccs, couts):
        f = monitor_conn(c, o)
        if f:
            fails.append(("conn", c, o, f))
    items, owner = [], []
    for c, o in zip(rcs, routs):
        if not o.get("panic"):
            items.append(coq_case_raw(c, o)); owner.append(("raw", c, o))
    for c, o in zip(ccs, couts):
        if not o.get("panic") and o["outcome"] != "timeout":
            items.append(coq_case_conn(c, o)); owner.append(("conn", c, o))
            if not c["cancel_at"]:
                # which failures are retried: the model's classification decides how many dials there are and how the loop ends
                items.append("BClass %d %d%%nat %d%%nat %s" % (c["status"], c["fails"], len(o["arrivals"]), coq_bool(o["outcome"] == "connected")))
                owner.append(("conn", c, o))
    dis = []
    for si in range(0, len(items), 400):
        rc, out = coq_eval(wd, "Cases_backoff_%s_%d" % (tag, si), cases_file(items[si:si + 400]))
        mm = parse_mismatches(out)
        if rc != 0 or mm is None:
            raise RuntimeError("coq evaluation of backoff cases failed:\n" + out[-3000:])
        for k, codes in mm:
            kind, c, o = owner[si + k]
            dis.append({"kind": kind, "case": c, "observed": o, "codes": codes, "names": [CODE_NAMES.get(x, str(x)) for x in codes]})
    cov = {"harness": "backoff (real pkg/backoff.Backoff) + reconnect (real client.Upstream.connect/Listen against a failing loopback server)",
           "raw_histories": len(rcs), "raw_calls": sum(c["calls"] for c in rcs), "connect_histories": len(ccs),
           "connect_attempts": sum(len(o["arrivals"]) for o in couts), "announced_waits": sum(len(o["waits"]) for o in couts),
           "outcomes": {k: sum(1 for o in couts if o["outcome"] == k) for k in ("connected", "ctx", "fatal", "timeout")},
           "retries_distribution": {str(r): sum(1 for c in rcs if c["retries"] == r) for r in sorted({c["retries"] for c in rcs})},
           "capped_waits": sum(1 for c, o in zip(rcs, routs) for w in o["waits"] if w >= c["max"] > 0),
           "coq_cases": len(items), "disagreements": len(dis), "monitor_failures": len(fails)}
    return cov, fails, dis


def run(ctx, pid="C18"):
    """-> (coverage, violations)"""
    rng = random.Random(ctx["seed"] * 7 + 18)
    wd = ctx["wd"]
    quick = ctx["tier"] == "quick"
    cov, fails, dis = run_once(rng, wd, quick)
    violations = []
    timing = [f for f in fails if f[3].get("timing")]
    hard = [f for f in fails if not f[3].get("timing")]
    if timing and not hard:
        # a late arrival is a statement about the machine unless it repeats
        cov2, fails2, dis2 = run_once(random.Random(ctx["seed"] * 7 + 18), wd, quick, tag="again")
        hard = [f for f in fails2 if f[3]["sig"] in {t[3]["sig"] for t in timing}]
        cov["timing_rerun"] = {"first": [t[3]["why"] for t in timing][:3], "reproduced": bool(hard)}
    if hard:
        kind, c, o, f = hard[0]
        violations.append({"what": "%s reconnection [%s]: %s (case %s)" % (pid, f["sig"], f["why"], json.dumps(c)), "found_input": True,
                           "replay_obj": {"property": pid, "kind": "backoff", "signature": f["sig"], "why": f["why"], "which": kind, "case": c, "observed": o}})
    elif dis:
        d = dis[0]
        violations.append({"what": "model/implementation disagreement (%s) on the %s case %s: waits %r; no monitor failure found"
                                   % (",".join(d["names"]), d["kind"], json.dumps(d["case"]), d["observed"].get("waits")), "found_input": False,
                           "replay_obj": {"broken": "corr:%s:backoff:%s" % (pid, "+".join(d["names"])), "disagreement": d}})
    return cov, violations


def replay(obj, wd):
    kind, c = obj["which"], obj["case"]
    if kind == "raw":
        b = build_harness("pkg/backoff", dirs=["backoff"])
        outs, lg = run_harness(b, [c], wd, tag="replay", test="TestVerifHarness_Backoff")
        f = monitor_raw(c, outs[0])
        item = coq_case_raw(c, outs[0])
    else:
        b = build_harness("client", dirs=["reconnect"])
        outs, lg = run_harness(b, [c], wd, tag="replay", test="TestVerifHarness_Reconnect")
        f = monitor_conn(c, outs[0])
        item = coq_case_conn(c, outs[0])
    print(json.dumps({"case": c, "implementation": outs[0], "monitor": f}, indent=1))
    rc, out = coq_eval(wd, "Cases_backoff_replay", cases_file([item]))
    print("model disagreements:", parse_mismatches(out))
    return 0
