"""The endpoint id in the URL path (part of C01 - never delivered to an upstream of a different endpoint - and of C10 - the endpoint
checked is the endpoint routed, also when it was named by URL path): what the REAL client renders for an endpoint id
(client.Dialer.dialURL, client.Upstream.listenURL) and what the real net/http request parser and a gin engine with piko's
route patterns make of it (harness/urlpath), against the model Proxy/UrlPath.v (escape on the client, unescape and route
matching on the server; theorem: an id is routed under its own name or not at all).
Monitor: a dial / listen of id X never reaches the route with another id; an id that is one non-empty path segment does reach
it under its own name."""
import json, random, re

from lib.common import *

CODE_NAMES = {1: "escaped-path", 2: "routed-endpoint"}


def gen_ids(rng, n):
    ids = [b"e", b"db?replica", b"cach%65", b"a#frag", b"x y", b"q?x=1&y=2", b"100%", b"%", b"%zz", b"a+b", b"a/b", b"a/", b"/a", b"", b".", b"..", b"~-_.",
           b"$&+,:;=@", b"caf\xc3\xa9", b"caf\xe9", b"\x00\x01\x7f", b"E", b"e:80", b"a%2Fb", b"a%2fb", b"[::1]", b"a\\b", b"a\"b", b"<e>", b"e?", b"e#", b"?", b"#",
           b"tenant-a:api", b"a b/c d", b"%25", b"e%", b"e%4", b"\xff\xfe"]
    alphabet = list(b"abcXYZ019-_.~$&+,:;=@?#% /\\\"<>[]{}|^`'()*!") + [0, 1, 127, 128, 200, 255]
    for _ in range(n):
        ids.append(bytes(rng.choice(alphabet) for _ in range(rng.randint(1, 12))))
    return ids


def monitor(o):
    i = bytes.fromhex(o["id"])
    what = "dial" if o["tcp"] else "listen"
    if o["routed"]:
        p = bytes.fromhex(o["param"])
        if p != i:
            return {"sig": "url-wrong-endpoint", "why": "a %s of endpoint %r (URL %r) reaches the server's route with endpoint id %r" % (what, i, bytes.fromhex(o["url"]), p)}
    elif i and b"/" not in i:
        return {"sig": "url-not-routed", "why": "a %s of endpoint %r (URL %r) does not reach the server's route (status %s, %s)"
                % (what, i, bytes.fromhex(o["url"]), o["status"], o["parse_err"] or "no handler ran")}
    return None


def coq_case(o):
    param = "(Some %s)" % coq_str(o["param"]) if o["routed"] else "None"
    return "Build_ucase %s %s %s %s" % (coq_bool(o["tcp"]), coq_str(o["id"]), coq_str(o["escaped"]), param)


def cases_file(items):
    return "\n".join(["From Coq Require Import List String Ascii NArith Bool.",
                      "From Piko Require Import Base.Strs Proxy.UrlPath Run.Run_UrlPath.",
                      "Import ListNotations. Open Scope string_scope. Open Scope list_scope.",
                      "Definition cases : list ucase := [", ";\n".join(items), "].",
                      "Definition M := Eval vm_compute in mismatches cases.", "Print M."]) + "\n"


def run(ctx, pid):
    rng = random.Random(ctx["seed"] * 17 + 1)
    quick = ctx["tier"] == "quick"
    binary = build_harness("client", dirs=["urlpath"])
    ids = gen_ids(rng, 150 if quick else 3000)
    outs, lg = run_harness(binary, [i.hex() for i in ids], ctx["wd"], tag="urlpath", test="TestVerifHarness_UrlPath", timeout=300)
    if outs is None:
        raise RuntimeError("urlpath harness failed:\n" + lg)
    viol = []
    fails = [(o, f) for o in outs for f in [monitor(o)] if f]
    dis = []
    for si in range(0, len(outs), 400):
        rc, out = coq_eval(ctx["wd"], "Cases_urlpath_%s_%d" % (pid, si), cases_file([coq_case(o) for o in outs[si:si + 400]]))
        m = re.search(r"M\s*=\s*(.*?)\s*:\s*list", out, flags=re.S)
        if rc != 0 or not m:
            raise RuntimeError("coq evaluation of url path cases failed:\n" + out[-3000:])
        txt = m.group(1).strip()
        if txt != "[]":
            for a, b in re.findall(r"\(\s*(\d+)\s*,\s*\[([^\]]*)\]\s*\)", txt.replace("%nat", "")):
                dis.append((outs[si + int(a)], [int(x) for x in re.findall(r"\d+", b)]))
    if fails:
        o, f = fails[0]
        viol.append({"what": "%s endpoint id in the URL path [%s]: %s" % (pid, f["sig"], f["why"]), "found_input": True,
                     "replay_obj": {"property": pid, "kind": "urlpath", "signature": f["sig"], "why": f["why"], "id_hex": o["id"], "observed": o}})
    elif dis:
        o, codes = dis[0]
        viol.append({"what": "model/implementation disagreement (%s) on the URL of endpoint id %r: rendered %r, routed=%s param=%r; no monitor failure found"
                             % (",".join(CODE_NAMES.get(c, str(c)) for c in codes), bytes.fromhex(o["id"]), bytes.fromhex(o["url"]), o["routed"], bytes.fromhex(o["param"])),
                     "found_input": False, "replay_obj": {"broken": "corr:%s:urlpath:%s" % (pid, "+".join(CODE_NAMES.get(c, str(c)) for c in codes)), "observed": o}})
    cov = {"harness": "urlpath (real client.Dialer.dialURL / client.Upstream.listenURL, net/http request parser, gin engine with piko's route patterns)",
           "ids": len(ids), "renderings": len(outs), "routed": sum(1 for o in outs if o["routed"]), "with_escapes": sum(1 for o in outs if b"%" in bytes.fromhex(o["escaped"])),
           "not_routed": sum(1 for o in outs if not o["routed"]), "disagreements": len(dis), "monitor_failures": len(fails)}
    return cov, viol


def replay(obj, wd):
    binary = build_harness("client", dirs=["urlpath"])
    outs, lg = run_harness(binary, [obj["id_hex"]], wd, tag="replay", test="TestVerifHarness_UrlPath")
    print(json.dumps([{"observed": o, "monitor": monitor(o)} for o in outs], indent=1))
    return 0
