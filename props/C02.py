"""C02 - gossip never loses, fabricates or rolls back another node's state."""
import random
from props.gossip_common import *

from props import bulk_probe
ID = "C02"
COQ_TARGETS = ["Run/Run_Gossip.vo"]
META = {
    "text": "Theorem C02_world_invariant (Properties/C02.v), proved in Coq over the Gallina world model (N nodes with distinct ids/addresses, packets in flight, owner write logs as ghost state): in EVERY world reachable by any interleaving of local writes/deletes/leave/compactions, digest sends with any entry order and max packet size, delivery/duplication/loss in any order, liveness evaluations and join/leave streams, every node's view V of every other node x satisfies Valid V (own x) (log x): V1 reports a version the owner reached, V2 every reported entry was written by the owner, V3 seen-up-to-v implies every key whose latest write is <= v shows the owner's current value or tombstone, V4 an entry the owner compacted away lingers only below the owner's compaction marker. Corollaries: caught up => identical entries; a node's own state is changed by no received packet, liveness or expiry step; reported versions never move backwards for ANY received entries. The invariant is additionally checked on every step of generated histories against the real clusterState by an independent monitor, with byte/field-exact model/implementation correspondence.",
    "note": "Histories with expiry of a remote node can violate the invariant on the real code (finding F3, listed in KNOWN_FINDINGS.txt): the theorem is stated for expiry-free histories, the F3 witness is replayed on every run. Trusted: ugorji decoder on honest packets, UDP.",
    "technique": "Coq proof over a world model with ghost owner logs + per-step invariant monitor and model/implementation correspondence on generated lossy/duplicating/reordering histories",
}
ASSUMPTIONS = [
    "histories without expiry of a remote node (with expiry: known finding F3)",
    "owners use distinct ids; user keys are not the internal names",
    "versions < 2^64",
    "node ids are valid UTF-8 (cluster configuration); since fix U1 the real ApplyDigest/applyDeltaEntry ignore any other id, the world model applies the same filter where forged packets enter (WInject, Gossip/World.v sanitize_body)",
]
TRUSTED = ["python invariant monitor V1-V4 (props/C02.py) evaluated on the implementation's observed states"]

MARK = H("_internal:compact")


def ekey(e):
    return (e["k"], e["v"], e["ver"], e["int"], e["del"])


class Tracker:
    """ground truth reconstructed from the REAL observations: each owner's current state and the log of every
    entry it ever held; each observer's views"""

    def __init__(self, case):
        self.ids = [n["id"] for n in case["nodes"]]
        self.views = {}      # (observer index, id) -> view dict
        self.logs = {i: set() for i in self.ids}
        self.expired_before = set()   # (observer, id) pairs that the observer expired at some point
        for i, nid in enumerate(self.ids):
            self.views[(i, nid)] = {"present": True, "ver": 0, "entries": [], "left": False, "unreach": False, "expiry": 0}

    def own(self, nid):
        return self.views[(self.ids.index(nid), nid)]

    def update(self, ob):
        changed = []
        for v in ob["views"]:
            key = (v["n"], v["id"])
            prev = self.views.get(key)
            if not v["present"]:
                self.views.pop(key, None)
            else:
                self.views[key] = v
                if v["id"] == self.ids[v["n"]]:
                    for e in v["entries"]:
                        self.logs[v["id"]].add(ekey(e))
            changed.append((key, prev, v))
        for ev in ob["events"]:
            if ev["kind"] == "expired":
                self.expired_before.add((ev["n"], ev["id"]))
        return changed


def check_valid(tr, o, x):
    """V1-V4 for observer o's view of owner x (x is one of the cluster's nodes, o != index of x)"""
    V = tr.views.get((o, x))
    if V is None:
        return None
    O = tr.own(x)
    if V["ver"] > O["ver"]:
        return "V1: reports version %d of %s beyond the owner's %d" % (V["ver"], x, O["ver"])
    log = tr.logs[x]
    vk = {}
    for e in V["entries"]:
        if ekey(e) not in log:
            return "V2: reports an entry the owner never wrote: %r" % (e,)
        if e["ver"] > V["ver"]:
            return "V2: entry version above the reported version"
        vk[e["k"]] = e
    ok = {e["k"]: e for e in O["entries"]}
    for k, e in ok.items():
        if e["ver"] <= V["ver"] and (k not in vk or ekey(vk[k]) != ekey(e)):
            return "V3: seen up to %d but key %s (latest write %d) is %s" % (V["ver"], k, e["ver"], "missing" if k not in vk else "stale")
    marker = ok.get(MARK)
    for k, e in vk.items():
        if k not in ok:
            if marker is None or not (V["ver"] < marker["ver"]):
                return "V4: holds key %s that the owner compacted away although it has reached the compaction marker" % k
    return None


def monitor(case, out):
    if out.get("panic"):
        return {"step": len(out.get("obs") or []), "why": "panic/timeout: " + out["panic"], "sig": "panic"}
    tr = Tracker(case)
    idx = {nid: i for i, nid in enumerate(tr.ids)}
    for i, (op, ob) in enumerate(zip(case["ops"], out["obs"])):
        before = {k: (v["ver"], v["entries"]) for k, v in tr.views.items()}
        changed = tr.update(ob)
        local_op = op["op"] in ("upsert", "delete", "compact", "leave")
        for (key, prev, v) in changed:
            o, x = key
            if x == tr.ids[o]:
                if not local_op and prev is not None and (prev["ver"], prev["entries"]) != (v.get("ver"), v.get("entries")):
                    return {"step": i, "why": "own published state changed by a non-local step (%s)" % op["op"], "sig": "own-changed"}
                continue
            if prev is not None and v["present"] and v["ver"] < prev["ver"]:
                return {"step": i, "why": "reported version of %s moved backwards %d -> %d" % (x, prev["ver"], v["ver"]), "sig": "rollback"}
        # validity of every view of a cluster node (owner steps only relax it, but check everything anyway)
        for (o, x) in list(tr.views.keys()):
            if x == tr.ids[o] or x not in idx:
                continue
            why = check_valid(tr, o, x)
            if why:
                # finding F3 is a HOLE (V3: something at or below the reported version is missing) in a view the observer re-created
                # after it had expired the node; anything else - also after an expiry - is reported under its own name
                kind = why.split(":")[0]
                sig = "F3-expiry-hole" if (o, x) in tr.expired_before and kind == "V3" else kind
                return {"step": i, "why": why + " (observer %s)" % tr.ids[o], "sig": sig}
    return None


def f3_witness():
    a, b = {"id": H("a"), "addr": H("10.0.0.1:7000")}, {"id": H("b"), "addr": H("10.0.0.2:7000")}
    ops = [{"op": "upsert", "n": 1, "k": H("k1"), "v": H("1")}, {"op": "upsert", "n": 1, "k": H("k2"), "v": H("2")},
           {"op": "upsert", "n": 1, "k": H("k3"), "v": H("3")},
           {"op": "send", "a": 0, "b": 1, "max": 1400},          # a -> b digest [a]
           {"op": "deliver", "i": 0, "max": 1400},               # b learns a; replies delta(empty) + digest
           {"op": "deliver", "i": 0, "max": 1400},               # empty delta to a
           {"op": "deliver", "i": 0, "max": 1400},               # b's digest to a: a learns b, replies delta
           {"op": "deliver", "i": 0, "max": 1400},               # a's delta (nothing) to b
           {"op": "send", "a": 0, "b": 1, "max": 1400},          # a -> b digest [a, b@0]
           {"op": "deliver", "i": 0, "max": 1400},               # b replies delta k1..k3 + digest
           {"op": "deliver", "i": 0, "max": 1400},               # a applies b@3
           {"op": "drop", "i": 0},                               # b's digest reply dropped
           {"op": "upsert", "n": 1, "k": H("k4"), "v": H("4")},
           {"op": "send", "a": 0, "b": 1, "max": 1400},          # a -> b digest [b@3]
           {"op": "deliver", "i": 0, "max": 1400},               # b replies delta [k4@4] (in flight) + digest
           {"op": "liveness", "n": 0, "levels": {H("b"): 25.0}},
           {"op": "expire", "n": 0, "ref": H("b"), "d": 1},      # a forgets b
           {"op": "deliver", "i": 0, "max": 1400},               # the stale delta re-creates b with a hole
           ]
    return {"id": "corpus-f3", "nodes": [a, b], "ops": ops}


def stale_compact_witness():
    """a duplicated delta (k1@1, k2@2) delivered again after the owner deleted k1, compacted, and the observer
    caught up with the compaction: must be discarded whole (seeded change C02-1: per-key version guard)"""
    a, b = {"id": H("a"), "addr": H("10.0.0.1:7000")}, {"id": H("b"), "addr": H("10.0.0.2:7000")}
    D = lambda i: {"op": "deliver", "i": i, "max": 1400}
    S = {"op": "send", "a": 0, "b": 1, "max": 1400}
    ops = [{"op": "upsert", "n": 1, "k": H("k1"), "v": H("1")}, {"op": "upsert", "n": 1, "k": H("k2"), "v": H("2")},
           S, D(0), D(0), D(0), D(0),                       # a and b learn of each other
           S, D(0),                                         # b replies delta k1,k2 + digest
           {"op": "dup", "i": 0, "max": 1400},              # a applies a copy; the original stays in flight
           {"op": "drop", "i": 1},
           {"op": "delete", "n": 1, "k": H("k1")}, {"op": "compact", "n": 1, "th": 1},
           S, D(1), D(1), {"op": "drop", "i": 1},           # a catches up with the compaction (k1 purged)
           D(0)]                                            # the old delta arrives
    return {"id": "corpus-stale-compact", "nodes": [a, b], "ops": ops}


def empty_key_witness():
    """the owner writes the EMPTY key (the gossip API allows it) and then another one; an observer that has seen the later write
    shows the empty key too (seeded change C02-9: the datagram decoder dropping entries without a key)"""
    a, b = {"id": H("a"), "addr": H("10.0.0.1:7000")}, {"id": H("b"), "addr": H("10.0.0.2:7000")}
    D = {"op": "deliver", "i": 0, "max": 1400}
    S = {"op": "send", "a": 0, "b": 1, "max": 1400}
    ops = [{"op": "upsert", "n": 1, "k": H(""), "v": H("v")}, {"op": "upsert", "n": 1, "k": H("k"), "v": H("w")},
           S, D, D, D, D, S, D, D, D, D, {"op": "delete", "n": 1, "k": H("")}, {"op": "upsert", "n": 1, "k": H("k"), "v": H("x")}, S, D, D, D, D]
    return {"id": "corpus-empty-key", "nodes": [a, b], "ops": ops}


CORPUS = [f3_witness(), stale_compact_witness(), empty_key_witness()]


def run(ctx):
    rng = random.Random(ctx["seed"])
    quick = ctx["tier"] == "quick"
    wd = ctx["wd"]
    n = 150 if quick else 4000
    cases = list(CORPUS) + [gen_world_case(rng, "g%d" % i, PROFILE_NET) if i % 3 else gen_parked_case(rng, "p%d" % i) for i in range(n)]
    cases += [gen_bulk_case(rng, "bulk%d" % i) for i in range(3 if quick else 40)]       # more entries than any cap or packet
    binary = build_harness("pkg/gossip", dirs=["gossip"])
    outs = run_world(binary, wd, cases)
    kf = {k["sig"]: k for k in known_findings() if k["property"] == ID and k["kind"] == "known"}
    violations, known = [], []
    # glue probes (monitor only): the code around the modelled handlers - packetListener.Serve reading datagrams back to back must act like one delivery at a time
    gv, gcov = glue_probes(ID, binary, wd, rng, quick, which=('burst',))
    violations += gv
    mon = [(c, f) for c, o in zip(cases, outs) for f in [monitor(c, o)] if f]
    okc = [(c, o) for c, o in zip(cases, outs) if not o.get("panic")]
    dis = correspondence(ID, wd, [c for c, _ in okc], [o for _, o in okc])
    seen = set()
    for c, f in mon:
        if f["sig"] in seen:
            continue
        seen.add(f["sig"])
        if f["sig"] in kf:
            known.append("sig=%s %s [history %s, step %d: %s]" % (f["sig"], kf[f["sig"]]["text"], c["id"], f["step"], f["why"]))
            continue

        def fails(cand, sig=f["sig"]):
            oo = run_world(binary, wd, [cand], tag="shrink")[0]
            ff = monitor(cand, oo)
            return ff is not None and ff["sig"] == sig
        small = shrink_case(c, fails)
        violations.append({"what": "C02 monitor: %s (history of %d ops)" % (f["why"], len(small["ops"])), "found_input": True,
                           "replay_obj": {"property": ID, "kind": "monitor", "signature": f["sig"], "why": f["why"], "case": small,
                                          "observed": run_world(binary, wd, [small], tag="shrink")[0]}})
    if "F3-expiry-hole" in kf and "F3-expiry-hole" not in seen:
        violations.append({"what": "the F3 witness no longer reproduces: KNOWN_FINDINGS.txt is stale (the finding may have been fixed)", "found_input": False,
                           "replay_obj": {"broken": "known-finding:F3", "case": CORPUS[0]}})
    if dis and not [1 for _, f in mon if f["sig"] not in kf]:
        d = dis[0]
        violations.append({"what": "model/implementation disagreement (%s) at step %d of history %s; no invariant failure found"
                                   % (",".join(d["names"]), d["step"], okc[d["case"]][0]["id"]), "found_input": False,
                           "replay_obj": {"broken": "corr:C02:gossip_h:world", "disagreement": d, "case": okc[d["case"]][0], "observed": okc[d["case"]][1]}})
    cuts = sum(1 for o in outs for ob in (o.get("obs") or []) for p in ob["sent"] if p["bytes"].startswith("0200") and len(p["bytes"]) // 2 > 45)
    crossing = sum(1 for c in cases if any(op["op"] == "compact" for op in c["ops"]))
    st = [stale_stats(c, o) for c, o in okc]
    cov = {"evaluations": len(cases), "distinct_nontrivial": len({json.dumps(c["ops"]) for c in cases if any(op["op"] == "deliver" for op in c["ops"])}),
           "rule": "random histories over 2-4 real clusterStates: local writes/deletes/compactions/leave, digest sends with random max packet size, deliver/duplicate/drop in any order, join/leave streams; non-trivial = delivers at least one packet; distinct by op list; every third history is a parked-packet history (whole exchanges whose delta replies are delivered as a copy and again later, after overwrites, deletes and compactions); corpus = F3 witness, stale-delta-after-compaction witness",
           "samples": [cases[1]["ops"][:10]],
           "correspondence": {"harness": "gossip_h world mode", "histories": len(okc), "ops": sum(len(c["ops"]) for c in cases), "distribution": op_mix(cases),
                              "histories_with_compaction": crossing, "non_empty_delta_packets": cuts,
                              "stale_entries_delivered": sum(x for x, _ in st), "stale_entries_for_purged_keys": sum(y for _, y in st),
                              "histories_with_stale_entry_for_purged_key": sum(1 for _, y in st if y), "disagreements": len(dis), "seed": ctx["seed"]},
           "monitor": {"histories": len(cases), "failures": len(mon), "failures_known": len([1 for _, f in mon if f["sig"] in kf])}}
    cov["glue_probes"] = gcov
    # bulk synchronisation over the datagram path (hundreds to thousands of entries; monitor only)
    bcov, bv = bulk_probe.run(ctx, ID)
    cov["bulk_pull"] = bcov
    violations += bv
    return {"coverage": cov, "violations": violations, "known": known}


def replay(path, wd):
    obj = json.load(open(path))
    if obj.get("kind") == "bulk":
        return bulk_probe.replay(obj, wd)
    case = obj["case"]
    binary = build_harness("pkg/gossip", dirs=["gossip"])
    if replay_glue(obj, binary, wd):
        return 0
    out = run_world(binary, wd, [case], tag="replay")[0]
    print(json.dumps({"monitor": monitor(case, out)}, indent=1))
    if not out.get("panic"):
        print("model disagreements:", correspondence(ID, wd, [case], [out], tag="replay"))
    return 0
