"""C06 - at most one inter-node hop; local upstreams are always preferred."""
from props.proxy_common import *

ID = "C06"
COQ_TARGETS = ["Run/Run_Proxy.vo", "Run/Run_ProxyDyn.vo", "ProxyP/DynamicP.vo"]
META = {
    "text": "C06_dynamic_* (Proxy/Dynamic.v): over ANY history of upstream connects / disconnects / go-aways and requests every reachable state is well formed, a node holding a balancer for the endpoint dials one of its members itself whatever happened before, every request makes at most one inter-node hop, a refused dial (go-away upstream) is answered 502 without retry or further hop and deregisters exactly that upstream on the dialling node; dynamic clusters of the harness (one continuous run of the real servers) are evaluated on this model as one history. Theorems (Properties/C06.v) over the Gallina cluster model of piko's proxy data path: a node with a local upstream for the endpoint serves locally whatever its routing "
            "table says; for EVERY combination of per-node views, placements, entry node and route (HTTP, TCP) a delivery makes at most two proxy-handler invocations, its trace has "
            "one of six legal shapes, a request carrying x-piko-forward: true is never forwarded again (served locally or 502), and there is never more than one outgoing request per "
            "handler invocation; the pinned transform is refuted (H1: Connection: x-piko-forward). Tied to the code by driving 1..4 REAL proxy.Server instances with adversarial views "
            "(A believes B serves E, B believes A/C does, nobody does; stale ids pointing at the node itself; dead/refusing addresses) and comparing per-node handler invocation "
            "counts, status and answering upstream with the model inside Coq.",
    "note": "Partial: httputil.ReverseProxy header handling is environment; its one relevant behaviour (hop-by-hop removal after header edits) is in the model and exercised. "
            "Invocation counts come from a counting wrapper around each server's http.Handler, attributed by an end-to-end request tag.",
    "technique": "Coq proof on an executable Gallina model (a forwarded request never selects a remote upstream; the forward marker survives the hop) + model/implementation "
                 "correspondence by differential testing on real servers + independent python monitor",
}
ASSUMPTIONS = [
    "header names are HTTP tokens and header values printable ASCII/TAB; Connection header values are ASCII",
    "the harness answers 508 itself after 12 handler invocations for one request so that a forwarding loop in a broken tree cannot run until the proxy timeout (never reached by the code as it stands: at most 2)",
    "when a gateway timeout cuts a request short the nodes behind the one that timed out may be invoked late; for observed 504 the comparison of invocation counts is 'observed <= predicted, entry exact'",
    "cluster state is static per case (no churn); TCP route requests are real websocket handshakes",
]
TRUSTED = ["python monitor C06 (props/proxy_common.py monitor_c06): total invocations <= 2, forwarded never forwarded again, local upstream present -> served by it, <= 1 upstream request",
           "the counting http.Handler wrapper and request tag (X-Vh-Req) of the harness"]


def run(ctx):
    return run_property(ctx, ID, 36, 300)


def replay(path, wd):
    return replay_property(ID, path, wd)
