"""Generator, trace->Coq translation and shared helpers for the gossip world harness
(used by C02 C03 C11 C13 C14 C17)."""
import json, os, random, re, sys, time
sys.path.insert(0, os.path.dirname(os.path.dirname(os.path.abspath(__file__))))
from lib.common import *

KEYS = ["k", "k1", "key2", "endpoint:e", "endpoint:f", "proxy_addr", "admin_addr", "x", "",
        "a-rather-long-key-name-over-31-bytes-xx", "\xc3\xa9t\xc3\xa9"]
# (names the protocol reserves - "_internal:left", "_internal:compact" - are not written through the application API: piko's
#  server only ever writes proxy_addr, admin_addr and endpoint:<id>; a write to a reserved name clashes with the marker itself)
VALS = ["", "v", "1", "2", "10", "value-" + "z" * 40, "10.0.0.1:8000", "\x00\xff", "w"]
IDS = ["a", "b", "c", "n4", "node-5"]


def H(s):
    return s.encode("latin-1").hex()


def gen_world_case(rng, cid, profile):
    """profile: dict of weights and limits"""
    nn = rng.randint(profile.get("min_nodes", 2), profile.get("max_nodes", 4))
    nodes = [{"id": H(IDS[i]), "addr": H("10.0.0.%d:7000" % (i + 1))} for i in range(nn)]
    nops = rng.randint(profile.get("min_ops", 15), profile.get("max_ops", 60))
    wts = profile["weights"]
    kinds = list(wts.keys())
    ops = []
    keys = KEYS[: profile.get("nkeys", len(KEYS))]
    used = {i: [] for i in range(nn)}       # keys each node has written (re-use them: overwrite, delete, re-create)
    deleted = {i: [] for i in range(nn)}
    for _ in range(nops):
        kind = rng.choices(kinds, [wts[k] for k in kinds])[0]
        n = rng.randrange(nn)
        if kind == "upsert":
            r = rng.random()
            if deleted[n] and r < 0.3:
                k = rng.choice(deleted[n])          # re-create a deleted key
                v = rng.choice(["", "", "v", rng.choice(VALS)])
            elif used[n] and r < 0.6:
                k = rng.choice(used[n]); v = rng.choice(VALS)
            else:
                k = rng.choice(keys); v = rng.choice(VALS)
            if k not in used[n]: used[n].append(k)
            if k in deleted[n]: deleted[n].remove(k)
            ops.append({"op": "upsert", "n": n, "k": H(k), "v": H(v)})
        elif kind == "delete":
            k = rng.choice(used[n]) if used[n] and rng.random() < 0.75 else rng.choice(keys)
            if k in used[n] and k not in deleted[n]: deleted[n].append(k)
            ops.append({"op": "delete", "n": n, "k": H(k)})
        elif kind == "compact":
            ops.append({"op": "compact", "n": n, "th": rng.choice(profile.get("thresholds", [1, 1, 2, 3]))})
        elif kind == "leave":
            ops.append({"op": "leave", "n": n})
        elif kind == "send":
            a = n
            b = rng.randrange(nn)
            if b == a and nn > 1:
                b = (a + 1) % nn
            ops.append({"op": "send", "a": a, "b": b, "max": gen_max(rng, profile)})
        elif kind in ("deliver", "dup", "drop"):
            i = 0 if rng.random() < profile.get("p_fifo", 0.6) else rng.randrange(1000)
            ops.append({"op": kind, "i": i, "max": gen_max(rng, profile)})
        elif kind == "liveness":
            lv = {}
            for j in range(nn):
                r = rng.random()
                if r < 0.35:
                    lv[nodes[j]["id"]] = rng.choice([25.0, 20.0000001, 1e9])
                elif r < 0.6:
                    lv[nodes[j]["id"]] = rng.choice([0.0, 19.99, 20.0])
            ops.append({"op": "liveness", "n": n, "levels": lv})
        elif kind == "expire":
            ref = nodes[rng.randrange(nn)]["id"]
            d = rng.choice([-1, 0, 1, 1, 10 ** 9, 3600 * 10 ** 9, -10 ** 9])
            ops.append({"op": "expire", "n": n, "ref": ref, "d": d})
        elif kind == "join":
            b = rng.randrange(nn)
            if b == n and nn > 1:
                b = (n + 1) % nn
            ops.append({"op": "join", "a": n, "b": b})
        elif kind == "leavestream":
            b = rng.randrange(nn)
            if b == n and nn > 1:
                b = (n + 1) % nn
            ops.append({"op": "leavestream", "a": n, "b": b})
        elif kind == "inject":
            ops.append({"op": "inject", "n": n, "max": gen_max(rng, profile), "bytes": profile["packets"](rng, nodes, n)})
    return {"id": cid, "nodes": nodes, "ops": ops}


def gen_parked_case(rng, cid, max_nodes=3, nkeys=3):
    """delayed and duplicated datagrams, on purpose: whole digest/delta exchanges between two nodes whose delta
    replies are sometimes delivered as a copy while the original stays parked at the head of the in-flight queue;
    parked packets are released later, after the owner has overwritten, deleted and compacted. The generator
    tracks how many packets are parked (an exchange started on an otherwise empty queue emits request -> delta +
    digest -> delta), so the indices stay meaningful; when the real code emits a different number of packets the
    history is still a valid one."""
    nn = rng.randint(2, max_nodes)
    nodes = [{"id": H(IDS[i]), "addr": H("10.0.0.%d:7000" % (i + 1))} for i in range(nn)]
    keys = KEYS[:nkeys]
    ops, parked = [], 0
    mx = lambda: 1400 if rng.random() < 0.8 else rng.randint(46, 320)
    D = lambda i: {"op": "deliver", "i": i, "max": mx()}

    def exchange(x, y, park):
        nonlocal parked
        ops.append({"op": "send", "a": x, "b": y, "max": mx()})
        ops.append(D(parked))                         # y: request -> delta, digest
        if park:
            ops.append({"op": "dup", "i": parked, "max": mx()})   # x applies a copy of the delta, the original is parked
            parked += 1
        else:
            ops.append(D(parked))
        ops.append(D(parked))                         # x: digest reply -> delta to y
        ops.append(D(parked))                         # y applies
    # everybody learns of everybody
    for x in range(nn):
        for y in range(nn):
            if x != y:
                exchange(x, y, False)
    used = {i: [] for i in range(nn)}
    owners = []                                       # owners of the parked deltas, oldest first
    for _ in range(rng.randint(10, 26)):
        r = rng.random()
        n = rng.choice(owners) if owners and rng.random() < 0.6 else rng.randrange(nn)
        if rng.random() < 0.15 and parked < 4:
            # an episode: n writes, x sees it (copy; original parked), n changes it again, x catches up, the
            # original arrives (now or later)
            x = rng.randrange(nn - 1)
            x = x if x < n else x + 1
            ks = rng.sample(keys, rng.randint(1, min(2, len(keys))))
            for k in ks:
                if k not in used[n]: used[n].append(k)
                ops.append({"op": "upsert", "n": n, "k": H(k), "v": H(rng.choice(VALS))})
            exchange(x, n, True)
            for k in ks:
                c = rng.random()
                if c < 0.5: ops.append({"op": "delete", "n": n, "k": H(k)})
                elif c < 0.75: ops.append({"op": "upsert", "n": n, "k": H(k), "v": H(rng.choice(VALS))})
            if rng.random() < 0.7: ops.append({"op": "compact", "n": n, "th": 1})
            if rng.random() < 0.85: exchange(x, n, False)
            if rng.random() < 0.6:
                ops.append(D(parked - 1)); parked -= 1
            else:
                owners.append(n)
            continue
        if r < 0.28:
            k = rng.choice(keys)
            if k not in used[n]: used[n].append(k)
            ops.append({"op": "upsert", "n": n, "k": H(k), "v": H(rng.choice(VALS))})
        elif r < 0.43:
            ops.append({"op": "delete", "n": n, "k": H(rng.choice(used[n] or keys))})
        elif r < 0.55:
            ops.append({"op": "compact", "n": n, "th": 1})
        elif r < 0.87 or parked == 0:
            x = rng.randrange(nn - 1)
            x = x if x < n else x + 1                 # x asks n: n's delta reply is the one that may be parked
            park = rng.random() < 0.4 and parked < 4
            exchange(x, n, park)
            if park: owners.append(n)
        else:
            j = rng.randrange(parked)
            ops.append(D(j))                          # a parked packet finally arrives
            parked -= 1
            owners.pop(j)
    while parked > 0:
        ops.append(D(0)); parked -= 1
    return {"id": cid, "nodes": nodes, "ops": ops}


def gen_member_case(rng, cid):
    """membership episodes on purpose: a node leaves (or goes silent), some peers are told / suspect it, some expire
    it, the survivors gossip with each other in between -- the skew between the survivors' sweeps is where a
    forgotten node comes back. Exchanges are drained first-in first-out (surplus delivers are skipped)."""
    nn = rng.randint(3, 4)
    nodes = [{"id": H(IDS[i]), "addr": H("10.0.0.%d:7000" % (i + 1))} for i in range(nn)]
    ops = []
    D = lambda: {"op": "deliver", "i": 0, "max": 1400}

    def exchange(x, y):
        ops.append({"op": "send", "a": x, "b": y, "max": 1400})
        ops.extend(D() for _ in range(4))
    for x in range(nn):
        if rng.random() < 0.7:
            ops.append({"op": "upsert", "n": x, "k": H(rng.choice(KEYS[:4])), "v": H(rng.choice(VALS))})
    for x in range(1, nn):
        ops.append({"op": "join", "a": x, "b": rng.randrange(x)})
    for x in range(nn):
        for y in range(nn):
            if x != y and rng.random() < 0.8:
                exchange(x, y)
    gone = []
    for _ in range(rng.randint(2, 4)):
        alive = [i for i in range(nn) if i not in gone]
        if len(alive) < 3:
            break
        L = rng.choice(alive)
        surv = [i for i in alive if i != L]
        graceful = rng.random() < 0.6
        if graceful:
            ops.append({"op": "leave", "n": L})
            if rng.random() < 0.3:
                # the departing node compacts (its shutdown left tombstones behind) before it tells anybody
                ops.append({"op": "delete", "n": L, "k": H(rng.choice(KEYS[:4]))})
                ops.append({"op": "compact", "n": L, "th": 1})
            for y in surv:
                if rng.random() < 0.7:
                    ops.append({"op": "leavestream", "a": L, "b": y})
        else:
            for y in surv:
                if rng.random() < 0.8:
                    ops.append({"op": "liveness", "n": y, "levels": {nodes[L]["id"]: rng.choice([25.0, 1e9])}})
            if rng.random() < 0.45:
                # ... and leaves gracefully after all: the news reaches nodes that already hold it as unreachable
                ops.append({"op": "leave", "n": L})
                for y in surv:
                    if rng.random() < 0.6:
                        ops.append({"op": "leavestream", "a": L, "b": y})
                if rng.random() < 0.5 and len(surv) >= 2:
                    x, y = rng.sample(surv, 2)
                    exchange(x, y)
        gone.append(L)
        for _ in range(rng.randint(1, 4)):
            r = rng.random()
            x = rng.choice(surv)
            if r < 0.45:
                y = rng.choice([i for i in surv if i != x])
                exchange(x, y)
            elif r < 0.85:
                ops.append({"op": "expire", "n": x, "ref": nodes[L]["id"], "d": rng.choice([1, 1, 1, 0, -1, 10 ** 9])})
            elif r < 0.93:
                ops.append({"op": "upsert", "n": x, "k": H(rng.choice(KEYS[:4])), "v": H(rng.choice(VALS))})
            else:
                ops.append({"op": "liveness", "n": x, "levels": {nodes[L]["id"]: rng.choice([0.0, 25.0])}})
        for _ in range(rng.randint(1, 3)):
            x = rng.choice(surv)
            exchange(x, rng.choice([i for i in surv if i != x]))
    return {"id": cid, "nodes": nodes, "ops": ops}


def gen_max(rng, profile):
    r = rng.random()
    if r < profile.get("p_big", 0.25):
        return 1400
    if r < profile.get("p_big", 0.25) + 0.05:
        return rng.randint(0, 45)      # around / below the bare header
    return rng.randint(46, profile.get("max_small", 320))


PROFILE_LOCAL = {"min_nodes": 1, "max_nodes": 1, "min_ops": 5, "max_ops": 40,
                 "weights": {"upsert": 50, "delete": 30, "compact": 12, "leave": 2}}
PROFILE_NET = {"min_nodes": 2, "max_nodes": 4, "min_ops": 20, "max_ops": 70,
               "weights": {"upsert": 22, "delete": 10, "compact": 7, "leave": 2, "send": 22, "deliver": 24,
                           "dup": 3, "drop": 5, "join": 3, "leavestream": 2}}
# stale traffic: few nodes and keys, packets linger in flight and are delivered in any order and more than once,
# owners delete and compact in between (delayed / duplicated datagrams that meet a purged key)
PROFILE_STALE = {"min_nodes": 2, "max_nodes": 3, "min_ops": 30, "max_ops": 80, "nkeys": 3, "p_fifo": 0.15, "p_big": 0.7,
                 "thresholds": [1],
                 "weights": {"upsert": 16, "delete": 12, "compact": 10, "send": 20, "deliver": 22, "dup": 14, "drop": 1}}
PROFILE_MEMBER = {"min_nodes": 2, "max_nodes": 4, "min_ops": 20, "max_ops": 60, "nkeys": 6,
                  "weights": {"upsert": 12, "delete": 5, "compact": 3, "leave": 5, "send": 18, "deliver": 22,
                              "dup": 2, "drop": 4, "join": 4, "leavestream": 5, "liveness": 12, "expire": 8}}


# ---------------------------------------------------------------- trace -> Coq
def cs(hexs):
    # printable strings are emitted verbatim (cheaper to parse), everything else through unhex
    b = bytes.fromhex(hexs)
    if all(32 <= c < 127 and c != 34 for c in b):
        return '"%s"' % b.decode("ascii")
    return '(unhex "%s")' % hexs


def c_entry(e):
    return "(E %s %s %d %s %s)" % (cs(e["k"]), cs(e["v"]), e["ver"], coq_bool(e["int"]), coq_bool(e["del"]))


def c_nows(nows, idx):
    items = []
    for k, v in sorted(nows.items()):
        i, hid = k.split("/")
        if int(i) == idx:
            items.append("(%s, %d%%Z)" % (cs(hid), v))
    return coq_list(items)


def c_event(ev):
    k = ev["kind"]
    i = cs(ev["id"])
    if k == "join": return "(%d%%nat, EJoin %s)" % (ev["n"], i)
    if k == "leave": return "(%d%%nat, ELeave %s)" % (ev["n"], i)
    if k == "reach": return "(%d%%nat, EReach %s)" % (ev["n"], i)
    if k == "unreach": return "(%d%%nat, EUnreach %s)" % (ev["n"], i)
    if k == "expired": return "(%d%%nat, EExpired %s)" % (ev["n"], i)
    if k == "upsert": return "(%d%%nat, EUpsert %s %s %s)" % (ev["n"], i, cs(ev["k"]), cs(ev["v"]))
    if k == "delete": return "(%d%%nat, EDelete %s %s)" % (ev["n"], i, cs(ev["k"]))
    raise ValueError(k)


def c_view(v):
    exp = "None" if v["expiry"] == 0 else "(Some %d%%Z)" % v["expiry"]
    return "(Build_oview %d %s %s %s %d %s %s %s %s)" % (
        v["n"], cs(v["id"]), coq_bool(v["present"]), cs(v.get("addr", "")), v.get("ver", 0),
        coq_bool(v.get("left", False)), coq_bool(v.get("unreach", False)), exp,
        coq_list([c_entry(e) for e in v["entries"]]))


def c_sum(s):
    items = []
    for it in s["nodes"]:
        hid, ver, ne, left, unr, exp = it.split("|")
        items.append("(%s, %s, %s%%nat, %s, %s, %s)" % (cs(hid), ver, ne, left, unr, exp))
    return "(%d%%nat, %s)" % (s["n"], coq_list(items))


def c_obs(ob, reports=None, net=True):
    rep = "None"
    if reports is not None:
        rep = "(Some %s)" % coq_list([cs(r) for r in reports])
    return ("(Build_obs %s %s %s %s %s %s %s)" % (
        coq_list([c_view(v) for v in ob["views"]]), coq_list([c_sum(s) for s in ob["summary"]]),
        coq_list([c_event(e) for e in ob["events"]]),
        coq_list(["(%s, %s)" % (cs(H(p["dst"])), cs(p["bytes"])) for p in ob["sent"]]),
        coq_bool(ob["err"] != ""), rep, coq_bool(net)))


def dst_index(case, inflight, idx):
    return None


def c_op(case, op, ob, nn):
    k = op["op"]
    if k == "upsert": return "(WLocal %d (LUpsert %s %s))" % (op["n"] % nn, cs(op["k"]), cs(op["v"]))
    if k == "delete": return "(WLocal %d (LDelete %s))" % (op["n"] % nn, cs(op["k"]))
    if k == "compact": return "(WLocal %d (LCompact %d))" % (op["n"] % nn, op["th"])
    if k == "leave": return "(WLocal %d LLeave)" % (op["n"] % nn)
    if k == "send":
        return "(WSend %d %d %s %d)" % (op["a"] % nn, op["b"] % nn, coq_list([cs(x) for x in ob["order"]]), op["max"])
    if k in ("deliver", "dup"):
        if ob.get("skipped") and not ob["views"] and not ob["summary"]:
            # nothing in flight (or unknown destination): the model sees the same through the index
            pass
        # nows are keyed by the destination node index; collect every index present
        idxs = sorted({int(x.split("/")[0]) for x in ob["nows"].keys()})
        nows = c_nows(ob["nows"], idxs[0]) if idxs else "[]"
        return "(WDeliver %d %s %d %s %s)" % (ob["idx"] if not ob.get("skipped_empty") else 0, coq_bool(k == "dup"),
                                              op["max"], nows, coq_list([cs(x) for x in ob["order"]]))
    if k == "drop": return "(WDrop %d)" % ob["idx"]
    if k in ("tick", "hear"): return "WNop"
    if k == "liveness":
        lvls = op["levels"]
        if case.get("realfd"):
            lvls = (ob.get("extra") or {}).get("levels") or {}       # what the real detector answered (virtual clock)
        sus = [cs(i) for i, lv in sorted(lvls.items()) if lv > 20.0]
        return "(WLiveness %d %s %s)" % (op["n"] % nn, coq_list(sus), c_nows(ob["nows"], op["n"] % nn))
    if k == "expire": return "(WExpire %d %d%%Z)" % (op["n"] % nn, ob["t"])
    if k == "join":
        return "(WJoin %d %d %s %s)" % (op["a"] % nn, op["b"] % nn, c_nows(ob["nows"], op["a"] % nn), c_nows(ob["nows"], op["b"] % nn))
    if k == "leavestream":
        return "(WLeaveStream %d %d %s)" % (op["a"] % nn, op["b"] % nn, c_nows(ob["nows"], op["b"] % nn))
    if k == "inject":
        ex = ob.get("extra") or {}
        n = op["n"] % nn
        order = coq_list([cs(x) for x in ob["order"]])
        if ex.get("dec") == "digest":
            dg = coq_list(["(D %s %s %d %s)" % (cs(d["id"]), cs(d["addr"]), d["ver"], coq_bool(d["left"])) for d in ex["digest"]])
            return "(WInject %d (PDigest %s %s %s %s) %d %s %s)" % (n, cs(ex["hid"]), cs(ex["haddr"]), coq_bool(ex["req"]), dg,
                                                                  op["max"], c_nows(ob["nows"], n), order)
        if ex.get("dec") == "delta":
            parts = coq_list(["(Build_delta_part %s %s %d %s)" % (cs(p["id"]), cs(p["addr"]), len(p["entries"]),
                                                                   coq_list([c_entry(e) for e in p["entries"]])) for p in ex["delta"]])
            return "(WInject %d (PDelta %s %s %s) %d %s %s)" % (n, cs(ex["hid"]), cs(ex["haddr"]), parts, op["max"], c_nows(ob["nows"], n), order)
        return "WNop"
    raise ValueError(k)


def inject_net(case, ob):
    """emitted packets / error flag of an injected packet are compared only when the packet decoded and its
    header address is one of the cluster's (otherwise net.ResolveUDPAddr decides, which is not modelled)"""
    ex = ob.get("extra") or {}
    if not ex.get("dec"):
        return False
    return ex.get("haddr") in [n["addr"] for n in case["nodes"]]


def case_to_coq(case, out):
    nn = len(case["nodes"])
    steps = []
    inflight = 0
    for op, ob in zip(case["ops"], out["obs"]):
        k = op["op"]
        if k in ("deliver", "dup", "drop") and ob.get("skipped") and inflight == 0:
            # nothing was in flight: index 0 of an empty network is a no-op in the model as well
            ob = dict(ob); ob["idx"] = 0
        reports = None
        if k in ("deliver", "dup") and ob.get("extra") and "reports" in ob["extra"]:
            reports = ob["extra"]["reports"]
        net = True
        if k == "inject":
            net = inject_net(case, ob)
            ex = ob.get("extra") or {}
            reports = ex.get("reports") if ex.get("dec") else None
            if not ex.get("dec"):
                ob = dict(ob); ob["err"] = ""
        steps.append("(%s, %s)" % (c_op(case, op, ob, nn), c_obs(ob, reports, net)))
        if k in ("deliver", "drop") and not (ob.get("skipped") and inflight == 0):
            inflight -= 1
        inflight += len(ob["sent"])
    return "(Build_gcase %s %s)" % (
        coq_list(["(%s, %s)" % (cs(n["id"]), cs(n["addr"])) for n in case["nodes"]]), coq_list(steps))


def cases_file(cases, outs):
    body = ["From Coq Require Import List String NArith ZArith Bool.",
            "From Piko Require Import Base.Maps Base.Strs Gossip.Types Gossip.Local Gossip.Apply Gossip.Codec Gossip.World Run.Run_Gossip Run.Run_Codec.",
            "Import ListNotations. Open Scope string_scope. Open Scope list_scope. Open Scope N_scope.",
            "Definition cases : list gcase := ["]
    body.append(";\n".join(case_to_coq(c, o) for c, o in zip(cases, outs)))
    body.append("].")
    body.append("Definition M := Eval vm_compute in mismatches cases.")
    body.append("Print M.")
    return "\n".join(body) + "\n"


def parse_mismatches(out):
    """returns list of (case, step, codes) or None if the output is not understood"""
    m = re.search(r"M\s*=\s*(.*?)\s*:\s*list", out, flags=re.S)
    if not m:
        return None
    txt = m.group(1).strip()
    if txt == "[]":
        return []
    res = []
    for mm in re.finditer(r"\(\s*(\d+)\s*,\s*(\d+)\s*,\s*\[([^\]]*)\]\s*\)", txt.replace("%nat", "")):
        res.append((int(mm.group(1)), int(mm.group(2)), [int(x) for x in re.findall(r"\d+", mm.group(3))]))
    return res


CODE_NAMES = {1: "illegal-oracle", 2: "view", 3: "summary", 4: "events", 5: "packet-bytes", 6: "error-flag", 7: "detector-reports"}


def correspondence(pid, wd, cases, outs, shard=None, tag="w"):
    """evaluate the model on the observed histories inside Coq. returns list of disagreements
    [{case, step, codes}] ; raises on evaluation failure"""
    dis = []
    import concurrent.futures as cf
    jobs = []
    if shard is None:
        shard = min(max(8, (len(cases) + 15) // 16), 48)     # one coqc per shard: memory grows with the size of the case file
    for si in range(0, len(cases), shard):
        jobs.append((si, cases[si:si + shard], outs[si:si + shard]))

    def work(job):
        si, cc, oo = job
        rc, out = coq_eval(wd, "Cases_%s_%s_%d" % (pid, tag, si), cases_file(cc, oo))
        mm = parse_mismatches(out)
        if rc != 0 or mm is None:
            raise RuntimeError("coq evaluation of cases failed:\n" + out[-3000:])
        return [(si + c, s, codes) for (c, s, codes) in mm]

    with cf.ThreadPoolExecutor(max_workers=12) as ex:
        for r in ex.map(work, jobs):
            for (c, s, codes) in r:
                dis.append({"case": c, "step": s, "codes": codes, "names": [CODE_NAMES.get(x, str(x)) for x in codes]})
    return dis


def run_world(binary, wd, cases, tag="world"):
    """runs the histories through the real code. A crash of the whole harness process (fatal error, panic on a
    goroutine of the real code, test timeout) is bisected down to the history that causes it; that history gets an
    output with "panic" set, which every monitor reports as a failing input."""
    if not cases:
        return []
    out, logtxt = run_harness(binary, {"mode": "world", "cases": cases}, wd, tag=tag, timeout=1200 if len(cases) > 1 else 300)
    if out is not None:
        return out["cases"]
    if len(cases) == 1:
        import re as _re
        m = _re.search(r"(fatal error:[^\n]*|panic:[^\n]*|test timed out[^\n]*)", logtxt)
        return [{"id": cases[0].get("id"), "obs": [], "panic": "harness process died on this history: " + (m.group(1) if m else logtxt[-300:])}]
    mid = len(cases) // 2
    return run_world(binary, wd, cases[:mid], tag=tag) + run_world(binary, wd, cases[mid:], tag=tag)


def delivered_packets(case, out):
    """per step: the in-flight packet (dict with bytes, dst) that a deliver/dup step handed to the real handler,
    reconstructed from the real observations (sent packets and the index the harness used)"""
    inflight, res = [], []
    for op, ob in zip(case["ops"], out.get("obs") or []):
        d = None
        if op["op"] in ("deliver", "dup", "drop") and not ob.get("skipped") and inflight:
            d = inflight[ob["idx"]]
            if op["op"] != "dup":
                inflight = inflight[:ob["idx"]] + inflight[ob["idx"] + 1:]
            if op["op"] == "drop":
                d = None
        res.append(d)
        inflight += list(ob["sent"])
    return res


def stale_stats(case, out):
    """coverage of delayed/duplicated traffic: (entries delivered at or below the version the receiver already
    holds for that owner, of which for a key the receiver does not hold any more (purged by a compaction))"""
    from props import wire
    stale = purged = 0
    views = {}
    for op, ob, d in zip(case["ops"], out.get("obs") or [], delivered_packets(case, out)):
        if d is not None:
            try:
                kind, hdr, body = wire.decode_packet(bytes.fromhex(d["bytes"]))
            except Exception:
                kind = None
            if kind == "delta" and all(b"node_id" in h and all(b"version" in e and b"key" in e for e in es) for h, es in body):
                dst = next((i for i, nd in enumerate(case["nodes"]) if nd["addr"] == d["dst"].encode("latin-1").hex()), None)
                for h, es in body:
                    v = views.get((dst, h[b"node_id"].hex()))
                    if v is None or case["nodes"][dst]["id"] == h[b"node_id"].hex():
                        continue
                    held = {e["k"] for e in v["entries"]}
                    for e in es:
                        if e[b"version"] <= v["ver"]:
                            stale += 1
                            if e[b"key"].hex() not in held:
                                purged += 1
        for v in ob["views"]:
            if v["present"]:
                views[(v["n"], v["id"])] = v
            else:
                views.pop((v["n"], v["id"]), None)
    return stale, purged


def op_mix(cases):
    mix = {}
    for c in cases:
        for op in c["ops"]:
            mix[op["op"]] = mix.get(op["op"], 0) + 1
    return mix


def shrink_case(case, fails, max_rounds=200):
    """delta debugging over the op list: [fails(case)] re-runs the compiled harness and says whether the
    failure signature is still there"""
    ops = list(case["ops"])
    n = 2
    rounds = 0
    while len(ops) >= 2 and rounds < max_rounds:
        chunk = max(1, len(ops) // n)
        reduced = False
        for i in range(0, len(ops), chunk):
            cand = ops[:i] + ops[i + chunk:]
            rounds += 1
            if cand and fails(dict(case, ops=cand)):
                ops = cand
                n = max(n - 1, 2)
                reduced = True
                break
        if not reduced:
            if chunk == 1:
                break
            n = min(n * 2, len(ops))
    return dict(case, ops=ops)


# ---------------------------------------------------------------------------------------------------------------
# Glue probes (monitor only): the receive loop, the peer selection and the heartbeat of a completed exchange.
# The model (and the correspondence) works on packetListener.handlePacket / Gossip.gossip; these probes drive the
# code AROUND them - packetListener.Serve and Gossip.gossipRound - and compare it with what the modelled pieces do.

def fold_views(case, out):
    """the real state of every node at the end of the history, from the incremental dumps (expiry: set or not)"""
    views = {}
    for ob in out.get("obs") or []:
        for v in ob["views"]:
            if v["present"]:
                vv = dict(v); vv["expiry"] = bool(v["expiry"])
                views[(v["n"], v["id"])] = vv
            else:
                views.pop((v["n"], v["id"]), None)
    return views


def gen_burst_case(rng, cid):
    """several datagrams queue up for one node and are then read back to back by the real receive loop"""
    nn = rng.randint(3, 4)
    nodes = [{"id": H(IDS[i]), "addr": H("10.0.0.%d:7000" % (i + 1))} for i in range(nn)]
    ops = []
    # small states on purpose: everything a node knows fits into ONE datagram. A reply that has to be cut takes the nodes in the
    # order of the digest, which the real code draws from a map - the outcome of such a history differs from run to run even with
    # one-at-a-time delivery, and then there is nothing to compare a burst with
    SV = ["", "v", "1", "2", "10", "w", "xy"]
    for n in range(nn):
        for j in range(rng.randint(2, 6)):
            ops.append({"op": "upsert", "n": n, "k": H("k%d-%d" % (n, j)), "v": H(rng.choice(SV) + "#%d" % j)})
    for n in range(1, nn):
        ops.append({"op": "join", "a": n, "b": 0})
    for _ in range(rng.randint(1, 3)):
        t = rng.randrange(nn)
        others = [i for i in range(nn) if i != t]
        for n in range(nn):
            for j in range(rng.randint(0, 4)):
                ops.append({"op": "upsert", "n": n, "k": H("k%d-%d" % (n, rng.randrange(7))), "v": H("w%d" % rng.randrange(100))})
            if rng.random() < 0.3:
                ops.append({"op": "delete", "n": n, "k": H("k%d-%d" % (n, rng.randrange(7)))})
        # requests from everybody else to t, and t's own requests answered by the others: digests (both kinds) and
        # deltas from different senders are now in flight to t
        for o in others:
            ops.append({"op": "send", "a": o, "b": t, "max": 1400})
        n_before = len(others)
        for o in rng.sample(others, rng.randint(1, len(others))):
            ops.append({"op": "send", "a": t, "b": o, "max": 1400})
            ops.append({"op": "deliver", "i": n_before, "max": 1400})      # the request just sent: o answers delta + digest
            n_before += 2
        ops.append({"op": "serve_burst", "n": t, "i": 0, "e": rng.choice(["", "", "fit"])})
        for _ in range(rng.randint(2, 8)):
            ops.append({"op": "deliver", "i": 0, "max": 1400})
    # drain
    for n in range(nn):
        ops.append({"op": "serve_burst", "n": n, "i": 0})
    for n in range(nn):
        ops.append({"op": "serve_burst", "n": n, "i": 0})
    return {"id": cid, "nodes": nodes, "ops": ops}


def expand_bursts(case, out):
    """the same history with every burst replaced by one-at-a-time deliveries of the same packets in the same order"""
    ops = []
    for op, ob in zip(case["ops"], out.get("obs") or []):
        if op["op"] != "serve_burst":
            ops.append(op)
            continue
        for m, j in enumerate((ob.get("extra") or {}).get("burst") or []):
            ops.append({"op": "deliver", "i": j - m, "max": 1400})
    return {"id": case["id"] + "-seq", "nodes": case["nodes"], "ops": ops}


def any_delta_cut(out):
    from props import wire
    for ob in out.get("obs") or []:
        for pkt in ob["sent"]:
            try:
                kind, hdr, body = wire.decode_packet(bytes.fromhex(pkt["bytes"]))
                if kind == "delta" and any(len(es) < h[b"entries"] for h, es in body):
                    return True
                if kind == "delta" and len(pkt["bytes"]) // 2 > 1300:
                    return True
            except Exception:
                return True
    return False


def pkt_kinds(sent):
    return sorted((p["dst"], p["bytes"][:2]) for p in sent)


def burst_probe(pid, binary, wd, rng, n):
    """returns (violations, coverage)"""
    cases = [gen_burst_case(rng, "burst%d" % i) for i in range(n)]
    outs = run_world(binary, wd, cases, tag="burst")
    seqs = [expand_bursts(c, o) for c, o in zip(cases, outs)]
    souts = run_world(binary, wd, seqs, tag="burstseq")
    viol, nb, npk, sizes = [], 0, 0, {}
    ncutskip = 0
    for c, o, s, so in zip(cases, outs, seqs, souts):
        for op, ob in zip(c["ops"], o.get("obs") or []):
            if op["op"] == "serve_burst":
                k = len((ob.get("extra") or {}).get("burst") or [])
                nb += 1; npk += k
                sizes[str(k)] = sizes.get(str(k), 0) + 1
        why = None
        if any_delta_cut(o) or any_delta_cut(so):
            ncutskip += 1
            continue            # a cut reply: the outcome depends on the map order of the digest (see gen_burst_case)
        if o.get("panic"):
            why = "the receive loop crashed or hung: " + o["panic"]
        elif so.get("panic"):
            why = "sequential delivery crashed or hung: " + so["panic"]
        else:
            fa, fb = fold_views(c, o), fold_views(s, so)
            if fa != fb:
                d = sorted(k for k in set(fa) | set(fb) if fa.get(k) != fb.get(k))[0]
                why = ("after reading the same datagrams back to back, node %s's view of %s is %s; delivered one at a time it is %s"
                       % (bytes.fromhex(c["nodes"][d[0]]["id"]).decode("latin-1"), bytes.fromhex(d[1]).decode("latin-1"),
                          json.dumps(fa.get(d), sort_keys=True)[:300], json.dumps(fb.get(d), sort_keys=True)[:300]))
            else:
                # the replies: same number, same kinds, same destinations
                it = iter(so.get("obs") or [])
                for op, ob in zip(c["ops"], o["obs"]):
                    if op["op"] != "serve_burst":
                        next(it, None)
                        continue
                    k = len((ob.get("extra") or {}).get("burst") or [])
                    seq_sent = [p for _ in range(k) for p in (next(it, None) or {"sent": []})["sent"]]
                    if pkt_kinds(ob["sent"]) != pkt_kinds(seq_sent):
                        why = ("a burst of %d datagrams was answered with %s, the same datagrams one at a time with %s"
                               % (k, pkt_kinds(ob["sent"]), pkt_kinds(seq_sent)))
                        break
        if why:
            viol.append({"what": "%s receive-loop probe: %s (history %s)" % (pid, why, c["id"]), "found_input": True,
                         "replay_obj": {"property": pid, "kind": "burst", "signature": "burst", "why": why, "case": c, "sequential": s}})
            break
    return viol, {"histories": len(cases), "bursts": nb, "datagrams": npk, "burst_sizes": sizes, "skipped_because_a_reply_was_cut": ncutskip}


def gen_round_case(rng, cid):
    """a node with live, unreachable and departed peers runs real gossip rounds (Gossip.gossipRound)"""
    nn = rng.randint(2, 5)
    nodes = [{"id": H(IDS[i]), "addr": H("10.0.0.%d:7000" % (i + 1))} for i in range(nn)]
    ops = [{"op": "upsert", "n": n, "k": H("k"), "v": H("v%d" % n)} for n in range(nn)]
    for n in range(1, nn):
        ops.append({"op": "join", "a": n, "b": 0})
    left = [n for n in range(1, nn) if rng.random() < 0.2]
    for n in left:
        ops.append({"op": "leave", "n": n})
        ops.append({"op": "leavestream", "a": n, "b": 0})
    mode = rng.choice(["mixed", "all-unreachable", "none-unreachable", "mixed"])
    lv = {}
    for n in range(1, nn):
        if mode == "all-unreachable" or (mode == "mixed" and rng.random() < 0.5):
            lv[nodes[n]["id"]] = 1e9
    ops.append({"op": "liveness", "n": 0, "levels": lv})
    ops.append({"op": "round", "n": 0, "i": 200})
    return {"id": cid, "nodes": nodes, "ops": ops}


def round_monitor(case, out):
    """peer selection: over 200 rounds every peer that is neither left nor unreachable is contacted, and so is every
    unreachable peer that has not left (otherwise two healthy nodes that suspect each other, or a recovered node,
    would never hear from one another again); nobody else is contacted"""
    if out.get("panic"):
        return {"why": "panic/timeout: " + out["panic"], "sig": "panic"}
    views = {}
    me = {}
    for op, ob in zip(case["ops"], out["obs"]):
        for v in ob["views"]:
            if v["present"]: views[(v["n"], v["id"])] = v
            else: views.pop((v["n"], v["id"]), None)
        if op["op"] != "round":
            continue
        n = op["n"]
        myid = case["nodes"][n]["id"]
        peers = {nid: v for (o, nid), v in views.items() if o == n and nid != myid}
        counts = {}
        for r in (ob.get("extra") or {}).get("rounds") or []:
            for d in r:
                counts[d] = counts.get(d, 0) + 1
        by_addr = {v["addr"]: nid for nid, v in peers.items()}
        nm = lambda h: bytes.fromhex(h).decode("latin-1")
        for d in counts:
            if d not in by_addr:
                return {"why": "gossip round contacted %s, which is not the address of any known peer" % nm(d), "sig": "round-stranger"}
            v = peers[by_addr[d]]
            if v["left"] and not v["unreach"]:
                return {"why": "gossip round contacted %s, which has left the cluster" % nm(by_addr[d]), "sig": "round-left"}
        for nid, v in peers.items():
            if v["left"]:
                continue
            if counts.get(v["addr"], 0) == 0:
                kind = "unreachable" if v["unreach"] else "live"
                others = sorted("%s:%s" % (nm(x), "unreachable" if w["unreach"] else ("left" if w["left"] else "live")) for x, w in peers.items() if x != nid)
                return {"why": "%d gossip rounds of node %s never contacted its %s peer %s (other peers: %s)"
                               % (op["i"], nm(myid), kind, nm(nid), ", ".join(others) or "none"), "sig": "round-never-" + kind}
    return None


def gen_idle_exchange_case(rng, cid):
    """complete digest exchanges on an otherwise empty network, also when neither side has anything new"""
    nn = rng.randint(2, 3)
    nodes = [{"id": H(IDS[i]), "addr": H("10.0.0.%d:7000" % (i + 1))} for i in range(nn)]
    ops = []
    for n in range(nn):
        for j in range(rng.randint(0, 3)):
            ops.append({"op": "upsert", "n": n, "k": H(rng.choice(KEYS[:6])), "v": H(rng.choice(VALS))})
    for n in range(1, nn):
        ops.append({"op": "join", "a": n, "b": 0})
    for _ in range(rng.randint(2, 5)):
        a = rng.randrange(nn); b = (a + rng.randint(1, nn - 1)) % nn
        if rng.random() < 0.4:
            ops.append({"op": "upsert", "n": rng.choice([a, b]), "k": H(rng.choice(KEYS[:6])), "v": H(rng.choice(VALS))})
        ops.append({"op": "send", "a": a, "b": b, "max": 1400})
        ops += [{"op": "deliver", "i": 0, "max": 1400} for _ in range(4)]
    return {"id": cid, "nodes": nodes, "ops": ops}


def heartbeat_monitor(case, out):
    """a digest exchange that completes without loss counts as hearing from one another: the initiator's failure
    detector is told about the responder and the responder's about the initiator - also when neither had anything
    new to say (an idle, converged cluster keeps gossiping precisely for that)"""
    if out.get("panic"):
        return {"step": 0, "why": "panic/timeout: " + out["panic"], "sig": "panic"}
    ops, obs = case["ops"], out["obs"]
    inflight = 0
    i = 0
    nn = len(case["nodes"])
    while i < len(ops):
        op, ob = ops[i], obs[i]
        if op["op"] == "send" and inflight == 0 and ob["err"] == "":
            a, b = op["a"] % nn, op["b"] % nn
            heard = {a: set(), b: set()}
            fl = len(ob["sent"])
            j = i + 1
            addr2n = {nd["addr"]: k for k, nd in enumerate(case["nodes"])}
            queue = [H(p["dst"]) for p in ob["sent"]]
            ok = True
            while j < len(ops) and queue:
                o2, b2 = ops[j], obs[j]
                if o2["op"] != "deliver" or b2.get("skipped"):
                    ok = False
                    break
                dst = addr2n.get(queue.pop(b2["idx"]))
                if dst in heard:
                    heard[dst] |= set((b2.get("extra") or {}).get("reports") or [])
                queue += [H(p["dst"]) for p in b2["sent"]]
                j += 1
            if ok and not queue:
                ida, idb = case["nodes"][a]["id"], case["nodes"][b]["id"]
                nm = lambda h: bytes.fromhex(h).decode("latin-1")
                if idb not in heard[a]:
                    return {"step": i, "why": "node %s completed a digest exchange with %s (%d packets, none lost) but its failure detector was never told it heard from %s"
                                              % (nm(ida), nm(idb), j - i - 1, nm(idb)), "sig": "no-heartbeat"}
                if ida not in heard[b]:
                    return {"step": i, "why": "node %s answered a complete digest exchange started by %s (%d packets, none lost) but its failure detector was never told it heard from %s"
                                              % (nm(idb), nm(ida), j - i - 1, nm(ida)), "sig": "no-heartbeat"}
            # account for the packets of the steps we looked at
            for k in range(i, j):
                o2, b2 = ops[k], obs[k]
                if o2["op"] in ("deliver", "drop") and not b2.get("skipped"):
                    inflight -= 1
                inflight += len(b2["sent"])
            i = j
            continue
        if op["op"] in ("deliver", "drop") and not ob.get("skipped"):
            inflight -= 1
        inflight += len(ob["sent"])
        i += 1
    return None


def gen_rediscover_case(rng, cid):
    """b suspects the live node a and, a minute on, forgets it (a one-way outage, a frozen process); a - which still knows b -
    then completes one digest exchange with b over the datagram path: b knows a again, and a second exchange brings a's state"""
    nn = rng.randint(2, 3)
    nodes = [{"id": H(IDS[i]), "addr": H("10.0.0.%d:7000" % (i + 1))} for i in range(nn)]
    ops = [{"op": "upsert", "n": n, "k": H("k%d" % j), "v": H("v%d" % n)} for n in range(nn) for j in range(rng.randint(1, 3))]
    for n in range(1, nn):
        ops.append({"op": "join", "a": n, "b": 0})
    X = lambda a, b: [{"op": "send", "a": a, "b": b, "max": 1400}] + [{"op": "deliver", "i": 0, "max": 1400} for _ in range(4)]
    if nn == 3:
        ops += X(1, 2) + X(2, 1)
    forgetters = [n for n in range(1, nn)]
    for n in forgetters:
        ops.append({"op": "liveness", "n": n, "levels": {nodes[0]["id"]: 1e9}})
        ops.append({"op": "expire", "n": n, "ref": nodes[0]["id"], "d": 1})
    ops.append({"op": "upsert", "n": 0, "k": H("later"), "v": H("x")})
    mark = len(ops)
    for n in forgetters:
        ops += X(0, n) + X(0, n)
    return {"id": cid, "nodes": nodes, "ops": ops, "forgotten": nodes[0]["id"], "forgetters": forgetters, "mark": mark}


def rediscover_monitor(case, out):
    if out.get("panic"):
        return {"why": "panic/timeout: " + out["panic"], "sig": "panic"}
    fv = {}
    gone_seen = set()
    for i, ob in enumerate(out["obs"]):
        for v in ob["views"]:
            if v["present"]: fv[(v["n"], v["id"])] = v
            else: fv.pop((v["n"], v["id"]), None)
        if i == case["mark"] - 1:
            gone_seen = {n for n in case["forgetters"] if (n, case["forgotten"]) not in fv}
    nm = lambda h: bytes.fromhex(h).decode("latin-1")
    own = fv.get((0, case["forgotten"]))
    for n in sorted(gone_seen):
        v = fv.get((n, case["forgotten"]))
        if v is None:
            return {"why": "node %s had forgotten the live node %s (suspected, expired); %s then completed two digest exchanges with it and is still unknown to it"
                           % (nm(case["nodes"][n]["id"]), nm(case["forgotten"]), nm(case["forgotten"])), "sig": "live-node-not-relearned"}
        if own is not None and v["ver"] != own["ver"]:
            return {"why": "node %s re-learned %s but holds version %d of %d after two complete exchanges" % (nm(case["nodes"][n]["id"]), nm(case["forgotten"]), v["ver"], own["ver"]),
                    "sig": "live-node-not-relearned"}
    return None


def glue_probes(pid, binary, wd, rng, quick, which=("burst", "round", "heartbeat")):
    """runs the probes; returns (violations, coverage)"""
    viol, cov = [], {}
    if "burst" in which:
        v, c = burst_probe(pid, binary, wd, rng, 12 if quick else 120)
        viol += v; cov["receive_loop"] = c
    if "round" in which:
        cases = [gen_round_case(rng, "round%d" % i) for i in range(12 if quick else 100)]
        outs = run_world(binary, wd, cases, tag="round")
        for c, o in zip(cases, outs):
            f = round_monitor(c, o)
            if f:
                viol.append({"what": "%s peer-selection probe: %s" % (pid, f["why"]), "found_input": True,
                             "replay_obj": {"property": pid, "kind": "round", "signature": f["sig"], "why": f["why"], "case": c}})
                break
        cov["peer_selection"] = {"histories": len(cases), "rounds": 200 * len(cases)}
    if "heartbeat" in which:
        cases = [gen_idle_exchange_case(rng, "idle%d" % i) for i in range(20 if quick else 200)]
        outs = run_world(binary, wd, cases, tag="idle")
        nex = 0
        for c, o in zip(cases, outs):
            nex += sum(1 for op in c["ops"] if op["op"] == "send")
            f = heartbeat_monitor(c, o)
            if f:
                viol.append({"what": "%s heartbeat probe: %s" % (pid, f["why"]), "found_input": True,
                             "replay_obj": {"property": pid, "kind": "heartbeat", "signature": f["sig"], "why": f["why"], "case": c}})
                break
        cov["heartbeat"] = {"histories": len(cases), "exchanges": nex}
    if "rediscover" in which:
        cases = [gen_rediscover_case(rng, "redis%d" % i) for i in range(8 if quick else 80)]
        outs = run_world(binary, wd, cases, tag="redis")
        nforgot = 0
        for c, o in zip(cases, outs):
            f = rediscover_monitor(c, o)
            if f:
                viol.append({"what": "%s rediscovery probe: %s" % (pid, f["why"]), "found_input": True,
                             "replay_obj": {"property": pid, "kind": "rediscover", "signature": f["sig"], "why": f["why"], "case": c}})
                break
        cov["rediscovery"] = {"histories": len(cases)}
    return viol, cov


def replay_glue(obj, binary, wd):
    """replay of a glue-probe finding; returns True if obj was one"""
    kind = obj.get("kind")
    if kind == "fd":
        out = run_world(binary, wd, [obj["case"]], tag="replay")[0]
        print(json.dumps({"monitor": fd_monitor(obj["case"], out)}, indent=1))
        return True
    if kind == "rediscover":
        out = run_world(binary, wd, [obj["case"]], tag="replay")[0]
        print(json.dumps({"monitor": rediscover_monitor(obj["case"], out)}, indent=1))
        return True
    if kind not in ("burst", "round", "heartbeat"):
        return False
    case = obj["case"]
    out = run_world(binary, wd, [case], tag="replay")[0]
    if kind == "round":
        print(json.dumps({"monitor": round_monitor(case, out)}, indent=1))
    elif kind == "heartbeat":
        print(json.dumps({"monitor": heartbeat_monitor(case, out)}, indent=1))
    else:
        seq = expand_bursts(case, out)
        so = run_world(binary, wd, [seq], tag="replayseq")[0]
        fa, fb = fold_views(case, out), fold_views(seq, so)
        diff = sorted(str(k) for k in set(fa) | set(fb) if fa.get(k) != fb.get(k))
        print(json.dumps({"panic": out.get("panic"), "views_that_differ": diff}, indent=1))
    return True


def burst_race_probe(pid, wd, rng, n):
    """the receive-loop histories once more in a race-detector build: reading the next datagram while the previous
    one is still being handled (or any other unsynchronised access on that path) is reported by the detector even
    when the outcome happens to be right. returns (violations, coverage)"""
    binary = build_harness("pkg/gossip", race=True, dirs=["gossip"])
    cases = [gen_burst_case(rng, "rburst%d" % i) for i in range(n)]
    out, logtxt = run_harness(binary, {"mode": "world", "cases": cases}, wd, tag="rburst", timeout=900)
    viol = []
    if out is None:
        m = re.search(r"WARNING: DATA RACE.*?(?:={18}|\Z)", logtxt, flags=re.S)
        why = ("data race reported by the race detector on the receive path: " + " | ".join(
            l.strip() for l in m.group(0).splitlines() if "andydunstall/piko" in l or "by goroutine" in l)[:900]) if m \
            else "the race-detector build of the receive-loop histories died: " + logtxt[-600:]
        viol.append({"what": "%s receive-loop probe (-race): %s" % (pid, why), "found_input": True,
                     "replay_obj": {"property": pid, "kind": "burst-race", "signature": "burst-race", "why": why, "case": cases[0], "cases": cases,
                                    "log": logtxt[-4000:]}})
    else:
        for c, o in zip(cases, out["cases"]):
            if o.get("panic"):
                viol.append({"what": "%s receive-loop probe (-race): %s" % (pid, o["panic"]), "found_input": True,
                             "replay_obj": {"property": pid, "kind": "burst-race", "signature": "burst-race", "why": o["panic"], "case": c, "cases": [c]}})
                break
    return viol, {"histories": len(cases), "race_build": True,
                  "bursts": sum(1 for c in cases for op in c["ops"] if op["op"] == "serve_burst")}


def gen_bulk_case(rng, cid):
    """an owner with far more entries than fit in any one packet (130-260 keys, some deleted, optionally compacted and so
    re-versioned all at once); an observer catches up through the join stream or through many datagram exchanges"""
    nodes = [{"id": H(IDS[i]), "addr": H("10.0.0.%d:7000" % (i + 1))} for i in range(2)]
    nk = rng.randint(130, 260)
    ops = [{"op": "upsert", "n": 1, "k": H("key-%03d" % j), "v": H("%d" % rng.randrange(100))} for j in range(nk)]
    mode = rng.choice(["join-late", "exchange", "compact-after-sync"])
    X = lambda a, b: [{"op": "send", "a": a, "b": b, "max": 1400}] + [{"op": "deliver", "i": 0, "max": 1400} for _ in range(4)]
    if mode == "compact-after-sync":
        ops.append({"op": "join", "a": 0, "b": 1})
        for j in rng.sample(range(nk), 6):
            ops.append({"op": "delete", "n": 1, "k": H("key-%03d" % j)})
        ops.append({"op": "compact", "n": 1, "th": 1})
    elif mode == "join-late":
        for j in rng.sample(range(nk), 6):
            ops.append({"op": "delete", "n": 1, "k": H("key-%03d" % j)})
        if rng.random() < 0.5:
            ops.append({"op": "compact", "n": 1, "th": 1})
        ops.append({"op": "join", "a": 0, "b": 1})
    else:
        ops += [{"op": "upsert", "n": 0, "k": H("k"), "v": H("v")}]
        # b learns of a by a's request; a then pulls b's state packet by packet
    for _ in range(rng.randint(8, 14)):
        ops += X(0, 1)
    return {"id": cid, "nodes": nodes, "ops": ops}



# ---------------------------------------------------------------------------------------------------------------
# The real accrual failure detector wired into the real cluster state (as gossip.New does), behind a virtual clock.

def gen_fd_case(rng, cid):
    """2-4 nodes; time advances in ticks; pairs that talk exchange digests (or the detector is told directly, as the
    delta handler does); every node evaluates liveness every tick. One node falls silent for a while, and may come
    back; it may also be gone long enough to be expired"""
    nn = rng.randint(2, 4)
    boot = rng.choice([200, 200, 1000])
    nodes = [{"id": H(IDS[i]), "addr": H("10.0.0.%d:7000" % (i + 1))} for i in range(nn)]
    ops = [{"op": "upsert", "n": n, "k": H("k"), "v": H("v%d" % n)} for n in range(nn)]
    for n in range(1, nn):
        ops.append({"op": "join", "a": n, "b": 0})
    X = lambda a, b: [{"op": "send", "a": a, "b": b, "max": 1400}] + [{"op": "deliver", "i": 0, "max": 1400} for _ in range(4)]
    step = rng.choice([100, 250, 1000])
    victim = rng.randrange(nn)
    t_silent = rng.randint(3, 12)
    t_back = t_silent + rng.choice([2, 15, 30, 60, 10 ** 6]) * max(1, (20 * boot) // step // 10 + 1)
    nticks = rng.randint(25, 60)
    for t in range(nticks):
        ops.append({"op": "tick", "n": 0, "d": step if rng.random() < 0.85 else rng.choice([step // 2, step * 2, 1])})
        silent = t_silent <= t < t_back
        for a in range(nn):
            for b in range(nn):
                if a == b or (silent and victim in (a, b)) or rng.random() < 0.1:
                    continue
                if a < b and rng.random() < 0.25:
                    ops += X(a, b)
                else:
                    ops.append({"op": "hear", "n": a, "ref": nodes[b]["id"]})
        for n in range(nn):
            if rng.random() < 0.9:
                ops.append({"op": "liveness", "n": n, "levels": {}})
            if silent and n != victim and t > t_silent + 8 and rng.random() < 0.05:
                ops.append({"op": "expire", "n": n, "ref": nodes[victim]["id"], "d": 1})      # the expiry sweep, a minute on
    return {"id": cid, "nodes": nodes, "ops": ops, "realfd": boot}


def fd_monitor(case, out):
    """rules that follow from the property text alone (no re-implementation of phi):
    - a peer leaves the unreachable state only after the detector was told it was heard from;
    - a peer silent for more than 20x the largest gap ever seen between its messages (bootstrap interval included) is
      unreachable at the next liveness evaluation (the level is the silence over the MEAN of recent gaps);
    - a peer whose silence is below 20x the smallest gap (bootstrap included) is not unreachable"""
    if out.get("panic"):
        return {"step": 0, "why": "panic/timeout: " + out["panic"], "sig": "panic"}
    boot = case["realfd"] * 10 ** 6
    ids = [n["id"] for n in case["nodes"]]
    nm = lambda h: bytes.fromhex(h).decode("latin-1")
    last, gaps, heard_since_unreach, views = {}, {}, {}, {}
    for i, (op, ob) in enumerate(zip(case["ops"], out["obs"])):
        ex = ob.get("extra") or {}
        acting = [s["n"] for s in ob["summary"]]
        calls = ex.get("fdcalls") or []
        n = acting[0] if acting else None
        for c in calls:
            f = c.split("|")
            key = (n, f[1])
            if f[0] == "report":
                t = int(f[2])
                if key in last:
                    gaps.setdefault(key, []).append(t - last[key])
                last[key] = t
                heard_since_unreach[key] = True
            elif f[0] == "level":
                last.setdefault(key, int(f[2]))          # a peer never heard from: the clock starts at the first question
            elif f[0] == "remove":
                last.pop(key, None); gaps.pop(key, None)
        for ev in ob["events"]:
            key = (ev["n"], ev["id"])
            if ev["kind"] == "unreach":
                heard_since_unreach[key] = False
            elif ev["kind"] == "reach" and not heard_since_unreach.get(key, False):
                return {"step": i, "why": "node %s restored %s as reachable although nothing was heard from it since it was marked unreachable"
                                          % (nm(ids[ev["n"]]), nm(ev["id"])), "sig": "fd-restored-unheard"}
        for v in ob["views"]:
            if v["present"]: views[(v["n"], v["id"])] = v
            else: views.pop((v["n"], v["id"]), None)
        if op["op"] == "liveness" and n is not None:
            now = ex.get("clock")
            for (o, p), v in views.items():
                if o != n or p == ids[n] or v["left"] or (n, p) not in last:
                    continue
                sil = now - last[(n, p)]
                g = gaps.get((n, p), []) + [boot]
                if sil > 20 * max(g) and not v["unreach"]:
                    return {"step": i, "why": "node %s has not heard from %s for %d ms - more than 20x the largest gap ever seen (%d ms) - and still holds it as reachable"
                                              % (nm(ids[n]), nm(p), sil // 10 ** 6, max(g) // 10 ** 6), "sig": "fd-silent-not-suspected"}
                if sil < 20 * min(g) and v["unreach"]:
                    return {"step": i, "why": "node %s heard from %s %d ms ago - less than 20x the smallest gap ever seen (%d ms) - and holds it as unreachable"
                                              % (nm(ids[n]), nm(p), sil // 10 ** 6, min(g) // 10 ** 6), "sig": "fd-steady-suspected"}
    return None


def fd_corpus_case(cid, boot, step, silent_ticks, after_ticks):
    """three nodes that hear from each other every tick; node c then says nothing for silent_ticks ticks and comes back"""
    nodes = [{"id": H(IDS[i]), "addr": H("10.0.0.%d:7000" % (i + 1))} for i in range(3)]
    ops = [{"op": "upsert", "n": n, "k": H("k"), "v": H("v%d" % n)} for n in range(3)]
    ops += [{"op": "join", "a": 1, "b": 0}, {"op": "join", "a": 2, "b": 0}]
    for t in range(6 + silent_ticks + after_ticks):
        ops.append({"op": "tick", "n": 0, "d": step})
        silent = 6 <= t < 6 + silent_ticks
        for a in range(3):
            for b in range(3):
                if a != b and not (silent and 2 in (a, b)):
                    ops.append({"op": "hear", "n": a, "ref": nodes[b]["id"]})
        for n in range(3):
            ops.append({"op": "liveness", "n": n, "levels": {}})
    return {"id": cid, "nodes": nodes, "ops": ops, "realfd": boot}


def fd_probe(pid, binary, wd, rng, quick, corr=True):
    """real detector + real state histories: monitor and (corr) the world model with the verdicts the real detector gave.
    returns (violations, coverage)"""
    # always: a silence far longer than the detector needs (75x the bootstrap interval) followed by a recovery, and a short one
    cases = [fd_corpus_case("fd-long-silence", 200, 1000, 15, 6), fd_corpus_case("fd-short-silence", 1000, 250, 3, 5)]
    cases += [gen_fd_case(rng, "fd%d" % i) for i in range(8 if quick else 120)]
    outs = run_world(binary, wd, cases, tag="fd")
    viol, kinds = [], {}
    for c, o in zip(cases, outs):
        for ob in o.get("obs") or []:
            for ev in ob["events"]:
                kinds[ev["kind"]] = kinds.get(ev["kind"], 0) + 1
    for c, o in zip(cases, outs):
        f = fd_monitor(c, o)
        if f:
            viol.append({"what": "%s real-detector monitor: %s (history %s, step %d)" % (pid, f["why"], c["id"], f["step"]), "found_input": True,
                         "replay_obj": {"property": pid, "kind": "fd", "signature": f["sig"], "why": f["why"], "case": c}})
            break
    ndis = 0
    if corr and not viol:
        okc = [(c, o) for c, o in zip(cases, outs) if not o.get("panic")]
        dis = correspondence(pid, wd, [c for c, _ in okc], [o for _, o in okc], tag="fd")
        ndis = len(dis)
        if dis:
            d = dis[0]
            viol.append({"what": "model/implementation disagreement (%s) at step %d of real-detector history %s" % (",".join(d["names"]), d["step"], okc[d["case"]][0]["id"]),
                         "found_input": False, "replay_obj": {"broken": "corr:%s:gossip_h:world-realfd" % pid, "disagreement": d, "case": okc[d["case"]][0]}})
    return viol, {"histories": len(cases), "ops": sum(len(c["ops"]) for c in cases), "events": kinds, "disagreements": ndis}
