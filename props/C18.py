"""C18 - Losing a node: traffic is withdrawn from it and recovers on the survivors."""
import concurrent.futures as cf
import copy, json, os, random, re, sys, time
sys.path.insert(0, os.path.dirname(os.path.dirname(os.path.abspath(__file__))))
from lib.common import *
from props import backoff_probe, round_probe

ID = "C18"
PKG = "server"
TEST = "TestVerifHarness_NodeLoss"
HDIRS = ["nodeloss"]
COQ_TARGETS = ["Run/Run_NodeLoss.vo", "Run/Run_Backoff.vo", "Run/Run_Round.vo"]
META = {
    "text": "Theorems (Properties/C18.v) over Gallina models of (1) the client listener's reconnect decision (client/listener.go AcceptWithContext, plus the pinned pre-fix decision for the refutation of D4) and the accept loop around it, (2) Server.Shutdown (server/server.go) as the real step order interleaved with ALL schedules of the upstream handlers' asynchronous exits, (3) the leave reaching a notified peer composed over the shared gossip and syncer models (LeaveLocal, ApplyDelta of the leaver's full local delta, OnLeave, LookupEndpoint) for every leaver state, peer view, routing table and endpoint, the crash counterpart (detector verdict -> OnUnreachable -> not routed to), (4) recovery on the survivors as a composition statement over lookup_candidates and the local registry, and (5) how soon a listener redials: pkg/backoff (jitter as an oracle) and the timed retry loop of client/upstream.go - for every legal jitter sequence the loop never gives up, every wait lies in [min, 1.1 max + 1ns], waits double until capped, and once a node is reachable again a dial starts within one dial duration plus one capped wait (defaults: 16.5 s). The models are tied to the code by an in-process cluster of three REAL server nodes (server.NewServer/Start, 40 ms gossip interval; optionally three more live nodes, so that the leaver cannot notify every peer itself, or a fourth node that left / crashed earlier and is still remembered), real client listeners with stamping HTTP upstreams behind a one-URL TCP front, and requests to every survivor's proxy port: a node is lost gracefully (Server.Shutdown), by a crash (all its sockets closed abruptly, no Leave) or by a crash in the middle of its shutdown, idle / with upstreams connected / with requests in flight; an independent python monitor evaluates the property on the recorded timeline and the recorded states are replayed on the models inside Coq. The backoff model is tied to the REAL pkg/backoff.Backoff (scripted configurations, every (wait, ok) replayed in Coq with the observed wait as the jitter oracle) and to the REAL Upstream.connect / Listen loop against a loopback server failing the first N handshakes (the waits the loop announces in its own log records, server-side arrival times). Whom a departing node tells is modelled as well (Gossip/Round.v leave_run: shuffle and acknowledgements as oracles): only live peers that acknowledge, min(4, their number) of them, no error as soon as one acknowledges, with all acknowledging exactly the shutdown model's notified_of (C18_leave_told_sound, C18_leave_told_count, C18_leave_all_ack_is_notified_of, C18_leave_observation_legal), compared with the real Gossip.Leave on peers listening on loopback stream ports (departed, suspected, closed ports). Scenario graceful-stalled-peer: a live member that accepts the leave connection and never answers, 2 s grace period. The legality check applied to the real Leave is proved sound and complete (C18_leave_observation_legal / _complete); which failed dials are retried is modelled (C18_transient_failures_are_retried, C18_fatal_answer_ends_loop; 14 statuses against the real connect loop); the k-th wait is at least min(2^k min, max) (C18_backoff_kth_wait).",
    "note": "PARTIAL. Proved: the decision logic, the shutdown bookkeeping under every schedule, that a notified peer marks the leaver left and LookupEndpoint never returns it, that a detected crash has the same effect, and the recovery composition under stated settledness hypotheses. Observed only (not proved): timing (Shutdown within the grace period, detector verdict, gossip convergence), process death (a crash is simulated in-process by closing every socket of the node), real reconnection (dial, yamux/websocket error reporting), and that every upstream handler returns after cancellation. Trusted: Coq kernel+VM, the hand-written models, the Go harness and the python translation.",
    "technique": "Coq proof (case analysis of the decision; invariant over all schedules of the shutdown sequence; composition over the proved gossip/syncer models) + model/implementation correspondence by replaying states recorded on a real 3-node cluster + independent timeline monitor + backoff / reconnection-loop model with the jitter as oracle (real pkg/backoff and real Upstream.connect) + leave-notification model (real Gossip.Leave)",
}
ASSUMPTIONS = [
    "a crash is simulated inside one process: the node's gossip sockets are closed without Leave, its proxy/upstream/admin listeners are closed and every connection they accepted is reset (SO_LINGER 0); its goroutines keep running but can no longer be reached",
    "clients have a single server URL: each listener reaches the cluster through a TCP front that tries the nodes' upstream ports in a fixed order starting with its preferred node (stands for a load balancer / DNS)",
    "status changes at the survivors are sampled by polling cluster.State every 2 ms (two changes inside one sampling gap would be seen as one); the syncer's watcher events are inferred from these changes",
    "the handlers' deferred RemoveConn runs asynchronously after Shutdown cancelled them (observed: the endpoint tombstones are often versioned AFTER the left marker); the model quantifies over all such schedules and the harness polls the leaver for quiescence (up to 5 s)",
    "`eventually` = within bound_ms (30 s quick) of polling; the failure detector needs about 1 s at a 40 ms gossip interval",
    "settledness of the survivors' routing views (hypothesis of C18_recovery_partial) is C03/C04's subject; here it is observed (requests succeed from every survivor)",
    "F2 (a crashed node re-learned after expiry) needs the 60 s node expiry to pass and is outside these scenarios",
]
TRUSTED = ["python timeline monitor (props/C18.py) as the independent oracle on the recorded behaviour",
           "harness-side TCP front and tracking listeners (harness/nodeloss/vhnl_test.go)"]

GOSSIP_MS = 40
GRACE_MS = 10000
BOUND_MS = 30000
RERUN_BOUND_MS = 8000    # confirmation / shrinking runs of a scenario that already failed once
DELAY_MS = 200


def H(s):
    return s.encode("latin-1").hex()


def cs(s):
    return coq_str(H(s))


# ------------------------------------------------------------------ scenarios
def scenario(cid, lose, mode, phase, endpoints, closing=None, mid_ms=0, bound_ms=None, drop=0, ghost="", extra=0, delay_ms=None,
             grace_ms=None, rebalance=False, inflight_at_lost=False, drop_clean=False):
    n = sum(len(e["listeners"]) for e in endpoints)
    return {"id": cid, "lose": lose, "mode": mode, "phase": phase, "gossip_ms": GOSSIP_MS, "grace_ms": grace_ms or GRACE_MS,
            "rebalance": rebalance, "inflight_at_lost": inflight_at_lost, "drop_clean": drop_clean,
            "delay_ms": delay_ms or DELAY_MS, "endpoints": endpoints, "closing": closing or (["shutdown", "ctx"] * n)[:n],
            "bound_ms": bound_ms or BOUND_MS, "mid_ms": mid_ms, "drop_reconnects": drop, "ghost": ghost, "extra": extra}


def corpus():
    """hand-picked scenarios, always run first (stored in /verif/corpus/C18/*.json; the built-in list is the fallback).
    The first one is the D4 scenario: the server node a listener is connected to shuts down (closes the connection);
    the listener must reconnect to a survivor."""
    cdir = os.path.join(VERIF, "corpus", ID)
    if os.path.isdir(cdir):
        files = sorted(f for f in os.listdir(cdir) if f.endswith(".json"))
        if files:
            return [json.load(open(os.path.join(cdir, f))) for f in files]
    return builtin_corpus()


def builtin_corpus():
    return [
        scenario("d4-graceful-connected", 0, "graceful", "connected",
                 [{"id": "ea", "listeners": [0, 1]}, {"id": "eb", "listeners": [0, 0]}]),
        scenario("crash-connected", 1, "crash", "connected",
                 [{"id": "ea", "listeners": [1, 2]}, {"id": "eb", "listeners": [1, 1]}], drop=2),
        scenario("graceful-inflight", 2, "graceful", "inflight",
                 [{"id": "ea", "listeners": [2, 0]}, {"id": "eb", "listeners": [2]}]),
        # the leaver still remembers an earlier departure (seeded change C18-1: Leave stopping at the first departed node)
        scenario("graceful-after-left", 1, "graceful", "connected", [{"id": "ea", "listeners": [1, 0]}], ghost="left"),
        scenario("graceful-after-crash", 0, "graceful", "connected", [{"id": "ea", "listeners": [0, 2]}], ghost="crashed"),
        scenario("graceful-after-left-2", 2, "graceful", "idle", [{"id": "ea", "listeners": [0]}], ghost="left"),
        # the node dies right after telling the first survivor: the other one has to hear of the departure through gossip
        # (seeded change C18-2: Delta() leaving out members that have left)
        scenario("partial-1", 1, "mid", "connected", [{"id": "ea", "listeners": [1, 2]}], mid_ms=-1),
        # six nodes: the leaver tells four of its five peers, the fifth hears of it through gossip
        scenario("wide-graceful", 1, "graceful", "connected", [{"id": "ea", "listeners": [1, 0]}], extra=3),
        # requests that take 3 s are in flight through the departing node: withdrawing its upstreams and announcing the
        # departure must not wait for them
        scenario("graceful-long-inflight", 0, "graceful", "inflight", [{"id": "ea", "listeners": [0, 1]}, {"id": "eb", "listeners": [0]}], delay_ms=3000),
        # the first reconnection attempts meet a balancer that accepts and closes without an answer (a clean end of the
        # handshake, not a reset): the listener keeps trying and ends up on a survivor
        scenario("crash-clean-refusals", 1, "crash", "connected", [{"id": "ea", "listeners": [1, 2]}, {"id": "eb", "listeners": [1]}], drop=3, drop_clean=True),
        scenario("graceful-clean-refusals", 0, "graceful", "connected", [{"id": "ea", "listeners": [0]}], drop=2, drop_clean=True),
        # every node runs the (never triggered) rebalance loop: shutdown still terminates
        scenario("graceful-rebalance-enabled", 1, "graceful", "connected", [{"id": "ea", "listeners": [1, 0]}], rebalance=True),
        # a 3 s request that entered at the departing node and is served by a survivor's upstream outlasts the 0.8 s grace
        # period: the shutdown runs out of time while draining its proxy, the departure is announced all the same
        # a live member whose gossip stream port accepts the leave connection and never answers: the shutdown still ends within
        # its (2 s) grace period, the other peers are told
        scenario("graceful-stalled-peer", 1, "graceful", "connected", [{"id": "ea", "listeners": [1, 0]}], ghost="stalled", grace_ms=2000),
        scenario("graceful-grace-exhausted", 0, "graceful", "inflight", [{"id": "ea", "listeners": [1]}, {"id": "eb", "listeners": [0]}],
                 delay_ms=3000, grace_ms=800, inflight_at_lost=True),
    ]


def gen_scenario(rng, cid, lose=None, mode=None, phase=None):
    lose = rng.randrange(3) if lose is None else lose
    mode = mode or rng.choice(["graceful", "crash", "graceful", "crash", "mid"])
    phase = phase or rng.choice(["idle", "connected", "inflight"])
    others = [i for i in range(3) if i != lose]
    eps = []
    for k in range(rng.randint(1, 3)):
        nl = rng.randint(1, 3)
        if phase == "idle":
            ls = [rng.choice(others) for _ in range(nl)]
        else:
            ls = [rng.choice([lose, lose] + others) for _ in range(nl)]
        eps.append({"id": "e%s" % "abc"[k], "listeners": ls})
    if phase != "idle" and not any(lose in e["listeners"] for e in eps):
        eps[0]["listeners"][0] = lose
    n = sum(len(e["listeners"]) for e in eps)
    closing = [rng.choice(["shutdown", "ctx"]) for _ in range(n)]
    # an earlier departure (a fourth node that left / crashed before) is still remembered by everybody in a third of
    # the scenarios: the leaver's walk over its known nodes meets it, the survivors' tables hold it
    return scenario(cid, lose, mode, phase, eps, closing, mid_ms=rng.choice([0, 1, 3, 8, -1, -1, -1]) if mode == "mid" else 0,
                    drop=rng.choice([0, 0, 1, 3]), ghost=rng.choice(["", "", "left", "crashed"]), drop_clean=rng.random() < 0.3)


def matrix(rng):
    out = []
    for lose in range(3):
        for phase in ("idle", "connected", "inflight"):
            for mode in ("graceful", "crash", "mid"):
                out.append(gen_scenario(rng, "m-n%d-%s-%s" % (lose, phase, mode), lose, mode, phase))
    return out


LAST_ADVERTISE = []


def run_scenarios(binary, wd, scs, tag="nl", parallel=1):
    out, logtxt = run_harness(binary, {"scenarios": scs, "parallel": parallel}, wd, tag=tag, test=TEST, timeout=1800)
    if out is None:
        raise RuntimeError("nodeloss harness run failed:\n" + logtxt)
    global LAST_ADVERTISE
    LAST_ADVERTISE = out.get("advertise") or LAST_ADVERTISE
    return out["scenarios"]


def advertise_failures():
    """a node bound to a specific address advertises exactly that address (host and port as a peer has to dial them: an IPv6
    literal keeps its brackets); survivors reach each other - and clients' endpoints - through what was advertised"""
    bad = []
    for bind, adv in LAST_ADVERTISE:
        if adv != bind:
            bad.append((bind, adv))
    return bad


# ------------------------------------------------------------------ independent monitor
def listeners_of(sc):
    out = []
    for e in sc["endpoints"]:
        for i, p in enumerate(e["listeners"]):
            out.append((e["id"], i, p))
    return out


def monitor(sc, o):
    """the property's own predicate on the recorded timeline of one scenario; returns None or {sig, why}"""
    if o.get("panic"):
        p = o["panic"]
        if "Shutdown did not return" in p:
            return {"sig": "shutdown-hangs", "why": "graceful shutdown did not terminate: " + p}
        return {"sig": "panic", "why": "scenario failed: " + p}
    lost = o["lost"]
    surv = [s["node"] for s in o["survivors"]]
    eps = [e["id"] for e in sc["endpoints"]]
    mode = sc["mode"]
    L = o["leaver"]
    # --- no request is ever served by an upstream of another endpoint
    for r in o["requests"]:
        if r["status"] == 200:
            m = re.match(r"^(.*)\|(\d+)$", r["body"])
            if not m or m.group(1) != r["ep"]:
                return {"sig": "wrong-upstream", "why": "request for %s at %s (%s) answered 200 with %r: not an upstream of %s"
                                                         % (r["ep"], r["node"], r["stage"], r["body"], r["ep"])}
    # --- a listener never gives up unless it is closed locally or its context is cancelled
    for l in o["listeners"]:
        if l.get("returned"):
            return {"sig": "listener-gave-up", "why": "listener %s/%d (connected to %s when %s was lost) had Accept return %r %d ms after the loss although it was neither closed locally nor its context cancelled"
                                                       % (l["endpoint"], l["idx"], l["at_loss"], lost, l["returned"], l.get("returned_ms", 0) - o["loss_at_ms"])}
    # --- graceful: terminates within the grace period, withdraws, publishes the marker
    if mode == "graceful":
        # the waits inside Shutdown end AT the deadline; what follows (closing listeners, returning) takes a few milliseconds more
        if o["loss_ms"] > o["grace_ms"] + 250:
            return {"sig": "grace-exceeded", "why": "Shutdown took %d ms, grace period %d ms" % (o["loss_ms"], o["grace_ms"])}
        if L["endpoints_after"]:
            return {"sig": "still-advertising", "why": "after Shutdown returned (and %d ms of polling) node %s still holds upstream connections / advertises %r"
                                                        % (L["quiesce_ms"], lost, L["endpoints_after"])}
        own = L["own"]
        marker = [e for e in own["entries"] if e["key"] == "_internal:left" and e["internal"] and not e["deleted"]]
        if not own["left"] or not marker:
            return {"sig": "no-left-marker", "why": "after Shutdown node %s has not published its departure (left=%r, marker entry present=%r)"
                                                     % (lost, own["left"], bool(marker))}
        live = [e for e in own["entries"] if e["key"].startswith("endpoint:") and not e["deleted"]]
        if live:
            return {"sig": "still-advertising", "why": "after Shutdown node %s still advertises %r in its gossip state" % (lost, [e["key"] for e in live])}
        for name, key in (("proxy", "proxy_open"), ("upstream", "upstream_open"), ("admin", "admin_open"), ("gossip", "gossip_open")):
            if L[key]:
                return {"sig": "listener-open", "why": "after Shutdown the %s port of %s still accepts connections" % (name, lost)}
        # the peers it notified (the live ones; at most 4 - here at most 2) stop routing to it at once
        notified = [p for p in L["live_before"] if p in L["live_after"]]
        if sc["phase"] == "inflight" and sc["delay_ms"] >= 2500:
            # "at once" does not mean "once the requests in flight through the node have finished": the withdrawal and the
            # announcement come first, in-flight proxy requests are drained afterwards
            for s_ in o["survivors"]:
                t_left = [x["ms"] - o["loss_at_ms"] for x in s_["timeline"] if x["status"] == "left"]
                if s_["node"] in notified and (not t_left or t_left[0] > 1500):
                    return {"sig": "withdrawal-waits-for-drain",
                            "why": "requests of %d ms were in flight through %s when its shutdown began; peer %s saw the departure only %s ms later (Shutdown took %d ms)"
                                   % (sc["delay_ms"], lost, s_["node"], t_left[0] if t_left else "never within the run", o["loss_ms"])}
        if len(notified) > 4:
            # Leave stops after the 4th acknowledgement: any four of the live peers
            told = [s["node"] for s in o["survivors"] if s["instant"] == "left"]
            if len(told) < 4:
                return {"sig": "notified-not-left", "hard": o["loss_ms"] < 1500,
                        "why": "the instant Shutdown of %s returned (after %d ms) only %r of its %d live peers had it as left (Leave notifies 4)" % (lost, o["loss_ms"], told, len(notified))}
            notified = told
        exhausted = o["loss_ms"] >= sc["grace_ms"] - 25
        if exhausted:
            # the grace period ran out while the proxy was draining (a request in flight outlasted it): Shutdown has to return, the
            # leave announcement is already on its way and reaches the peers right after - it is not dropped
            for s_ in o["survivors"]:
                t_left = [x["ms"] - o["loss_at_ms"] for x in s_["timeline"] if x["status"] == "left"]
                if s_["node"] in notified and (not t_left or t_left[0] > o["loss_ms"] + 1500):
                    return {"sig": "departure-not-announced",
                            "why": "the shutdown of %s used up its grace period (%d ms); peer %s %s" % (lost, sc["grace_ms"], s_["node"],
                                   "never saw it leave (status changes %r)" % [x["status"] for x in s_["timeline"]] if not t_left else "saw the departure only %d ms after the shutdown began" % t_left[0])}
        for s in ([] if exhausted else o["survivors"]):
            if s["node"] in notified and s["instant"] != "left":
                # the leave stream is synchronous (acknowledged after ApplyDelta, the status is set in the watcher callback):
                # when Shutdown returned quickly - no dial or stream timeout can have happened - the recorded state is hard
                # evidence, even if another run of the same scenario (another shuffle of the leaver's peers) does not show it
                return {"sig": "notified-not-left", "hard": o["loss_ms"] < 1500,
                        "why": "the instant Shutdown of %s returned (after %d ms), live peer %s had it as %r, not left" % (lost, o["loss_ms"], s["node"], s["instant"])}
            for ep, ids in s["instant_lookup"].items():
                if s["node"] in notified and lost in ids:
                    return {"sig": "routes-to-left", "why": "after the leave of %s, LookupEndpoint(%s) at notified peer %s returned it" % (lost, ep, s["node"])}
    # --- every survivor stops routing to the lost node, for good
    for s in o["survivors"]:
        tl = [x["status"] for x in s["timeline"]]
        final = tl[-1] if tl else "?"
        post = [n for n in s["post_routing"] if n["id"] == lost]
        pstat = post[0]["status"] if post else "absent"
        if final == "active" or pstat == "active":
            return {"sig": "still-active", "why": "%s still has the lost node %s as active %d ms after the loss (status changes %r)"
                                                   % (s["node"], lost, sc["bound_ms"], tl)}
        if pstat == "absent" and final == "absent" and len(tl) >= 2 and tl[-2] in ("left", "unreachable"):
            pstat = tl[-2]          # forgotten after the 60 s node expiry (only scenarios that ran that long): C11
            tl = tl[:-1]
        if mode == "graceful" and pstat != "left":
            return {"sig": "not-left", "why": "%s ended with status %r for the gracefully departed %s (status changes %r)" % (s["node"], pstat, lost, tl)}
        if "left" in tl and any(x != "left" for x in tl[tl.index("left"):]):
            return {"sig": "left-not-final", "why": "%s had %s as left and later as something else: %r" % (s["node"], lost, tl)}
        for ep, ids in s["post_lookup"].items():
            if lost in ids:
                return {"sig": "routes-to-lost", "why": "LookupEndpoint(%s) at %s returned the lost node %s although its status is %r" % (ep, s["node"], lost, pstat)}
            bad = [i for i in ids if i and (i not in surv or i == s["node"])]
            if bad:
                return {"sig": "lookup-bad-node", "why": "LookupEndpoint(%s) at %s returned %r" % (ep, s["node"], bad)}
    # --- "the rest follow through gossip": once one survivor knows that the node LEFT, the others end up there too
    finals = {}
    for s in o["survivors"]:
        post = [n for n in s["post_routing"] if n["id"] == lost]
        finals[s["node"]] = post[0]["status"] if post else "absent"
    told = [n for n, st in finals.items() if st == "left"]
    rest = [n for n, st in finals.items() if st not in ("left", "absent")]
    if told and rest:
        return {"sig": "rest-not-following", "why": "%s hold(s) the departed %s as left, but %s ended with %r: the departure did not follow through gossip"
                                                      % (told, lost, rest[0], finals[rest[0]])}
    # --- listeners reconnect to a survivor
    want = {}
    for l in o["listeners"]:
        want[l["endpoint"]] = want.get(l["endpoint"], 0) + 1
        if l["at_loss"] == lost and (len(l["backends"]) < 2 or l["backends"][-1] == lost):
            return {"sig": "no-reconnect", "why": "listener %s/%d was connected to %s and never reconnected to a survivor (connections: %r)"
                                                   % (l["endpoint"], l["idx"], lost, l["backends"])}
    if o["rereg_ms"] < 0:
        return {"sig": "not-reregistered", "why": "within %d ms not every listener was registered on a survivor: registered %r, wanted %r"
                                                   % (sc["bound_ms"], o["registered"], want)}
    for ep, n in want.items():
        got = sum(o["registered"][s].get(ep, 0) for s in surv)
        if got != n:
            return {"sig": "not-reregistered", "why": "endpoint %s: %d listeners but %d registered on the survivors at the end" % (ep, n, got)}
    # --- requests succeed again from every survivor
    for r in o["recovery"]:
        if r["ok_ms"] < 0:
            return {"sig": "no-recovery", "why": "requests for %s at survivor %s never succeeded again (%d tries in %d ms)" % (r["ep"], r["node"], r["tries"], sc["bound_ms"])}
    for s in surv:
        for ep in eps:
            post = [r for r in o["requests"] if r["stage"] == "post" and r["node"] == s and r["ep"] == ep]
            if post and not any(r["status"] == 200 for r in post):
                return {"sig": "no-recovery", "why": "after recovery none of %d requests for %s at %s succeeded" % (len(post), ep, s)}
    # --- the two returning branches of the decision
    for l in o["listeners"]:
        exp = "ctx" if l["ctx_cancelled"] else "closed"
        if l["final"] != exp:
            return {"sig": "close-outcome", "why": "listener %s/%d: after %s Accept ended with %r, expected %r" % (l["endpoint"], l["idx"], l["closing"], l["final"], exp)}
    return None


# ------------------------------------------------------------------ trace -> Coq
STATUS = {"active": "SActive", "unreachable": "SUnreach", "left": "SLeft", "": "SNone"}
OUTCOME = {"": 0, "blocked": 0, "closed": 1, "ctx": 2, "connect": 3}


def c_entry(e):
    return "(mk_entry %s %s %d%%N %s %s)" % (cs(e["key"]), cs(e["value"]), e["version"], coq_bool(e["internal"]), coq_bool(e["deleted"]))


def c_rnode(n):
    return "(Build_rnode %s %s %s)" % (cs(n["id"]), STATUS.get(n["status"], "SNone"),
                                       coq_list(["(%s, %d%%Z)" % (cs(k), v) for k, v in sorted(n["endpoints"].items())]))


def c_opt_status(nodes, lost):
    for n in nodes:
        if n["id"] == lost:
            return "(Some %s)" % STATUS.get(n["status"], "SNone")
    return "None"


def c_strs(l):
    return coq_list([cs(x) for x in l])


def events_of_timeline(tl, lost):
    ev = []
    prev = tl[0]["status"] if tl else "active"
    for x in tl[1:]:
        st = x["status"]
        if st == "left":
            ev.append("ELeave %s" % cs(lost))
        elif st == "unreachable":
            ev.append("EUnreach %s" % cs(lost))
        elif st == "active":
            ev.append("EReach %s" % cs(lost))
        elif st == "absent":
            ev.append("EExpired %s" % cs(lost))
        prev = st
    return ev


def schedule_of(o):
    """the schedule of Shutdown the recorded versions imply: a handler exit whose endpoint tombstone is versioned below the
    left marker ran before the Leave step, the others after it"""
    L = o["leaver"]
    conns = []
    for ep, n in sorted(L["conns_before"].items()):
        conns += [ep] * n
    ents = {e["key"]: e for e in L["own"]["entries"]}
    mv = ents.get("_internal:left", {}).get("version")
    before, after = [], []
    for ep in conns:
        e = ents.get("endpoint:" + ep)
        if mv is not None and e is not None and e["version"] < mv:
            before.append(ep)
        else:
            after.append(ep)
    # the shuffle of Leave is not observable: the peers that had the node as left the instant Shutdown returned come first
    told_first = told_peers(o)
    order = [p for p in L["live_before"] if p in told_first] + [p for p in L["live_before"] if p not in told_first]
    if "stalled" in L["live_before"]:
        # a peer that accepts the leave stream and never answers: whom Leave reaches before the grace period ends depends on
        # the (unobservable) shuffle; the observed told set is the oracle here - the selection logic itself is compared with
        # Gossip/Round.v by the leave probe
        order = [p for p in order if p in told_first]
    live = "(%s)" % c_strs(order)
    sched = ["StNotReady", "StUpstream"] + ["StExit %s" % cs(e) for e in before] + ["StProxy", "StLeave %s" % live] \
        + ["StExit %s" % cs(e) for e in after] + ["StGossipClose", "StAdmin"]
    return conns, sched, live


def told_peers(o):
    """the peers the leave announcement reached: those holding the node as left the instant Shutdown returned; when the shutdown
    used up its grace period (Shutdown returns at the deadline, the announcement is still on its way) those that hold it as left
    within 1.5 s of that"""
    if o["loss_ms"] >= o["grace_ms"] - 25:
        return [s["node"] for s in o["survivors"]
                if any(x["status"] == "left" and x["ms"] - o["loss_at_ms"] <= o["loss_ms"] + 1500 for x in s["timeline"])]
    return [s["node"] for s in o["survivors"] if s["instant"] == "left"]


def cases_of(sc, o):
    """the Coq cases of one observed scenario, with a label each"""
    out = []
    lost = o["lost"]
    mode = sc["mode"]
    L = o["leaver"]
    # accept histories
    for l in o["listeners"]:
        its = []
        if l["at_loss"] == lost:
            # one iteration per lost session that was followed by a successful reconnection
            its += ["(Build_it_obs false false CConnected)"] * max(1, len(l["backends"]) - 1 if not l.get("returned") else 1)
        if l.get("returned"):
            obs = OUTCOME.get(l["returned"], 9)
        else:
            its.append("(Build_it_obs %s %s CConnected)" % (coq_bool(l["ctx_cancelled"]), coq_bool(l["closed_locally"])))
            obs = OUTCOME.get(l["final"], 9)
        out.append(("accept %s/%d" % (l["endpoint"], l["idx"]), "NLAccept %s %d" % (coq_list(its), obs)))
    # the leaver
    if mode == "graceful":
        conns, sched, live = schedule_of(o)
        own = L["own"]
        marker = any(e["key"] == "_internal:left" and e["internal"] and not e["deleted"] for e in own["entries"])
        adv = any(e["key"].startswith("endpoint:") and not e["deleted"] for e in own["entries"])
        inst = told_peers(o)
        ob = "(Build_shut_obs %s %s %s %s %s %s %s %s %s)" % (
            coq_bool(not L["endpoints_after"]), coq_bool(not L["endpoints_after"] and not adv), coq_bool(own["left"]), coq_bool(marker),
            coq_bool(L["proxy_open"]), coq_bool(L["upstream_open"]), coq_bool(L["admin_open"]), coq_bool(L["gossip_open"]), c_strs(inst))
        out.append(("shutdown of %s" % lost, "NLShut %s %s %s %s" % (c_strs(conns), coq_list(sched), live, ob)))
    for s in o["survivors"]:
        pre, post = s["pre_routing"], s["post_routing"]
        # routing table fed with the status changes it went through
        ev = events_of_timeline(s["timeline"], lost)
        out.append(("routing of %s at %s" % (lost, s["node"]),
                    "NLRoute %s %s %s %s %s" % (cs(s["node"]), cs(lost), coq_list([c_rnode(n) for n in pre]), coq_list(ev), c_opt_status(post, lost))))
        # LookupEndpoint at the end
        for ep, ids in sorted(s["post_lookup"].items()):
            out.append(("lookup %s at %s" % (ep, s["node"]),
                        "NLLookup %s %s %s %s" % (cs(s["node"]), coq_list([c_rnode(n) for n in post]), cs(ep), c_strs(ids))))
        # the leave through the gossip model
        if mode == "graceful" and s["pre_gossip"]["known"] and s["post_gossip"]["known"] and not s["pre_gossip"]["left"]:
            pg, qg, own = s["pre_gossip"], s["post_gossip"], L["own"]
            full = qg["version"] == own["version"]
            peps = [n for n in post if n["id"] == lost]
            out.append(("leave of %s seen by %s (%s)" % (lost, s["node"], "full" if full else "flags"),
                        "NLLeave %s %s %s %d%%N %s %s %s %d%%N %s %s %s %s" % (
                            coq_bool(full), cs(s["node"]), cs(lost), pg["version"], coq_list([c_entry(e) for e in pg["entries"] or []]),
                            coq_list([c_rnode(n) for n in pre]), coq_list([c_entry(e) for e in own["entries"] or []]),
                            qg["version"], coq_bool(qg["left"]), coq_list([c_entry(e) for e in qg["entries"] or []]),
                            c_opt_status(post, lost),
                            coq_list(["(%s, %d%%Z)" % (cs(k), v) for k, v in sorted((peps[0]["endpoints"] if peps else {}).items())]))))
    return out


# monitor signatures whose evidence is a recorded state or answer, not a missed deadline
HARD_EVIDENCE = {"rest-not-following", "wrong-upstream", "listener-gave-up", "still-advertising", "no-left-marker", "listener-open", "routes-to-lost",
                 "routes-to-left", "left-not-final", "lookup-bad-node", "close-outcome"}

CODE_NAMES = {1: "accept-outcome", 2: "illegal-schedule", 3: "leaver-holds-upstreams", 4: "left-marker", 5: "listener-open",
              6: "notified-peer-not-left", 7: "gossip-view", 8: "routing-status", 9: "routing-endpoints", 10: "LookupEndpoint"}


def cases_file(items):
    body = ["From Coq Require Import List String NArith ZArith Bool.",
            "From Piko Require Import Base.Maps Base.Strs Gossip.Types Cluster.Syncer NodeLoss.NodeLoss Run.Run_NodeLoss.",
            "Import ListNotations. Open Scope string_scope. Open Scope list_scope.",
            "Definition cases : list nlcase := [",
            ";\n".join(t for _, t in items),
            "].",
            "Definition M := Eval vm_compute in mismatches cases.",
            "Print M."]
    return "\n".join(body) + "\n"


def parse_mismatches(out):
    m = re.search(r"M\s*=\s*(.*?)\s*:\s*list", out, flags=re.S)
    if not m:
        return None
    txt = m.group(1).strip()
    if txt == "[]":
        return []
    res = []
    for mm in re.finditer(r"\(\s*(\d+)\s*,\s*\[([^\]]*)\]\s*\)", txt.replace("%nat", "")):
        res.append((int(mm.group(1)), [int(x) for x in re.findall(r"\d+", mm.group(2))]))
    return res


def correspondence(wd, scs, outs, tag="nl"):
    items, owner = [], []
    for i, (sc, o) in enumerate(zip(scs, outs)):
        if o.get("panic"):
            continue
        for lab, t in cases_of(sc, o):
            items.append((lab, t))
            owner.append(i)
    if not items:
        return [], 0
    shard = 120
    jobs = list(range(0, len(items), shard))

    def work(si):
        rc, out = coq_eval(wd, "Cases_%s_%s_%d" % (ID, tag, si), cases_file(items[si:si + shard]))
        mm = parse_mismatches(out)
        if rc != 0 or mm is None:
            raise RuntimeError("coq evaluation of cases failed:\n" + out[-3000:])
        return [(si + k, codes) for k, codes in mm]
    dis = []
    with cf.ThreadPoolExecutor(max_workers=8) as ex:
        for r in ex.map(work, jobs):
            for k, codes in r:
                dis.append({"scenario": owner[k], "case": items[k][0], "codes": codes, "names": [CODE_NAMES.get(x, str(x)) for x in codes]})
    return dis, len(items)


# ------------------------------------------------------------------ shrinking
def shrink(binary, wd, sc, sig, budget=6):
    """fewer listeners / endpoints while the same monitor signature still fails (each candidate is a full cluster run)"""
    cur = sc
    tried = 0
    changed = True
    while changed and tried < budget:
        changed = False
        cands = []
        eps = cur["endpoints"]
        for i in range(len(eps)):
            if len(eps) > 1:
                cands.append([e for j, e in enumerate(eps) if j != i])
            if len(eps[i]["listeners"]) > 1:
                for k in range(len(eps[i]["listeners"])):
                    ne = copy.deepcopy(eps)
                    del ne[i]["listeners"][k]
                    cands.append(ne)
        for ne in cands:
            if tried >= budget:
                break
            if cur["phase"] != "idle" and not any(cur["lose"] in e["listeners"] for e in ne):
                continue
            n = sum(len(e["listeners"]) for e in ne)
            cand = dict(cur, id=cur["id"] + "-s", endpoints=ne, closing=(cur["closing"] * 2)[:n])
            tried += 1
            o = run_scenarios(binary, wd, [cand], tag="shrink")[0]
            f = monitor(cand, o)
            if f and f["sig"] == sig:
                cur, changed = cand, True
                break
    return cur


def known_match(sig):
    for k in known_findings():
        if k["kind"] == "known" and k["property"] == ID and k["sig"] == sig:
            return "sig=%s %s" % (sig, k["text"])
    return None


def describe(sc):
    return "lose n%d %s, phase %s, listeners %s" % (sc["lose"], sc["mode"], sc["phase"],
                                                    ", ".join("%s->%s" % (e["id"], ["n%d" % p for p in e["listeners"]]) for e in sc["endpoints"]))


def summary(sc, o):
    if o.get("panic"):
        return {"id": sc["id"], "scenario": describe(sc), "panic": o["panic"]}
    return {"id": sc["id"], "scenario": describe(sc), "loss_ms": o["loss_ms"],
            "status_changes": {s["node"]: [(x["ms"] - o["loss_at_ms"], x["status"]) for x in s["timeline"]] for s in o["survivors"]},
            "listeners": [{"ep": l["endpoint"], "connections": l["backends"], "refused_reconnects": l.get("refused", 0), "final": l["final"]} for l in o["listeners"]],
            "reregistered_after_ms": o["rereg_ms"] - o["loss_at_ms"] if o["rereg_ms"] >= 0 else None,
            "recovered_after_ms": {"%s@%s" % (r["ep"], r["node"]): (r["ok_ms"] - o["loss_at_ms"] if r["ok_ms"] >= 0 else None) for r in o["recovery"]},
            "requests": len(o["requests"])}


# ------------------------------------------------------------------ entry points
def run(ctx):
    rng = random.Random(ctx["seed"])
    wd = ctx["wd"]
    quick = ctx["tier"] == "quick"
    scs = corpus()
    if quick:
        scs += [gen_scenario(rng, "g0", mode="mid", phase="connected"), gen_scenario(rng, "g1", mode="crash", phase="inflight"),
                gen_scenario(rng, "g2", mode="graceful", phase="idle"), gen_scenario(rng, "g3"), gen_scenario(rng, "g4")]
    else:
        for rep in range(3):
            scs += [dict(sc, id="%s-r%d" % (sc["id"], rep)) for sc in matrix(rng)]
        scs += [gen_scenario(rng, "g%d" % i) for i in range(40)]
    bo_cov, bo_viol = backoff_probe.run(ctx, ID)
    try:
        lv_cov, lv_viol = round_probe.run(ctx, ID, {"leave"})
    except BuildError as e:
        # the leave probe lives in pkg/gossip: when it no longer compiles against the tree the tie is broken (reported below,
        # unless a scenario on the real cluster finds a failing input)
        lv_cov = {"harness": "gossip/leaveprobe", "build_failed": True}
        lv_viol = [{"what": "harness-build: the leave-notification probe no longer compiles against the tree (an internal of pkg/gossip the model is tied to changed): " + str(e)[-400:],
                    "found_input": False, "replay_obj": {"broken": "corr:C18:members:harness-build", "log": str(e)[-3000:]}}]
    bo_viol = bo_viol + lv_viol
    binary = build_harness(PKG, dirs=HDIRS)
    t0 = time.time()
    outs = run_scenarios(binary, wd, scs, parallel=1 if quick else 3)
    log("[C18] %d scenarios on real 3-node clusters in %.1fs" % (len(scs), time.time() - t0))

    violations, known = list(bo_viol), []
    for bind, adv in advertise_failures():
        violations.append({"what": "C18 advertised address: a node bound to %s advertises %r to its peers - not an address they can dial to reach it" % (bind, adv),
                           "found_input": True, "replay_obj": {"property": ID, "kind": "advertise", "bind": bind, "advertised": adv}})
        break
    unreproduced = []
    fails = []
    for sc, o in zip(scs, outs):
        f = monitor(sc, o)
        if f:
            fails.append((sc, o, f))
    dis, ncases = correspondence(wd, scs, outs)

    seen = set()
    for sc, o, f in fails:
        if f["sig"] in seen:
            continue
        seen.add(f["sig"])
        # timing-dependent: confirm on a second run of the same scenario before raising an alarm about the tree
        sc = dict(sc, bound_ms=RERUN_BOUND_MS)
        again = run_scenarios(binary, wd, [dict(sc, id=sc["id"] + "-again")], tag="again")[0]
        f2 = monitor(sc, again)
        if f2 is None and (f["sig"] in HARD_EVIDENCE or f.get("hard")):
            # the recorded state is the evidence (not a deadline that was missed): an intermittent failure (race) is still a failure
            f2, again = dict(f, why=f["why"] + " [observed in 1 of 2 runs of this scenario: intermittent]"), o
        if f2 is None:
            # every check is a poll with a generous bound, so this is a stall of the machine, not the tree: recorded, not raised
            log("[C18] monitor failure %s on %s did not reproduce on a second run: %s" % (f["sig"], sc["id"], f["why"]))
            unreproduced.append({"scenario": sc["id"], "sig": f["sig"], "why": f["why"]})
            continue
        small, so, sf = sc, again, f2
        if f2["sig"] != "panic" and len(seen) <= 2 and "intermittent]" not in f2["why"]:
            try:
                cand = shrink(binary, wd, sc, f2["sig"], budget=3)
                if cand is not sc:
                    co = run_scenarios(binary, wd, [cand], tag="shrunk")[0]
                    cf_ = monitor(cand, co)
                    if cf_ and cf_["sig"] == f2["sig"]:
                        small, so, sf = cand, co, cf_
            except Exception as e:      # best effort
                log("[C18] shrink failed: %r" % e)
        km = known_match(sf["sig"])
        if km:
            known.append(km)
            continue
        violations.append({"what": "C18 monitor [%s]: %s (%s)" % (sf["sig"], sf["why"], describe(small)), "found_input": True,
                           "replay_obj": {"property": ID, "kind": "monitor", "signature": sf["sig"], "why": sf["why"], "case": small,
                                          "observed": summary(small, so)}})
    if dis and not fails:
        d = dis[0]
        sc, o = scs[d["scenario"]], outs[d["scenario"]]
        # search harder: the same scenario twice more and its graceful/crash twin
        extra = [dict(sc, id=sc["id"] + "-again%d" % i, bound_ms=RERUN_BOUND_MS) for i in range(2)]
        eouts = run_scenarios(binary, wd, extra, tag="again")
        found = None
        for ec, eo in zip(extra, eouts):
            f = monitor(ec, eo)
            if f:
                found = (ec, eo, f)
                break
        edis, _ = correspondence(wd, extra, eouts, tag="again")
        if found:
            ec, eo, f = found
            violations.append({"what": "C18 monitor [%s]: %s (%s)" % (f["sig"], f["why"], describe(ec)), "found_input": True,
                               "replay_obj": {"property": ID, "kind": "monitor", "signature": f["sig"], "why": f["why"], "case": ec,
                                              "observed": summary(ec, eo)}})
        elif edis:
            violations.append({"what": "model/implementation disagreement (%s) on %s in scenario %s (%s); reproduced on a second run; no monitor failure found"
                                       % (",".join(d["names"]), d["case"], sc["id"], describe(sc)), "found_input": False,
                               "replay_obj": {"broken": "corr:C18:nodeloss:%s" % "+".join(d["names"]), "disagreement": d, "case": sc,
                                              "observed": summary(sc, o)}})
        else:
            log("[C18] correspondence disagreement %r on %s did not reproduce on two further runs (sampling gap)" % (d, sc["id"]))
            unreproduced.append({"scenario": sc["id"], "sig": "corr:" + "+".join(d["names"]), "why": d["case"]})

    okc = [(sc, o) for sc, o in zip(scs, outs) if not o.get("panic")]
    kinds = {}
    for sc in scs:
        k = "%s/%s" % (sc["mode"], sc["phase"])
        kinds[k] = kinds.get(k, 0) + 1
    nontriv = len({json.dumps([sc["lose"], sc["mode"], sc["phase"], sc["endpoints"]], sort_keys=True) for sc, o in okc
                   if sc["phase"] != "idle" and any(l["at_loss"] == o["lost"] for l in o["listeners"])})
    det = [x["ms"] - o["loss_at_ms"] for sc, o in okc if sc["mode"] == "crash" for s in o["survivors"] for x in s["timeline"][1:2]]
    cov = {"evaluations": len(scs), "distinct_nontrivial": nontriv,
           "rule": "one evaluation = one scenario on a fresh in-process cluster of 3 real server nodes: corpus (D4 scenario first: graceful loss of the node listeners are connected to; crash with listeners connected; graceful with requests in flight) then seeded scenarios (node to lose x phase idle/connected/in-flight x graceful/crash/crash-mid-shutdown; 1-3 endpoints with 1-3 listeners each, placement and closing ops random); thorough = the full 3x3x3 matrix three times with different placements + 40 random; non-trivial = at least one listener was connected to the lost node when it was lost; distinct by (lost node, mode, phase, placement)",
           "samples": [summary(sc, o) for sc, o in list(zip(scs, outs))[:2]],
           "correspondence": {"harness": "nodeloss (3 real server.Server nodes in one process, client.Upstream listeners, HTTP through every proxy port)",
                              "histories": len(okc), "ops": ncases, "distribution": kinds, "disagreements": len(dis), "seed": ctx["seed"],
                              "coq_cases": "accept histories, shutdown schedules, leave via apply_delta+on_events, routing status via on_events, LookupEndpoint vs lookup_candidates"},
           "monitor": {"histories": len(scs), "failures": len(fails), "unreproduced": unreproduced},
           "requests_sent": sum(len(o.get("requests") or []) for o in outs),
           "shutdown_ms": [o["loss_ms"] for sc, o in okc if sc["mode"] == "graceful"],
           "crash_detection_ms": {"n": len(det), "min": min(det) if det else None, "max": max(det) if det else None},
           "reconnection_backoff": bo_cov, "leave_notification": lv_cov,
           "wall_harness_s": round(time.time() - t0, 1)}
    if any(v.get("found_input") for v in violations):
        violations = [v for v in violations if v.get("found_input")] + [v for v in violations if not v.get("found_input")]
    return {"coverage": cov, "violations": violations, "known": known}


def replay(path, wd):
    obj = json.load(open(path))
    binary = build_harness(PKG, dirs=HDIRS)
    if obj.get("kind") == "members":
        return round_probe.replay(obj, wd)
    if obj.get("kind") == "backoff":
        return backoff_probe.replay(obj, wd)
    if obj.get("kind") == "advertise":
        run_scenarios(binary, wd, [], tag="replay")
        print(json.dumps({"advertise": LAST_ADVERTISE, "failures": advertise_failures()}, indent=1))
        return 0
    sc = obj["case"]
    o = run_scenarios(binary, wd, [sc], tag="replay")[0]
    print(json.dumps({"scenario": describe(sc), "implementation": summary(sc, o), "monitor": monitor(sc, o)}, indent=1))
    if not o.get("panic"):
        dis, n = correspondence(wd, [sc], [o], tag="replay")
        print("model disagreements (%d cases):" % n, dis or "none")
    return 0
