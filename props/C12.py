"""C12 - failure detector: steady peers are never suspected, silent peers always are."""
import json, os, random, re, struct, sys, time
from fractions import Fraction
sys.path.insert(0, os.path.dirname(os.path.dirname(os.path.abspath(__file__))))
from lib.common import *

from props import consts_common
ID = "C12"
COQ_TARGETS = ["Run/Run_FD.vo"]
META = {
    "text": "C12_silent_eventually_unreachable (Compose/LiveFD.v): in place - asked by the cluster state's UpdateLiveness - every evaluation made late enough finds a silent peer unreachable (and C11_silent_stays_unreachable keeps it so until heard). Theorems (Properties/C12.v) over the Gallina model FD/FD.v of pkg/gossip/failuredetector.go (circular interval buffer, "
            "arrivalWindow, accrualFailureDetector, as written): for every window size n>=1 and every arrival sequence of any length the "
            "buffer holds exactly the last min(len,n) elements of bootstrap::differences with their sum and count (C12_window, past any "
            "number of wrap-arounds); the level is 0 at an arrival (C12_zero_at_arrival) and equals (t-last)*size/sum, linear in the "
            "silence with slope 1/mean (C12_linear); if all intervals in the window are >= m and the silence is <= theta*m the level is "
            "<= theta, instantiated at the production threshold 20 on the decision `level > 20` (C12_accuracy, C12_accuracy_20, "
            "C12_steady_never_suspected); every reachable state crosses every threshold for good (C12_completeness, _reachable); two "
            "histories with the same last n+1 arrivals have the same level (C12_window_only); the detector keeps one such window per peer "
            "(C12_detector_tracks) and a never-heard peer gets the bootstrap sample at its first query (C12_never_heard); the running "
            "sum is bounded by bootstrap + time span (C12_no_overflow). The model is tied to the Go code by replaying generated call "
            "scripts on the real accrualFailureDetector and on the model inside Coq, comparing the integer window state exactly after "
            "every call and every returned float64 level with the exact rational under relative tolerance 1e-9. C12_threshold_is_the_sources: the threshold of the theorems is the suspicionThreshold of the current source (coq/generated/Constants.v is rewritten at every run from the values the Go compiler computed; a changed constant breaks the theorem and the real-detector histories supply the failing input).",
    "note": "Trusted: Coq kernel+VM, the hand-written model, the Go harness (harness/fd) and the trace translation; float64 rounding is "
            "not modelled (exact rationals + stated tolerance 1e-9; decisions within 2e-9 of the threshold are not compared); int64 "
            "modelled unbounded.",
    "technique": "Coq proof (invariant of the circular buffer by induction over arbitrary arrival lists, Z/Q arithmetic, no axioms) + translator tie for the suspicion threshold (constants regenerated from the compiled source) + "
                 "model/implementation correspondence by differential replay + independent python monitor recomputing the mean of the "
                 "last min(len,n) intervals from the raw arrival list",
}
ASSUMPTIONS = [
    "int64 nanosecond arithmetic modelled unbounded (Z); C12_no_overflow shows the window sum is <= bootstrap + (last - first arrival), so it cannot overflow while that is < 2^63; time.Time.Sub saturation is outside the generated range (timestamps in [0, 4e18] ns)",
    "float64 rounding of mean and phi is not modelled: the Go result is compared with the exact rational under relative tolerance 1e-9, and the decision level > 20 is not compared when the exact level is within 2e-9 (relative) of 20",
    "sample size >= 1 (production 50); newArrivalIntervals(0) followed by Add indexes an empty slice in the real code",
    "timestamps are taken as inputs (time.Now() is read by Report/SuspicionLevel and passed to the *WithTimestamp/*At variants, which are what is modelled and driven); every time.Unix(0, ns) is After the zero time.Time",
    "accuracy/completeness are about the level as a function of the recorded arrival times; how regularly the gossip loop actually hears from a live peer is an environment assumption",
]
TRUSTED = ["Coq primitive 63-bit integers (Uint63 literals, Uint63.to_Z) used only in Run/Run_FD.v to transport trace numbers; no theorem depends on them",
           "python monitor (props/C12.py: direct recomputation from the raw arrival list with fractions.Fraction) as the independent oracle on the implementation's observed levels"]

THRESH = 20
TOL = Fraction(1, 10 ** 9)
NOW = 1790000000 * 10 ** 9      # a 2026 wall clock reading in unix nanoseconds
MS = 10 ** 6


def H(s):
    return s.encode("latin-1").hex()


PEERS = [H("p"), H("node-2"), H(""), H("n\x00\xff")]


# ------------------------------------------------------------------ generator
def gen_window(rng):
    r = rng.random()
    if r < 0.35:
        return 50                      # the production value, always well represented
    if r < 0.50:
        return rng.choice([1, 2, 3, 59, 60])
    return rng.randint(1, 60)


def gen_length(rng):
    r = rng.random()
    if r < 0.40:
        return rng.randint(1, 20)
    if r < 0.78:
        return rng.randint(21, 150)
    return rng.randint(151, 400)


def gen_interval(rng, profile, base):
    if profile == "steady":
        return max(1, base + rng.randint(-base // 10, base // 10))
    if profile == "irregular":
        return int(10 ** rng.uniform(3, 10))           # 1us .. 10s, log-uniform
    if profile == "bursty":
        return rng.choice([1, 2, rng.randint(1, 1000), base, base * rng.randint(2, 40), rng.randint(1, 10 ** 10)])
    if profile == "drift":
        return max(1, int(base * rng.uniform(0.5, 3.0)))
    raise ValueError(profile)


def window_state(arr, boot, n):
    """the property's own definition: the samples are bootstrap :: differences, the window the last min(len, n)"""
    ivs = [boot] + [arr[i] - arr[i - 1] for i in range(1, len(arr))]
    k = min(len(arr), n)
    return ivs[len(ivs) - k:], k


def gen_queries(rng, arr, boot, n):
    """query times after the arrivals arr: at the arrival, inside the steady range, around the exact
    threshold crossing, far beyond, and (rarely) before the last arrival"""
    last = arr[-1]
    win, k = window_state(arr, boot, n)
    s = sum(win)
    qs = []
    for _ in range(rng.randint(1, 6)):
        r = rng.random()
        if r < 0.12:
            qs.append(last)
        elif r < 0.40 and s > 0:
            qs.append(last + rng.randint(0, max(1, (THRESH * s) // k)))
        elif r < 0.62 and s > 0:
            cross = (THRESH * s) // k       # phi == 20 exactly at last + 20*s/k when divisible
            d = cross // 10 ** 8 + 3        # 1e-8 of the crossing: outside the band where the decision is not compared
            qs.append(last + cross + rng.choice([-2, -1, 0, 1, 2, 3, -d, d, d, -d, -100 * d, 100 * d]))
        elif r < 0.90 and s > 0:
            qs.append(last + rng.randint(0, max(1, 60 * s // k)))
        elif r < 0.97:
            qs.append(last + int(10 ** rng.uniform(0, 12)))
        else:
            qs.append(last - rng.randint(1, 10 ** 6))
    return qs


def gen_single(rng, cid):
    n = gen_window(rng)
    length = gen_length(rng)
    profile = rng.choices(["steady", "irregular", "bursty", "drift"], [30, 35, 20, 15])[0]
    base = rng.choice([100 * MS, 100 * MS, 1000 * MS, 10 * MS, 7, 12345678])
    boot = 2 * base if rng.random() < 0.7 else rng.choice([1, base, 5 * base, 2 * 10 ** 9, 200 * MS])
    t = NOW + rng.randint(0, 10 ** 12) if rng.random() < 0.7 else rng.randint(1, 10 ** 6)
    each = rng.random() < 0.35
    ops, arr = [], []
    for i in range(length):
        if i > 0:
            t += gen_interval(rng, profile, base)
        arr.append(t)
        ops.append([0, 0, t])
        if each and rng.random() < 0.3:
            for q in gen_queries(rng, arr, boot, n)[:2]:
                ops.append([1, 0, q])
    for q in gen_queries(rng, arr, boot, n):
        ops.append([1, 0, q])
    return {"id": cid, "kind": "single/" + profile, "window": n, "bootstrap": boot, "ids": [PEERS[0]], "ops": ops}


def gen_multi(rng, cid):
    """several peers interleaved, removes, level queries on peers never heard from"""
    n = gen_window(rng)
    npeers = rng.randint(2, 4)
    base = rng.choice([100 * MS, 10 * MS, 1000])
    boot = 2 * base
    t = NOW + rng.randint(0, 10 ** 9)
    nops = rng.randint(5, 250)
    ops = []
    arrs = [None] * npeers
    for _ in range(nops):
        t += rng.choice([1, base, base // 2 + 1, rng.randint(1, 5 * base)])
        p = rng.randrange(npeers)
        r = rng.random()
        if r < 0.68:
            ops.append([0, p, t])
            arrs[p] = (arrs[p] or []) + [t]
        elif r < 0.95:
            if arrs[p] is None:
                ops.append([1, p, t])
                arrs[p] = [t]
            else:
                q = rng.choice(gen_queries(rng, arrs[p], boot, n))
                ops.append([1, p, q])
        else:
            ops.append([2, p, t])
            arrs[p] = None
    return {"id": cid, "kind": "multi", "window": n, "bootstrap": boot, "ids": PEERS[:npeers], "ops": ops}


def gen_pair(rng, cid):
    """two histories with the same last n+1 arrivals (different older arrivals, different bootstrap):
    the levels of the common queries must be identical (window_only)"""
    n = rng.choice([1, 2, 5, 50, rng.randint(1, 60)])
    base = rng.choice([100 * MS, 999, 10 * MS])
    t = NOW + rng.randint(0, 10 ** 9)
    common = []
    for _ in range(n + 1):
        t += gen_interval(rng, "irregular", base)
        common.append(t)
    first = common[0]

    def prefix():
        k = rng.randint(1, 120)
        ts, x = [], first
        for _ in range(k):
            x -= gen_interval(rng, "bursty", base)
            ts.append(x)
        return list(reversed(ts))
    qs = gen_queries(rng, common, 2 * base, n) + [common[-1], common[-1] + 1]
    a = {"id": cid + "a", "kind": "pair", "window": n, "bootstrap": 2 * base, "ids": [PEERS[0]], "pair": cid,
         "ops": [[0, 0, x] for x in prefix() + common] + [[1, 0, q] for q in qs]}
    b = {"id": cid + "b", "kind": "pair", "window": n, "bootstrap": rng.choice([1, 5 * base, 10 ** 10]), "ids": [PEERS[0]], "pair": cid,
         "ops": [[0, 0, x] for x in prefix() + common] + [[1, 0, q] for q in qs]}
    return [a, b]


def gen_malformed(rng, cid):
    """what the callers never do but the code accepts: repeated / decreasing timestamps, zero or negative
    bootstrap (the level then panics when the mean is not positive): model and code must still agree"""
    n = rng.choice([1, 2, 3, 50, rng.randint(1, 60)])
    boot = rng.choice([0, -5, 1, 100, -10 ** 9, 200 * MS])
    t = rng.choice([NOW, 10 ** 6, 5])
    ops = []
    for _ in range(rng.randint(1, 80)):
        t += rng.choice([0, 0, -3, 1, 50, -1000, 10 ** 6, -10 ** 6, 7])
        r = rng.random()
        if r < 0.6:
            ops.append([0, 0, t])
        elif r < 0.95:
            ops.append([1, rng.choice([0, 0, 1]), t + rng.choice([0, 1, -1, 10 ** 3, 10 ** 9])])
        else:
            ops.append([2, 0, t])
    return {"id": cid, "kind": "malformed", "window": n, "bootstrap": boot, "ids": PEERS[:2], "ops": ops}


def corpus():
    P = [PEERS[0]]
    cs = []
    # the repo's own unit test sequence: phi(2000) = 14
    cs.append({"id": "corpus-unittest", "kind": "corpus", "window": 5, "bootstrap": 2000, "ids": P,
               "ops": [[0, 0, t] for t in (100, 200, 300, 400, 500, 600)] + [[1, 0, 2000], [1, 0, 600]]})
    # production parameters, exactly 50 / 51 / 100 / 101 / 151 arrivals (around each wrap of the buffer)
    for k in (49, 50, 51, 52, 99, 100, 101, 102, 151, 400):
        ts, t = [], NOW
        for i in range(k):
            t += 100 * MS + (i * 7919) % (13 * MS)
            ts.append(t)
        cs.append({"id": "corpus-prod-%d" % k, "kind": "corpus", "window": 50, "bootstrap": 200 * MS, "ids": P,
                   "ops": [[0, 0, x] for x in ts] + [[1, 0, ts[-1]], [1, 0, ts[-1] + 2000 * MS], [1, 0, ts[-1] + 2200 * MS], [1, 0, ts[-1] + 10 ** 11]]})
    # window of one sample; every arrival evicts
    cs.append({"id": "corpus-n1", "kind": "corpus", "window": 1, "bootstrap": 10, "ids": P,
               "ops": [x for t in (5, 9, 20, 21, 100) for x in ([0, 0, t], [1, 0, t + 3])]})
    # never heard: first query creates the window with the bootstrap sample; later queries grow from there
    cs.append({"id": "corpus-unknown", "kind": "corpus", "window": 50, "bootstrap": 200 * MS, "ids": PEERS[:2],
               "ops": [[1, 1, NOW], [1, 1, NOW + 4000 * MS], [1, 1, NOW + 4000 * MS + 1], [0, 1, NOW + 5000 * MS], [1, 1, NOW + 5000 * MS],
                       [2, 1, 0], [1, 1, NOW + 6000 * MS], [0, 0, NOW], [1, 0, NOW + 1]]})
    # exactly on the threshold: phi = 20 is not suspected, one nanosecond later it is
    cs.append({"id": "corpus-threshold", "kind": "corpus", "window": 3, "bootstrap": 1000, "ids": P,
               "ops": [[0, 0, 1000], [0, 0, 1100], [0, 0, 1200], [0, 0, 1300], [1, 0, 1300 + 2000], [1, 0, 1300 + 2001], [1, 0, 1300 + 1999]]})
    # zero bootstrap: the level of a single-arrival window panics (mean 0), and stops panicking afterwards
    cs.append({"id": "corpus-boot0", "kind": "corpus", "window": 4, "bootstrap": 0, "ids": P,
               "ops": [[0, 0, 100], [1, 0, 150], [0, 0, 200], [1, 0, 250], [1, 1 - 1, 200]]})
    return cs


def gen_cases(rng, n, with_corpus=True, prefix="g"):
    cases = corpus() if with_corpus else []
    i = 0
    while len(cases) < n:
        r = rng.random()
        cid = "%s_%d" % (prefix, i)
        i += 1
        if r < 0.74:
            cases.append(gen_single(rng, cid))
        elif r < 0.86:
            cases.append(gen_multi(rng, cid))
        elif r < 0.95:
            cases.extend(gen_pair(rng, cid))
        else:
            cases.append(gen_malformed(rng, cid))
    return cases


# ------------------------------------------------------------------ harness
def harness_input(cases):
    return {"cases": [{"id": c["id"], "window": c["window"], "bootstrap": c["bootstrap"], "ids": c["ids"], "ops": c["ops"]} for c in cases]}


def run_fd(binary, wd, cases, tag="fd"):
    out, logtxt = run_harness(binary, harness_input(cases), wd, tag=tag, test="TestVerifHarness_FD")
    if out is None:
        raise RuntimeError("harness run failed:\n" + logtxt)
    outs = out["cases"]
    if len(outs) != len(cases):
        raise RuntimeError("harness returned %d cases for %d" % (len(outs), len(cases)))
    for o in outs:
        for k in ("present", "sum", "size", "last", "bits", "oppanic"):
            if o.get(k) is None:
                o[k] = []
    return outs


def f64(bits):
    return struct.unpack("<d", struct.pack("<Q", bits))[0]


# ------------------------------------------------------------------ independent monitor
def monitor(case, out, stats=None):
    """The property's own predicate evaluated on the REAL observations, independent of the Coq model:
    from the raw arrival list of each peer recompute the mean of the last min(len, n) samples of
    bootstrap :: differences and check the window integers and every returned level against it.
    Returns None or {step, why, sig}."""
    if out.get("panic"):
        return {"step": len(out["present"]), "why": "harness panic: " + out["panic"], "sig": "panic"}
    n, boot = case["window"], case["bootstrap"]
    if len(out["present"]) != len(case["ops"]):
        return {"step": len(out["present"]), "why": "harness stopped early", "sig": "panic"}
    arrs = {}
    for i, op in enumerate(case["ops"]):
        kind, p, t = op
        arr = arrs.get(p)
        if kind == 0:
            arr = (arr or []) + [t]
            arrs[p] = arr
        elif kind == 1:
            if arr is None:
                arr = [t]           # the code as written: an unknown peer is "heard" at its first query
                arrs[p] = arr
        else:
            arrs.pop(p, None)
            arr = None
        pres, s_go, k_go, last_go = out["present"][i], out["sum"][i], out["size"][i], out["last"][i]
        pan = out["oppanic"][i]
        if kind != 1 and pan:
            return {"step": i, "why": "call panicked: " + pan, "sig": "panic"}
        if arr is None:
            if pres:
                return {"step": i, "why": "window still present after Remove", "sig": "remove"}
            continue
        if not pres:
            return {"step": i, "why": "no window after Report/SuspicionLevel", "sig": "present"}
        win, k = window_state(arr, boot, n)
        s = sum(win)
        if k_go != k:
            return {"step": i, "why": "window size %d, the last min(len,n) samples are %d" % (k_go, k), "sig": "size"}
        if s_go != s:
            return {"step": i, "why": "window sum %d, the last %d of bootstrap::differences sum to %d" % (s_go, k, s), "sig": "sum"}
        if last_go != arr[-1]:
            return {"step": i, "why": "last timestamp %d, last arrival %d" % (last_go, arr[-1]), "sig": "last"}
        if kind != 1:
            continue
        if s <= 0:
            if not pan:
                return {"step": i, "why": "level returned although the mean is not positive", "sig": "panic-mean"}
            if stats is not None:
                stats["level_panics"] += 1
            continue
        if pan:
            return {"step": i, "why": "level panicked with positive mean: " + pan, "sig": "panic"}
        phi = f64(out["bits"][i])
        if phi != phi or phi in (float("inf"), float("-inf")):
            return {"step": i, "why": "level is not finite", "sig": "phi"}
        silence = t - arr[-1]
        exact = Fraction(silence * k, s)         # silence / (s / k)
        got = Fraction(phi)
        if silence == 0 and phi != 0.0:
            return {"step": i, "why": "level %r at the moment of the arrival, expected 0" % phi, "sig": "zero"}
        if abs(got - exact) > TOL * abs(exact):
            return {"step": i, "why": "level %r but silence/mean of the last %d intervals = %s (%.12g)" % (phi, k, exact, float(exact)), "sig": "phi"}
        if stats is not None:
            stats["levels"] += 1
        near = abs(exact - THRESH) <= 2 * TOL * THRESH
        if near:
            if stats is not None:
                stats["near_threshold_skipped"] += 1
        else:
            if (phi > THRESH) != (exact > THRESH):
                return {"step": i, "why": "decision level>20 is %s, exact level %s" % (phi > THRESH, exact), "sig": "decision"}
            if stats is not None:
                stats["suspected" if exact > THRESH else "not_suspected"] += 1
        # accuracy as stated: every interval in the window >= m, silence <= 20*m  =>  not suspected
        m = min(win)
        if m > 0 and 0 <= silence <= THRESH * m:
            if phi > THRESH * (1 + 1e-9):
                return {"step": i, "why": "steady peer suspected: all window intervals >= %d, silence %d <= 20*m, level %r" % (m, silence, phi), "sig": "accuracy"}
            if stats is not None:
                stats["accuracy_hyp_met"] += 1
        # completeness: beyond last + 20*mean (plus tolerance) the peer must be suspected
        if silence * k > THRESH * s and not near:
            if not phi > THRESH:
                return {"step": i, "why": "silent peer not suspected: silence %d > 20*mean, level %r" % (silence, phi), "sig": "completeness"}
            if stats is not None:
                stats["completeness_hyp_met"] += 1
    return None


def monitor_pairs(cases, outs, stats=None):
    """window_only: the two histories of a pair share their last n+1 arrivals; the trailing queries must
    return identical levels. Returns list of (case index, failure)."""
    by = {}
    fails = []
    for idx, c in enumerate(cases):
        if c.get("pair"):
            by.setdefault(c["pair"], []).append(idx)
    for key, idxs in by.items():
        if len(idxs) != 2:
            continue
        a, b = idxs
        qa = [(op, bits, pan) for op, bits, pan in zip(cases[a]["ops"], outs[a]["bits"], outs[a]["oppanic"]) if op[0] == 1]
        qb = [(op, bits, pan) for op, bits, pan in zip(cases[b]["ops"], outs[b]["bits"], outs[b]["oppanic"]) if op[0] == 1]
        if len(qa) != len(qb):
            continue
        for j, (x, y) in enumerate(zip(qa, qb)):
            if x[0][2] != y[0][2]:
                break
            if x[1] != y[1] or bool(x[2]) != bool(y[2]):
                fails.append((b, {"step": len(cases[b]["ops"]) - len(qb) + j, "sig": "window-only",
                                  "why": "two histories with the same last n+1 arrivals give levels %r and %r at the same time"
                                         % (f64(x[1]), f64(y[1])), "other": cases[a]}))
                break
            if stats is not None:
                stats["pair_queries_equal"] += 1
    return fails


# ------------------------------------------------------------------ trace -> Coq
BIAS = 2 ** 61


def enc(v):
    """transport encoding of an integer as a primitive 63-bit literal (decoded by Run_FD.dz)"""
    x = v + BIAS
    if not 0 <= x < 2 ** 63:
        raise ValueError("value %d outside the transport range" % v)
    return str(x)


def float_parts(x):
    """x == m * 2**e exactly, m odd (or 0)"""
    import math
    if x == 0.0:
        return 0, 0
    fr, ex = math.frexp(x)
    m, e = int(fr * 2 ** 53), ex - 53
    while m % 2 == 0:
        m //= 2
        e += 1
    assert Fraction(x) == Fraction(m) * Fraction(2) ** e
    return m, e


def case_to_coq(case, out):
    ts = [op[2] for op in case["ops"] if op[0] != 2]
    base = min(ts) if ts else 0
    steps = []
    for i, op in enumerate(case["ops"]):
        kind, p, t = op
        if kind == 1:
            if out["oppanic"][i]:
                lv = "Lp"
            else:
                m, e = float_parts(f64(out["bits"][i]))
                lv = "(Lv %s %s)" % (enc(m), enc(e))
        else:
            lv = "Lx"
        pres = out["present"][i]
        if kind == 0 and pres and out["last"][i] == t and 0 <= p < 4 and 0 <= out["size"][i] < 2 ** 40:
            # short form, see Run_FD.fstep: a Report after which lastTimestamp is the call's timestamp
            steps.append("Sr %d %s %s" % (p + 4 * out["size"][i], enc(t - base), enc(out["sum"][i])))
            continue
        steps.append("St %s %s %s %s %s %s %s %s" % (
            enc(kind), enc(p), enc(t - base if kind != 2 else 0), coq_bool(bool(pres)), enc(out["sum"][i]), enc(out["size"][i]),
            enc(out["last"][i] - base if pres else 0), lv))
    return "{| fc_n := %s; fc_boot := %s; fc_base := %s; fc_ids := %s; fc_steps := %s |}" % (
        enc(case["window"]), enc(case["bootstrap"]), enc(base), coq_list([coq_str(x) for x in case["ids"]]), coq_list(steps))


def cases_file(cases, outs):
    body = ["From Coq Require Import List String ZArith Bool Uint63.",
            "From Piko Require Import Base.Maps Base.Strs FD.FD Run.Run_FD.",
            "Import ListNotations. Open Scope string_scope. Open Scope list_scope. Open Scope uint63_scope.",
            "Section Cases.",     # `cases` is section-local: it is type-checked but not written to the .vo
            "Let cases : list fcase := ["]
    body.append(";\n".join(case_to_coq(c, o) for c, o in zip(cases, outs)))
    body.append("].")
    body.append("Definition M := Eval vm_compute in mismatches cases.")
    body.append("Print M.")
    body.append("End Cases.")
    return "\n".join(body) + "\n"


CODE_NAMES = {1: "present", 2: "window-sum", 3: "window-size", 4: "last-timestamp", 5: "panic-vs-value", 6: "level-out-of-tolerance",
              7: "threshold-decision", 8: "malformed-trace"}


def parse_mismatches(out):
    m = re.search(r"M\s*=\s*(.*?)\s*:\s*list", out, flags=re.S)
    if not m:
        return None
    txt = m.group(1).strip()
    if txt == "[]":
        return []
    res = []
    for mm in re.finditer(r"\(\s*(\d+)\s*,\s*(\d+)\s*,\s*\[([^\]]*)\]\s*\)", txt.replace("%nat", "")):
        res.append((int(mm.group(1)), int(mm.group(2)), [int(x) for x in re.findall(r"\d+", mm.group(3))]))
    return res


def correspondence(wd, cases, outs, tag="c", max_steps=None):
    """evaluate the model on the observed histories inside Coq (vm_compute). Returns disagreements
    [{case, step, codes, names}]"""
    import concurrent.futures as cf
    workers = min(12, max(1, (os.cpu_count() or 4) - 2))
    if max_steps is None:
        # one round of `workers` shards when possible: coqc start-up (~1-3 s) is paid once per shard
        total = sum(len(c["ops"]) + 5 for c in cases)
        max_steps = min(20000, max(4000, total // workers + 1))
    jobs, cur, cur_steps = [], [], 0
    for i, c in enumerate(cases):
        cur.append(i)
        cur_steps += len(c["ops"]) + 5
        if cur_steps >= max_steps:
            jobs.append(cur)
            cur, cur_steps = [], 0
    if cur:
        jobs.append(cur)

    def work(job):
        rc, out = coq_eval(wd, "Cases_%s_%s_%d" % (ID, tag, job[0]), cases_file([cases[i] for i in job], [outs[i] for i in job]))
        mm = parse_mismatches(out)
        if rc != 0 or mm is None:
            raise RuntimeError("coq evaluation of cases failed:\n" + out[-3000:])
        return [(job[c], s, codes) for (c, s, codes) in mm]

    dis = []
    with cf.ThreadPoolExecutor(max_workers=workers) as ex:
        for r in ex.map(work, jobs):
            for (c, s, codes) in r:
                dis.append({"case": c, "step": s, "codes": codes, "names": [CODE_NAMES.get(x, str(x)) for x in codes]})
    return dis


# ------------------------------------------------------------------ shrinking
def shrink_ops(case, fails, max_rounds=300):
    """delta debugging over the call list; [fails(case)] re-runs the compiled harness"""
    ops = list(case["ops"])
    n = 2
    rounds = 0
    while len(ops) >= 2 and rounds < max_rounds:
        chunk = max(1, len(ops) // n)
        reduced = False
        for i in range(0, len(ops), chunk):
            cand = ops[:i] + ops[i + chunk:]
            rounds += 1
            if cand and fails(dict(case, ops=cand)):
                ops = cand
                n = max(n - 1, 2)
                reduced = True
                break
        if not reduced:
            if chunk == 1:
                break
            n = min(n * 2, len(ops))
    return dict(case, ops=ops)


def strip(case):
    return {k: v for k, v in case.items() if k not in ("pair",)}


# ------------------------------------------------------------------ distribution
def bucket(x, edges):
    for e in edges:
        if x <= e:
            return "<=%d" % e
    return ">%d" % edges[-1]


def distribution(cases):
    d = {"kinds": {}, "arrivals_per_history": {}, "window_size": {}, "window_50": 0, "wraparounds": {}, "calls": {"report": 0, "level": 0, "remove": 0},
         "level_on_unknown_peer": 0, "multi_peer_histories": 0, "interval_ns_log10": {}}
    for c in cases:
        d["kinds"][c["kind"]] = d["kinds"].get(c["kind"], 0) + 1
        n = c["window"]
        d["window_size"][bucket(n, [1, 5, 20, 49, 50, 60])] = d["window_size"].get(bucket(n, [1, 5, 20, 49, 50, 60]), 0) + 1
        if n == 50:
            d["window_50"] += 1
        if len(c["ids"]) > 1:
            d["multi_peer_histories"] += 1
        known, cnt, maxcnt, lastt = set(), {}, 0, {}
        for kind, p, t in c["ops"]:
            d["calls"][("report", "level", "remove")[kind]] += 1
            if kind == 0:
                cnt[p] = cnt.get(p, 0) + 1
                if p in lastt and t > lastt[p]:
                    b = "1e%d" % (len(str(t - lastt[p])) - 1)
                    d["interval_ns_log10"][b] = d["interval_ns_log10"].get(b, 0) + 1
                lastt[p] = t
                known.add(p)
            elif kind == 1:
                if p not in known:
                    d["level_on_unknown_peer"] += 1
                    known.add(p)
                    cnt[p] = cnt.get(p, 0) + 1
                    lastt[p] = t
            else:
                known.discard(p)
                cnt[p] = 0
                lastt.pop(p, None)
            maxcnt = max(maxcnt, cnt.get(p, 0))
        d["arrivals_per_history"][bucket(maxcnt, [1, 5, 20, 50, 100, 200, 400])] = d["arrivals_per_history"].get(bucket(maxcnt, [1, 5, 20, 50, 100, 200, 400]), 0) + 1
        wraps = max(0, (maxcnt - 1) // n)       # how many times the buffer index wrapped
        wb = "0" if wraps == 0 else "1" if wraps == 1 else "2-3" if wraps <= 3 else "4-9" if wraps <= 9 else ">=10"
        d["wraparounds"][wb] = d["wraparounds"].get(wb, 0) + 1
    return d


def nontrivial(c):
    """a history is non-trivial when some peer's arrivals exceed the window size (the buffer wrapped and
    evicted at least once) and at least one level was queried"""
    cnt, wrapped, level = {}, False, False
    for kind, p, t in c["ops"]:
        if kind == 0:
            cnt[p] = cnt.get(p, 0) + 1
            wrapped = wrapped or cnt[p] > c["window"]
        elif kind == 1:
            level = True
        else:
            cnt[p] = 0
    return wrapped and level


# ------------------------------------------------------------------ run / replay
def evaluate(binary, wd, cases, tag, stats=None):
    outs = run_fd(binary, wd, cases, tag=tag)
    mon = []
    for idx, (c, o) in enumerate(zip(cases, outs)):
        f = monitor(c, o, stats)
        if f:
            mon.append((idx, f))
    mon += monitor_pairs(cases, outs, stats)
    return outs, mon


def merge_counts(dst, src):
    for k, v in src.items():
        if isinstance(v, dict):
            merge_counts(dst.setdefault(k, {}), v)
        else:
            dst[k] = dst.get(k, 0) + v


def run(ctx):
    import hashlib
    rng = random.Random(ctx["seed"])
    wd = ctx["wd"]
    batches = 1 if ctx["tier"] == "quick" else 10
    per_batch = 2000
    t0 = time.time()
    binary = build_harness("pkg/gossip", dirs=["fd", "gossip"])
    stats = {"levels": 0, "level_panics": 0, "suspected": 0, "not_suspected": 0, "near_threshold_skipped": 0,
             "accuracy_hyp_met": 0, "completeness_hyp_met": 0, "pair_queries_equal": 0}
    dist, nontriv_set = {}, set()
    n_hist = n_calls = n_corr = 0
    mon_fail, dis = [], []           # [(case, failure)], [(case, out, disagreement)]
    samples = []
    tg = th = tc = 0.0
    for bi in range(batches):
        t1 = time.time()
        cases = gen_cases(rng, per_batch, with_corpus=(bi == 0), prefix="b%d" % bi)
        t2 = time.time()
        outs, mf = evaluate(binary, wd, cases, "fd", stats)
        t3 = time.time()
        mon_fail += [(cases[idx], f) for idx, f in mf]
        ok_idx = [i for i, o in enumerate(outs) if not o.get("panic") and len(o["present"]) == len(cases[i]["ops"])]
        d = correspondence(wd, [cases[i] for i in ok_idx], [outs[i] for i in ok_idx], tag="c%d" % bi)
        dis += [(cases[ok_idx[x["case"]]], outs[ok_idx[x["case"]]], x) for x in d]
        t4 = time.time()
        tg, th, tc = tg + t2 - t1, th + t3 - t2, tc + t4 - t3
        n_hist += len(cases)
        n_corr += len(ok_idx)
        n_calls += sum(len(c["ops"]) for c in cases)
        merge_counts(dist, distribution(cases))
        for c in cases:
            if nontrivial(c):
                nontriv_set.add(hashlib.sha1(json.dumps([c["window"], c["bootstrap"], c["ops"]]).encode()).digest())
        if bi == 0:
            sample_b = next((c for c in cases if c["kind"].startswith("single") and 5 <= len(c["ops"]) <= 14), cases[-1])
            samples = [{"window": cases[0]["window"], "bootstrap": cases[0]["bootstrap"], "ops": cases[0]["ops"]},
                       {"window": sample_b["window"], "bootstrap": sample_b["bootstrap"], "kind": sample_b["kind"], "ops": sample_b["ops"][:14]}]
        if mon_fail or dis:
            break                    # something is wrong: report it rather than exploring further
    log("[C12] %d histories, %d calls: build %.1fs, generate %.1fs, harness+monitor %.1fs, coq correspondence %.1fs"
        % (n_hist, n_calls, t1 - t0 if batches == 1 else 0.0, tg, th, tc))
    violations, known = [], []
    kf = [k for k in known_findings() if k["kind"] == "known" and k["property"] == ID]
    # the detector in its place: the real accrualFailureDetector wired into the real cluster state behind a virtual clock -
    # a silent peer becomes and STAYS unreachable until it is heard from, a steady one never does (monitor only here;
    # the same histories go through the world model in C11)
    from props import gossip_common as gc
    fv, fcov = gc.fd_probe(ID, binary, wd, rng, ctx["tier"] == "quick", corr=False)
    violations += fv

    # ---- monitor failures: shrink, report with the failing input
    seen = set()
    for c, f in sorted(mon_fail, key=lambda x: (x[0]["kind"] == "malformed", len(x[0]["ops"]))):
        if f["sig"] in seen:
            continue
        seen.add(f["sig"])
        if f["sig"] == "window-only":
            other = f["other"]
            small = c
            oo = run_fd(binary, wd, [strip(other), strip(c)], tag="shrink")
            robj = {"property": ID, "kind": "monitor", "signature": f["sig"], "why": f["why"], "case": strip(c), "other": strip(other),
                    "observed": oo[1], "observed_other": oo[0]}
        else:
            def fails(cand, sig=f["sig"]):
                oo = run_fd(binary, wd, [strip(cand)], tag="shrink")[0]
                ff = monitor(cand, oo)
                return ff is not None and ff["sig"] == sig
            small = shrink_ops(strip(c), fails)
            oo = run_fd(binary, wd, [small], tag="shrink")[0]
            ff = monitor(small, oo) or f
            robj = {"property": ID, "kind": "monitor", "signature": f["sig"], "why": ff["why"], "step": ff["step"], "case": small, "observed": oo}
        match = [k for k in kf if k["sig"] == f["sig"]]
        if match:
            known.append("sig=%s %s" % (f["sig"], match[0]["text"]))
            continue
        violations.append({"what": "C12 monitor: %s (window %d, history of %d calls)" % (robj["why"], small["window"], len(small["ops"])),
                           "found_input": True, "replay_obj": robj})

    # ---- model/implementation disagreement without a monitor failure: search harder, then report
    if dis and not mon_fail:
        c, o, d = dis[0]
        found = None
        for k in range(6):
            rng2 = random.Random(ctx["seed"] * 1000003 + k)
            more = []
            for j in range(400):
                cc = gen_single(rng2, "s%d_%d" % (k, j))
                cc["window"] = c["window"]
                more.append(cc)
            _, mf = evaluate(binary, wd, more, "search")
            if mf:
                found = (more[mf[0][0]], mf[0][1])
                break
        if found:
            fc, ff = found

            def fails2(cand, sig=ff["sig"]):
                oo = run_fd(binary, wd, [strip(cand)], tag="shrink")[0]
                g = monitor(cand, oo)
                return g is not None and g["sig"] == sig
            small = shrink_ops(strip(fc), fails2)
            oo = run_fd(binary, wd, [small], tag="shrink")[0]
            violations.append({"what": "C12 monitor (after model/implementation disagreement %s): %s" % (",".join(d["names"]), ff["why"]),
                               "found_input": True,
                               "replay_obj": {"property": ID, "kind": "monitor", "signature": ff["sig"], "why": ff["why"], "case": small, "observed": oo}})
        else:
            violations.append({"what": "model/implementation disagreement (%s) at call %d of history %s; the python monitor found no failing input"
                                       % (",".join(d["names"]), d["step"], c["id"]), "found_input": False,
                               "replay_obj": {"broken": "corr:C12:fd:" + d["names"][0], "disagreement": d, "case": strip(c), "observed": o}})

    dist["observed"] = stats
    cov = {"evaluations": n_hist, "distinct_nontrivial": len(nontriv_set),
           "rule": "corpus of hand-picked histories first (unit-test sequence, production window 50 around every wrap, window 1, never-heard peer, exact threshold, zero bootstrap), "
                   "then random call scripts on one real accrualFailureDetector: single-peer arrival sequences of length 1..400 with steady / log-uniform irregular / bursty / drifting intervals, "
                   "window sizes 1..60 with 50 in >= 35%, level queries at the arrival, inside the steady range, at the exact threshold crossing +-2ns and far beyond; multi-peer scripts with Remove and "
                   "queries on never-heard peers; pairs of histories sharing the last n+1 arrivals; a malformed stream (repeated/decreasing timestamps, bootstrap <= 0). "
                   "non-trivial = some peer's arrivals exceed the window size (the buffer wrapped and evicted) and a level was queried; distinct by (window, bootstrap, call list)",
           "samples": samples,
           "correspondence": {"harness": "harness/fd TestVerifHarness_FD (real accrualFailureDetector: ReportWithTimestamp / SuspicionLevelAt / Remove), compared inside Coq by Run/Run_FD.v mismatches (vm_compute)",
                              "histories": n_corr, "ops": n_calls, "distribution": dist, "disagreements": len(dis), "seed": ctx["seed"],
                              "compared": "after every call: present, sum, size, lastTimestamp exactly; every level: float64 (exact mantissa*2^exp) vs model rational, relative tolerance 1e-9; decision level>20 unless exact level within 2e-9 of 20; panic vs value"},
           "real_detector_in_cluster_state": fcov,
           "monitor": {"histories": n_hist, "failures": len(mon_fail),
                       "predicate": "mean of the last min(len,n) samples of bootstrap::differences recomputed from the raw arrival list (fractions); level == silence/mean within 1e-9; 0 at an arrival; accuracy and completeness at threshold 20; equal levels for histories sharing the last n+1 arrivals"}}
    # translator half of the tie: the constants of the current source, regenerated; the theorems on them re-checked
    ccov, cviol = consts_common.regen(ctx, ID, binary)
    cov["source_constants"] = ccov
    if cviol and not any(v.get("found_input") for v in violations):
        violations.append(cviol)
    return {"coverage": cov, "violations": violations, "known": known}


def replay(path, wd):
    obj = json.load(open(path))
    case = obj["case"]
    binary = build_harness("pkg/gossip", dirs=["fd", "gossip"])
    from props import gossip_common as gc
    if gc.replay_glue(obj, binary, wd):
        return 0
    cases = [case] + ([obj["other"]] if obj.get("other") else [])
    if obj.get("other"):
        case["pair"] = "replay"
        obj["other"]["pair"] = "replay"
        cases = [obj["other"], case]
    outs = run_fd(binary, wd, [strip(c) for c in cases], tag="replay")
    for c, o in zip(cases, outs):
        levels = [None if (op[0] != 1 or pan) else f64(b) for op, b, pan in zip(c["ops"], o["bits"], o["oppanic"])]
        print(json.dumps({"history": c["id"], "window": c["window"], "bootstrap": c["bootstrap"], "calls": c["ops"],
                          "implementation": {"present": o["present"], "sum": o["sum"], "size": o["size"], "last": o["last"], "levels": levels,
                                             "panics": o["oppanic"], "panic": o.get("panic", "")},
                          "monitor": monitor(c, o)}, indent=1))
    pf = monitor_pairs(cases, outs)
    if pf:
        print("pair monitor:", json.dumps({"why": pf[0][1]["why"], "step": pf[0][1]["step"]}))
    okc = [(c, o) for c, o in zip(cases, outs) if not o.get("panic") and len(o["present"]) == len(c["ops"])]
    dis = correspondence(wd, [c for c, _ in okc], [o for _, o in okc], tag="replay")
    print("model disagreements:", dis)
    return 0
