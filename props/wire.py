"""Independent python implementation of the gossip wire format (msgpack as emitted by ugorji's
MsgpackHandle with default options = legacy spec: fixraw/raw16/raw32 strings, no str8/bin),
used by monitors and by the hostile-input generators. Strings are python bytes."""
import struct


def enc_uint(n):
    if n <= 127: return bytes([n])
    if n <= 0xff: return bytes([0xcc, n])
    if n <= 0xffff: return b"\xcd" + struct.pack(">H", n)
    if n <= 0xffffffff: return b"\xce" + struct.pack(">I", n)
    return b"\xcf" + struct.pack(">Q", n)


def enc_int(n):
    if 0 <= n <= 127: return bytes([n])
    if n > 127:
        if n <= 32767: return b"\xd1" + struct.pack(">h", n)
        if n <= 2147483647: return b"\xd2" + struct.pack(">i", n)
        return b"\xd3" + struct.pack(">q", n)
    if n >= -32: return struct.pack("b", n)
    if n >= -128: return b"\xd0" + struct.pack("b", n)
    if n >= -32768: return b"\xd1" + struct.pack(">h", n)
    if n >= -2147483648: return b"\xd2" + struct.pack(">i", n)
    return b"\xd3" + struct.pack(">q", n)


def enc_bool(b):
    return b"\xc3" if b else b"\xc2"


def enc_str(s):
    l = len(s)
    if l < 32: return bytes([0xa0 + l]) + s
    if l < 65536: return b"\xda" + struct.pack(">H", l) + s
    return b"\xdb" + struct.pack(">I", l) + s


def enc_map(pairs):
    out = bytes([0x80 + len(pairs)])
    for k, v in pairs:
        out += enc_str(k) + v
    return out


def enc_entry(e):
    return enc_map([(b"key", enc_str(e["k"])), (b"value", enc_str(e["v"])), (b"version", enc_uint(e["ver"])),
                    (b"internal", enc_bool(e["int"])), (b"deleted", enc_bool(e["del"]))])


def enc_dig_entry(d):
    return enc_map([(b"id", enc_str(d["id"])), (b"addr", enc_str(d["addr"])), (b"version", enc_uint(d["ver"])),
                    (b"left", enc_bool(d["left"]))])


def enc_digest_header(nid, addr, req):
    return enc_map([(b"node_id", enc_str(nid)), (b"addr", enc_str(addr)), (b"request", enc_bool(req))])


def enc_delta_header(nid, addr, n):
    return enc_map([(b"node_id", enc_str(nid)), (b"addr", enc_str(addr)), (b"entries", enc_int(n))])


def digest_packet(nid, addr, req, entries):
    return b"\x01\x00" + enc_digest_header(nid, addr, req) + b"".join(enc_dig_entry(d) for d in entries)


def delta_packet(nid, addr, parts):
    """parts: list of (id, addr, advertised_count, entries)"""
    out = b"\x02\x00" + enc_delta_header(nid, addr, 0)
    for (pid, paddr, cnt, ents) in parts:
        out += enc_delta_header(pid, paddr, cnt) + b"".join(enc_entry(e) for e in ents)
    return out


class DecodeError(Exception):
    pass


def _dec(b, i):
    """decode one value at b[i:], returns (value, next index). maps -> dict with bytes keys"""
    if i >= len(b): raise DecodeError("eof")
    t = b[i]
    if t <= 0x7f: return t, i + 1
    if 0x80 <= t <= 0x8f:
        n = t - 0x80; i += 1; d = {}
        for _ in range(n):
            k, i = _dec(b, i)
            v, i = _dec(b, i)
            d[k] = v
        return d, i
    if 0xa0 <= t <= 0xbf:
        n = t - 0xa0
        if i + 1 + n > len(b): raise DecodeError("eof")
        return b[i + 1:i + 1 + n], i + 1 + n
    if t == 0xc2: return False, i + 1
    if t == 0xc3: return True, i + 1
    if t == 0xc0: return None, i + 1
    fixed = {0xcc: (">B", 1), 0xcd: (">H", 2), 0xce: (">I", 4), 0xcf: (">Q", 8),
             0xd0: (">b", 1), 0xd1: (">h", 2), 0xd2: (">i", 4), 0xd3: (">q", 8)}
    if t in fixed:
        f, n = fixed[t]
        if i + 1 + n > len(b): raise DecodeError("eof")
        return struct.unpack(f, b[i + 1:i + 1 + n])[0], i + 1 + n
    if t in (0xda, 0xdb):
        n = 2 if t == 0xda else 4
        if i + 1 + n > len(b): raise DecodeError("eof")
        l = struct.unpack(">H" if n == 2 else ">I", b[i + 1:i + 1 + n])[0]
        if i + 1 + n + l > len(b): raise DecodeError("eof")
        return b[i + 1 + n:i + 1 + n + l], i + 1 + n + l
    if t >= 0xe0: return t - 256, i + 1
    raise DecodeError("unsupported type byte %#x" % t)


def decode_packet(b):
    """decodes a canonical (honest) gossip packet: returns ("digest", header, [entries]) or
    ("delta", header, [(hdr, [entries])])"""
    if len(b) < 2 or b[1] != 0: raise DecodeError("bad prefix")
    kind = b[0]
    hdr, i = _dec(b, 2)
    if kind == 1:
        ents = []
        while i < len(b):
            e, i = _dec(b, i)
            ents.append(e)
        return "digest", hdr, ents
    if kind == 2:
        parts = []
        while i < len(b):
            h, i = _dec(b, i)
            es = []
            for _ in range(h[b"entries"]):
                if i >= len(b): break
                e, i = _dec(b, i)
                es.append(e)
            parts.append((h, es))
        return "delta", hdr, parts
    raise DecodeError("unknown kind")
