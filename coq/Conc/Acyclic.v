(* C20 - a checker for acyclicity of the extracted lock graph (definitions only, proofs in ConcP/AcyclicP.v).
   Iterated removal of sources: in every round all edges leaving a node without incoming edge are deleted;
   the graph is accepted when no edge is left.  A self edge (m,m) - re-acquiring a non-reentrant mutex that is
   already held, a self deadlock in Go - is never deleted, so it is rejected like any other cycle. *)
From Coq Require Import List String Bool Arith.
From Piko Require Import Conc.LockOrder.
Import ListNotations.

Definition has_incoming (es : list edge) (x : string) : bool :=
  existsb (fun e => String.eqb (snd e) x) es.

Definition peel (es : list edge) : list edge :=
  filter (fun e => has_incoming es (fst e)) es.

Fixpoint acyclic_fuel (fuel : nat) (es : list edge) : bool :=
  match es with
  | [] => true
  | _ :: _ => match fuel with
              | 0 => false
              | S f => acyclic_fuel f (peel es)
              end
  end.

(* every successful round deletes at least one edge, so length es rounds are enough *)
Definition acyclic (es : list edge) : bool := acyclic_fuel (S (List.length es)) es.

(* the ranking read off the run of the checker: the round in which a node became a source *)
Fixpoint rank_fuel (fuel : nat) (es : list edge) (x : string) : nat :=
  match fuel with
  | 0 => 0
  | S f => if has_incoming es x then S (rank_fuel f (peel es) x) else 0
  end.

Definition rank_of (es : list edge) : string -> nat := rank_fuel (S (List.length es)) es.

(* non-empty paths of the graph *)
Inductive path (es : list edge) : string -> string -> Prop :=
| path_edge : forall a b, In (a, b) es -> path es a b
| path_cons : forall a b c, In (a, b) es -> path es b c -> path es a c.
