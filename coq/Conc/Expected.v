(* C20 - the lock hierarchy the piko server is expected to follow (written by hand after reading the code):

     LoadBalancedManager.mu  <  gossip clusterState.mu  <  syncer.mu  <  cluster State.mu
   and the leaf mutexes accrualFailureDetector.mu (only taken under clusterState.mu, holds nothing else) and
   Server.sessionsMu (never nested with anything).

   manager.AddConn/RemoveConn (manager.mu) -> State.AddLocalEndpoint (State.mu, released before the subscribers
   run) -> syncer.onLocalEndpointUpdate -> State.LocalEndpointListeners (State.mu) -> Gossip.UpsertLocal
   (clusterState.mu);   manager.Select (manager.mu) -> State.LookupEndpoint (State.mu read lock);
   clusterState.ApplyDigest/ApplyDelta/UpdateLiveness/RemoveExpiredAt (clusterState.mu) -> watcher = syncer.On*
   -> State.Node/UpdateRemoteStatus/RemoveNode/UpdateRemoteEndpoint (State.mu) then syncer.mu -> State.AddNode;
   clusterState.UpdateLiveness/RemoveExpiredAt -> failureDetector (fd.mu). *)
From Coq Require Import List String Bool Arith.
From Piko Require Import Conc.LockOrder.
Import ListNotations.
Open Scope string_scope.

Definition mu_manager  : mutex := "server/upstream.LoadBalancedManager.mu".
Definition mu_gossip   : mutex := "pkg/gossip.clusterState.mu".
Definition mu_syncer   : mutex := "server/gossip.syncer.mu".
Definition mu_cluster  : mutex := "server/cluster.State.mu".
Definition mu_fd       : mutex := "pkg/gossip.accrualFailureDetector.mu".
Definition mu_sessions : mutex := "server/upstream.Server.sessionsMu".

Definition expected_rank (m : mutex) : option nat :=
  if String.eqb m mu_manager then Some 0
  else if String.eqb m mu_gossip then Some 1
  else if String.eqb m mu_syncer then Some 2
  else if String.eqb m mu_cluster then Some 3
  else if String.eqb m mu_fd then Some 4
  else if String.eqb m mu_sessions then Some 5
  else None.

(* an edge between two mutexes of the hierarchy must go strictly upwards (so the two leaves, ranked on top,
   may be taken under anything but may not hold any of the four others) *)
Definition edge_expected (e : edge) : bool :=
  match expected_rank (fst e), expected_rank (snd e) with
  | Some a, Some b => Nat.ltb a b
  | _, _ => true     (* mutexes added later are only subject to the acyclicity check *)
  end.

Definition within_expected (es : list edge) : bool := forallb edge_expected es.

(* the edges of the hierarchy that the pinned tree really has *)
Definition expected_edges : list edge :=
  [ (mu_manager, mu_cluster); (mu_manager, mu_gossip);
    (mu_gossip, mu_cluster); (mu_gossip, mu_syncer); (mu_gossip, mu_fd);
    (mu_syncer, mu_cluster) ].

(* scripts of the real operations (lock operations only), used as the example of a non-trivial state *)
(* LoadBalancedManager.AddConn, manager.go:115-132 with state.go:128-150, syncer.go:410-418, state.go:230 *)
Definition script_add_conn : list instr :=
  [ Acq mu_manager; Acq mu_cluster; Rel mu_cluster; Acq mu_cluster; Rel mu_cluster;
    Acq mu_gossip; Rel mu_gossip; Rel mu_manager ].
(* LoadBalancedManager.Select with forwarding, manager.go:92-113, state.go:106 *)
Definition script_select : list instr :=
  [ Acq mu_manager; Acq mu_cluster; Rel mu_cluster; Rel mu_manager ].
(* clusterState.ApplyDelta -> syncer.OnUpsertKey adding a pending node, state.go:475, syncer.go:253-340 *)
Definition script_apply_delta : list instr :=
  [ Acq mu_gossip; Acq mu_cluster; Rel mu_cluster; Acq mu_syncer; Acq mu_cluster; Rel mu_cluster;
    Rel mu_syncer; Rel mu_gossip ].
(* clusterState.UpdateLiveness marking a node unreachable, state.go:604-630, syncer.go:184-222 *)
Definition script_liveness : list instr :=
  [ Acq mu_gossip; Acq mu_fd; Rel mu_fd; Acq mu_cluster; Rel mu_cluster; Acq mu_syncer; Rel mu_syncer;
    Rel mu_gossip ].
(* status read cluster.State.Nodes, state.go:81 ; Server.addSession server.go:265 *)
Definition script_status : list instr := [ Acq mu_cluster; Rel mu_cluster ].
Definition script_session : list instr := [ Acq mu_sessions; Rel mu_sessions ].

Definition example_state : state :=
  map (mkThread [])
      [ script_add_conn; script_add_conn; script_select; script_apply_delta; script_liveness;
        script_status; script_session; script_apply_delta ].

(* the mutation "AddLocalEndpoint calls its subscribers while still holding State.mu": the subscriber
   re-acquires State.mu in LocalEndpointListeners *)
Definition script_add_conn_broken : list instr :=
  [ Acq mu_manager; Acq mu_cluster; Acq mu_cluster; Rel mu_cluster; Acq mu_gossip; Rel mu_gossip;
    Rel mu_cluster; Rel mu_manager ].

(* ---- what the atomicity argument (Conc/Atomic.v) needs of the code: AddConn and RemoveConn tell the cluster state AND
   publish to gossip while they still hold the manager's mutex. The extractor lists, per function, which mutex is acquired
   (by the function or by anything it calls) while which mutex is held: generated/LockEdges.v lock_holders. *)
Definition holder := (string * string * string)%type.
Definition fn_add_conn : string := "(^server/upstream.LoadBalancedManager).AddConn".
Definition fn_remove_conn : string := "(^server/upstream.LoadBalancedManager).RemoveConn".
Definition required_holders : list holder :=
  [ (fn_add_conn, mu_manager, mu_cluster); (fn_add_conn, mu_manager, mu_gossip);
    (fn_remove_conn, mu_manager, mu_cluster); (fn_remove_conn, mu_manager, mu_gossip) ].
Definition holder_eqb (a b : holder) : bool :=
  let '(f1, h1, t1) := a in let '(f2, h2, t2) := b in String.eqb f1 f2 && String.eqb h1 h2 && String.eqb t1 t2.
Definition holders_present (hs : list holder) : bool :=
  forallb (fun r => existsb (holder_eqb r) hs) required_holders.
