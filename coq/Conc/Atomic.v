(* Why whole AddConn / RemoveConn calls may be treated as single steps (Conc/Quiescent.v): a micro-step machine in
   which several goroutines run calls made of individual updates - registry, routing table, "read the count",
   "publish the count read" - between Lock and Unlock of ONE mutex (LoadBalancedManager.mu; the lock graph extracted
   from the source shows the cluster and gossip updates nested inside it). Models only; proofs in ConcP/AtomicP.v.

   The last two micro-steps are separate on purpose: cluster.State calls its subscribers after releasing its own
   lock, and the syncer's subscriber first reads LocalEndpointListeners(e) and then writes the gossip entry. Only the
   manager's mutex keeps a second call from slipping in between (seeded changes C05-1, C16-2, C20-1 release it early). *)
From Coq Require Import List String Bool Arith.
From Piko Require Import Conc.Quiescent.
Import ListNotations.

Inductive mi : Type :=
| Acq | Rel
| RegInc (e : string) | RegDec (e : string)
| RtInc (e : string) | RtDec (e : string)
| Read (e : string)            (* loc := rt e            (LocalEndpointListeners) *)
| Publish (e : string).        (* pub e := loc           (UpsertLocal / DeleteLocal) *)

Record thread : Type := mkT { code : list mi; loc : nat }.
Record gstate : Type := mkG { st : reg_state; held : bool; threads : list thread }.

(* a data micro-step of a thread with local variable l *)
Definition data_step (i : mi) (l : nat) (s : reg_state) : nat * reg_state :=
  match i with
  | RegInc e => (l, mkReg (upd (reg s) e (S (reg s e))) (rt s) (pub s))
  | RegDec e => (l, mkReg (upd (reg s) e (pred (reg s e))) (rt s) (pub s))
  | RtInc e => (l, mkReg (reg s) (upd (rt s) e (S (rt s e))) (pub s))
  | RtDec e => (l, mkReg (reg s) (upd (rt s) e (pred (rt s e))) (pub s))
  | Read e => (rt s e, s)
  | Publish e => (l, mkReg (reg s) (rt s) (upd (pub s) e l))
  | Acq | Rel => (l, s)
  end.

Fixpoint run_body (b : list mi) (l : nat) (s : reg_state) : nat * reg_state :=
  match b with
  | [] => (l, s)
  | i :: r => let '(l', s') := data_step i l s in run_body r l' s'
  end.

Fixpoint set_nth {A} (n : nat) (x : A) (l : list A) : list A :=
  match l, n with
  | [], _ => []
  | _ :: r, O => x :: r
  | y :: r, S n' => y :: set_nth n' x r
  end.

(* thread t takes its next micro-step; None = not enabled (finished, or Lock while the mutex is held) *)
Definition gstep (g : gstate) (t : nat) : option gstate :=
  match nth_error (threads g) t with
  | None => None
  | Some th =>
      match code th with
      | [] => None
      | Acq :: r => if held g then None else Some (mkG (st g) true (set_nth t (mkT r (loc th)) (threads g)))
      | Rel :: r => Some (mkG (st g) false (set_nth t (mkT r (loc th)) (threads g)))
      | i :: r => let '(l', s') := data_step i (loc th) (st g) in Some (mkG s' (held g) (set_nth t (mkT r l') (threads g)))
      end
  end.

(* a schedule = which thread moves next; disabled moves are skipped *)
Fixpoint grun (g : gstate) (sched : list nat) : gstate :=
  match sched with
  | [] => g
  | t :: r => match gstep g t with Some g' => grun g' r | None => grun g r end
  end.

(* the calls, as the code performs them *)
Definition body_add (e : string) : list mi := [RegInc e; RtInc e; Read e; Publish e].
Definition body_remove (e : string) : list mi := [RegDec e; RtDec e; Read e; Publish e].
Inductive call : Type := CAdd (e : string) | CRemove (e : string).
Definition body_of (c : call) : list mi := match c with CAdd e => body_add e | CRemove e => body_remove e end.
(* manager.go: m.mu.Lock(); defer m.mu.Unlock(); ... *)
Definition locked (c : call) : list mi := Acq :: body_of c ++ [Rel].
Definition program (cs : list call) : list mi := flat_map locked cs.

(* the variant of the seeded changes: the mutex is released after the registry update, before the cluster is told *)
Definition early_unlock (c : call) : list mi :=
  match body_of c with
  | i :: r => Acq :: i :: Rel :: r
  | [] => [Acq; Rel]
  end.

Definition consistent (s : reg_state) : Prop := forall e, reg s e = rt s e /\ rt s e = pub s e.
Definition finished (g : gstate) : Prop := Forall (fun th => code th = []) (threads g).
