(* The periodic tasks of a gossip node (pkg/gossip/gossip.go schedule / scheduleFunc): every task fires on a ticker of its
   interval and then waits a random jitter of up to 10 % of the interval before it runs. Durations are integer nanoseconds;
   the random number is an oracle. Models only; proofs in ConcP/ScheduleP.v.

   Go's integer division by zero panics: the model returns None there. *)
From Coq Require Import ZArith Bool.
Local Open Scope Z_scope.

(* time.Duration.Milliseconds() *)
Definition millis (ns : Z) : Z := ns / 1000000.

(* the jitter of the PINNED tree (gossip.go:300-302):
     jitterMs := (rand.Int63() % interval.Milliseconds()) / 10 ;  time.After(time.Duration(jitterMs) * time.Millisecond)
   r = rand.Int63() >= 0. `%` by zero panics. *)
Definition jitter_pinned (interval r : Z) : option Z :=
  if millis interval =? 0 then None else Some (((r mod millis interval) / 10) * 1000000).

(* the jitter after the fix (finding S1): computed on the duration itself,
     jitter := time.Duration(rand.Int63n(int64(interval))) / 10
   rand.Int63n(n) panics for n <= 0 and returns a number in [0, n) otherwise (the oracle r is reduced mod n). *)
Definition jitter (interval r : Z) : option Z :=
  if interval <=? 0 then None else Some ((r mod interval) / 10).

(* Config.Validate (config.go:24-35) accepts every interval that is not zero; a negative one makes time.NewTicker panic
   before any jitter is computed, so the tasks run for: *)
Definition interval_ok (interval : Z) : bool := 0 <? interval.

(* the k-th run of a task whose ticker fires at k*interval (k >= 1) with jitter j_k starts at k*interval + j_k *)
Definition run_time (interval k j : Z) : Z := k * interval + j.
