(* C20 (last sentence) - the three places a local upstream registration is recorded, at the granularity of whole
   AddConn/RemoveConn calls.  The granularity is justified by the lock graph: both calls hold
   LoadBalancedManager.mu from the first to the last of these updates (edges manager.mu -> State.mu and
   manager.mu -> clusterState.mu of the extracted relation), so the calls are serialised.

     reg e  = len(localUpstreams[e].upstreams)            server/upstream/manager.go:115-159
     rt  e  = cluster.State local node Endpoints[e]       server/cluster/state.go:128-187
     pub e  = value of the live gossip entry "endpoint:e" server/gossip/syncer.go:410-418, pkg/gossip/state.go:230-285
              (0 = no entry or tombstone)                                                              *)
From Coq Require Import List String Bool Arith.
Import ListNotations.

Record reg_state : Type := mkReg { reg : string -> nat; rt : string -> nat; pub : string -> nat }.

Definition upd (f : string -> nat) (k : string) (v : nat) : string -> nat :=
  fun x => if String.eqb x k then v else f x.

Inductive reg_op : Type :=
| AddConn (e : string)
| RemoveConn (e : string) (registered : bool).  (* registered: the balancer still contained this upstream *)

Definition reg_init : reg_state := mkReg (fun _ => 0) (fun _ => 0) (fun _ => 0).

Definition reg_step (s : reg_state) (o : reg_op) : reg_state :=
  match o with
  | AddConn e =>
      (* lb.Add; cluster.AddLocalEndpoint: Endpoints[e]++ then subscribers: onLocalEndpointUpdate publishes
         LocalEndpointListeners(e) *)
      let rt' := upd (rt s) e (S (rt s e)) in
      mkReg (upd (reg s) e (S (reg s e))) rt' (upd (pub s) e (rt' e))
  | RemoveConn e registered =>
      (* no balancer for e, or the upstream was already removed: return before touching the cluster *)
      if (reg s e =? 0) || negb registered then s
      else
        (* RemoveLocalEndpoint: not found -> warn and return without calling the subscribers *)
        if rt s e =? 0 then mkReg (upd (reg s) e (pred (reg s e))) (rt s) (pub s)
        else let rt' := upd (rt s) e (pred (rt s e)) in
             mkReg (upd (reg s) e (pred (reg s e))) rt' (upd (pub s) e (rt' e))
  end.

Definition reg_run (ops : list reg_op) : reg_state := fold_left reg_step ops reg_init.
