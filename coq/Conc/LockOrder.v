(* C20 - model of goroutines taking and releasing mutexes (definitions only, proofs are in ConcP/).

   Stands for: every goroutine of the piko server that executes code paths through the six mutexes
     LoadBalancedManager.mu   server/upstream/manager.go:74
     Server.sessionsMu        server/upstream/server.go:32
     cluster State.mu         server/cluster/state.go:23   (sync.RWMutex)
     syncer.mu                server/gossip/syncer.go:32
     gossip clusterState.mu   pkg/gossip/state.go:122
     accrualFailureDetector.mu pkg/gossip/failuredetector.go:106
   A goroutine is abstracted to the sequence of Lock/Unlock operations it performs (its "script"); everything
   between two lock operations is assumed to terminate (no channel waits while a mutex is held - the
   extractor reports go statements made while holding, there are none).
   sync.Mutex is not reentrant: Acq m blocks while ANY thread - including the acquiring one - holds m.
   sync.RWMutex: RLock/RUnlock are modelled like Lock/Unlock (exclusive). This is conservative for deadlock:
   two readers never block each other in Go, but a reader does block behind a waiting writer, so a cycle through
   read locks can deadlock in Go as well; the model has every blocking the implementation has, and more. *)
From Coq Require Import List String Bool Arith.
Import ListNotations.

Definition mutex := string.

Inductive instr : Type :=
| Acq (m : mutex)     (* mu.Lock() / mu.RLock() *)
| Rel (m : mutex).    (* mu.Unlock() / mu.RUnlock(), also when deferred *)

(* a goroutine: the mutexes it holds and the lock operations it still has to execute *)
Record thread : Type := mkThread { held : list mutex; code : list instr }.

Definition state := list thread.

Definition mem (m : mutex) (l : list mutex) : bool := existsb (String.eqb m) l.

Definition remove_m (m : mutex) (l : list mutex) : list mutex :=
  filter (fun x => negb (String.eqb m x)) l.

Definition held_by_any (s : state) (m : mutex) : bool := existsb (fun t => mem m (held t)) s.

(* one thread moves; Acq needs the mutex to be free in the whole state *)
Inductive tstep (s : state) : thread -> thread -> Prop :=
| t_acq : forall m h c, held_by_any s m = false ->
    tstep s (mkThread h (Acq m :: c)) (mkThread (m :: h) c)
| t_rel : forall m h c,
    tstep s (mkThread h (Rel m :: c)) (mkThread (remove_m m h) c).

(* global small-step semantics: any thread whose next operation is enabled may move (any interleaving) *)
Inductive step : state -> state -> Prop :=
| step_at : forall pre t t' post, tstep (pre ++ t :: post) t t' ->
    step (pre ++ t :: post) (pre ++ t' :: post).

Inductive steps : state -> state -> Prop :=
| steps_refl : forall s, steps s s
| steps_next : forall s1 s2 s3, step s1 s2 -> steps s2 s3 -> steps s1 s3.

(* runs with their length *)
Inductive steps_n : nat -> state -> state -> Prop :=
| steps_n_0 : forall s, steps_n 0 s s
| steps_n_S : forall n s1 s2 s3, step s1 s2 -> steps_n n s2 s3 -> steps_n (S n) s1 s3.

Definition finished (t : thread) : Prop := code t = [].
Definition all_finished (s : state) : Prop := Forall finished s.

(* a deadlock: somebody still has work to do and nobody can move *)
Definition deadlocked (s : state) : Prop := ~ all_finished s /\ forall s', ~ step s s'.

(* number of lock operations still to be executed *)
Definition remaining (s : state) : nat := list_sum (map (fun t => List.length (code t)) s).

(* lock discipline 1: relative to a ranking of the mutexes a script only acquires mutexes strictly above
   everything it holds at that moment, and it ends holding nothing *)
Fixpoint ordered (rank : mutex -> nat) (h : list mutex) (c : list instr) : Prop :=
  match c with
  | [] => h = []
  | Acq m :: c' => (forall x, In x h -> rank x < rank m) /\ ordered rank (m :: h) c'
  | Rel m :: c' => ordered rank (remove_m m h) c'
  end.

(* lock discipline 2 (boolean): every nested acquisition "m while holding x" is an edge (x,m) of es, and the
   script ends holding nothing.  es is instantiated with the relation extracted from the source. *)
Definition edge := (string * string)%type.

Definition edge_in (es : list edge) (x m : mutex) : bool :=
  existsb (fun e => String.eqb (fst e) x && String.eqb (snd e) m) es.

Fixpoint within (es : list edge) (h : list mutex) (c : list instr) : bool :=
  match c with
  | [] => match h with [] => true | _ => false end
  | Acq m :: c' => forallb (fun x => edge_in es x m) h && within es (m :: h) c'
  | Rel m :: c' => within es (remove_m m h) c'
  end.

(* initial states: nobody holds anything; every script follows the discipline *)
Definition init_ordered (rank : mutex -> nat) (s : state) : Prop :=
  Forall (fun t => held t = [] /\ ordered rank [] (code t)) s.

Definition init_within (es : list edge) (s : state) : Prop :=
  Forall (fun t => held t = [] /\ within es [] (code t) = true) s.

(* no mutex is held twice (by two threads or twice by one) *)
Definition exclusive (s : state) : Prop := NoDup (List.concat (map held s)).
