(** Model of upstream connection rebalancing (property C19).

    Stands for
      - server/upstream/server.go:108-151  Server.Rebalance
      - server/upstream/server.go:279-303  openSessions, shedSessions
      - server/cluster/state.go:334-353    State.AvgConns
      - server/server.go:425               the scheduling guard `Threshold != 0`
      - server/config/config.go:14-56      RebalanceConfig {Threshold, ShedRate float64; MinConns uint}

    float64 is IEEE binary64: Flocq's [binary_float 53 1024] (single-NaN variant: NaN payloads are never
    observable here), all operations rounding to nearest even, exactly like the hardware. The file holds
    definitions only; everything is computable with vm_compute. Proofs are in RebalanceP/. *)
From Coq Require Import ZArith List Bool.
From Flocq Require IEEE754.Binary IEEE754.Bits.
From Flocq Require Import Core IEEE754.BinarySingleNaN.
Import ListNotations.
Open Scope Z_scope.

(** * binary64 *)

Definition Hprec64 : Prec_gt_0 53 := eq_refl.
Definition Hpe64 : Prec_lt_emax 53 1024 := eq_refl.

Definition f64 := binary_float 53 1024.

(* math.Float64frombits: how configuration floats cross the boundary *)
Definition f64_of_bits (b : Z) : f64 := Binary.B2BSN 53 1024 (Bits.b64_of_bits b).

(* Go conversion float64(i) of an int: round to nearest even *)
Definition f64_of_int (z : Z) : f64 := binary_normalize 53 1024 Hprec64 Hpe64 mode_NE z 0 false.

Definition fzero : f64 := B754_zero false.
Definition fdiv (x y : f64) : f64 := @Bdiv 53 1024 Hprec64 Hpe64 mode_NE x y.   (* x / y *)
Definition fmul (x y : f64) : f64 := @Bmult 53 1024 Hprec64 Hpe64 mode_NE x y.  (* x * y *)
Definition fceil (x : f64) : f64 := @Bnearbyint 53 1024 Hpe64 mode_UP x.       (* math.Ceil *)
Definition flt (x y : f64) : bool := Bltb x y.   (* x < y : false when either is NaN *)
Definition fgt (x y : f64) : bool := Bltb y x.   (* x > y *)
Definition feq (x y : f64) : bool := Beqb x y.   (* x == y : false when either is NaN, -0 == +0 *)

Definition min_int64 : Z := - 2 ^ 63.

(* Go conversion int(f) of a float64, int being 64 bits: truncation toward zero when the value fits.
   The Go specification leaves the result implementation-defined when it does not fit (NaN, infinities,
   |f| >= 2^63); on amd64 the compiler emits CVTTSD2SQ which yields the "integer indefinite" value
   0x8000000000000000 = math.MinInt64. The harness measures this on the machine it runs on and the check
   reports when the platform differs (props/C19.py, platform probe). *)
Definition go_int_of_f64 (x : f64) : Z :=
  if Bleb (f64_of_int min_int64) x && Bltb x (f64_of_int (2 ^ 63)) then Btrunc x else min_int64.

(* Go conversion int(u) of a uint (64 bits): two's complement reinterpretation *)
Definition go_int_of_uint (u : Z) : Z := if u <? 2 ^ 63 then u else u - 2 ^ 64.

(** * Cluster state as seen by the local node  (server/cluster/state.go) *)

(* NodeStatus: "active" | "unreachable" | "left"; any other string is treated like a non-active one *)
Inductive status := SActive | SUnreachable | SLeft.

(* a remote node: status and the listener count of every endpoint it advertises. The counts come from
   strconv.Atoi of gossiped values (server/gossip/syncer.go:273,306) so they are arbitrary ints. *)
Record node := { n_status : status; n_endpoints : list Z }.

(* State.nodes: the local node (always present and always active, NewState state.go:34-37 and the
   localID checks in AddNode/RemoveNode/UpdateRemoteStatus) plus the remote nodes *)
Record cluster := { cl_local : list Z; cl_remotes : list node }.

Definition zsum (l : list Z) : Z := fold_right Z.add 0 l.
Definition node_conns (n : node) : Z := zsum (n_endpoints n).
Definition is_active (n : node) : bool := match n_status n with SActive => true | _ => false end.
Definition active_remotes (c : cluster) : list node := filter is_active (cl_remotes c).

(* len(s.cluster.Nodes()): nodes of every status *)
Definition known_nodes (c : cluster) : Z := 1 + Z.of_nat (length (cl_remotes c)).

(* State.AvgConns state.go:335-353: total connections of the ACTIVE nodes (local included) divided by the
   number of active nodes, Go integer division (truncation toward zero = Z.quot) *)
Definition total_conns (c : cluster) : Z := zsum (cl_local c) + zsum (map node_conns (active_remotes c)).
Definition active_nodes (c : cluster) : Z := 1 + Z.of_nat (length (active_remotes c)).
Definition avg_conns (c : cluster) : Z := Z.quot (total_conns c) (active_nodes c).

(** * Configuration (server/config/config.go RebalanceConfig) *)

Record config := { c_threshold : f64; c_shed_rate : f64; c_min_conns : Z (* uint *) }.

(* server/server.go:425  `if s.conf.Upstream.Rebalance.Threshold != 0` — the rebalance loop is only started then.
   Go's != on floats: true for NaN, false for -0. *)
Definition enabled (cfg : config) : bool := negb (feq (c_threshold cfg) fzero).

(* Preconditions of the theorems, as booleans. RebalanceConfig.Validate (config.go:45-56) rejects Threshold < 0,
   ShedRate < 0 and ShedRate > 1; NaN passes all three tests and +Inf passes the threshold test, so finiteness is
   an extra hypothesis on the configuration (--upstream.rebalance.threshold=NaN is accepted by the flag parser). *)
Definition fone : f64 := f64_of_int 1.
Definition fle (x y : f64) : bool := Bleb x y.   (* x <= y *)
Definition rate_valid (cfg : config) : bool :=
  is_finite (c_shed_rate cfg) && fle fzero (c_shed_rate cfg) && fle (c_shed_rate cfg) fone.
Definition threshold_valid (cfg : config) : bool :=
  is_finite (c_threshold cfg) && flt fzero (c_threshold cfg).

(** * One rebalance step *)

(* shedSessions(n) server.go:286-303:
     for sess := range s.sessions { shedding = append(shedding, sess); if len(shedding) >= n { break } }
   collects at least one session whenever there is one (the test comes after the append), at most n, at
   most all of them; every collected session is closed. Result = number of sessions closed. *)
Definition shed_sessions (open n : Z) : Z := if open <=? 0 then 0 else Z.min open (Z.max 1 n).

Inductive decision :=
| SkipNoOtherNodes        (* server.go:109-112 *)
| SkipTooFewConns         (* server.go:114-121 *)
| SkipBelowThreshold      (* server.go:125-134 *)
| Shed (n : Z).           (* server.go:150  s.shedSessions(int(shedding)) *)

(* balance := float64(localConns-avgConns) / float64(avgConns)   server.go:124 *)
Definition balance (open avg : Z) : f64 := fdiv (f64_of_int (open - avg)) (f64_of_int avg).

(* float64(avgConns) * s.config.Rebalance.ShedRate   server.go:138,139 *)
Definition cap (cfg : config) (avg : Z) : f64 := fmul (f64_of_int avg) (c_shed_rate cfg).

(* server.go:137-140 *)
Definition shedding (cfg : config) (open avg : Z) : f64 :=
  let s := fmul (f64_of_int open) (balance open avg) in
  if fgt s (cap cfg avg) then fceil (cap cfg avg) else s.

(* Server.Rebalance server.go:108-151. [open] = len(s.sessions) (openSessions). *)
Definition decide (cfg : config) (open : Z) (c : cluster) : decision :=
  if known_nodes c <=? 1 then SkipNoOtherNodes
  else if (open =? 0) || (open <? go_int_of_uint (c_min_conns cfg)) then SkipTooFewConns
  else
    let avg := avg_conns c in
    if flt (balance open avg) (c_threshold cfg) then SkipBelowThreshold
    else Shed (go_int_of_f64 (shedding cfg open avg)).

Definition closed_by (d : decision) (open : Z) : Z :=
  match d with Shed n => shed_sessions open n | _ => 0 end.

(* number of upstream sessions closed by one call of Server.Rebalance *)
Definition rebalance (cfg : config) (open : Z) (c : cluster) : Z := closed_by (decide cfg open c) open.

(* number of upstream sessions closed by one tick of the rebalance loop of a node configured with cfg
   (server/server.go:425-430, 523-535: Rebalance is called once a second, only when enabled) *)
Definition tick (cfg : config) (open : Z) (c : cluster) : Z :=
  if enabled cfg then rebalance cfg open c else 0.

(* the guards of the property, as one boolean: true = some guard holds *)
Definition guarded (cfg : config) (open : Z) (c : cluster) : bool :=
  negb (enabled cfg)
  || (known_nodes c <=? 1)
  || (open =? 0)
  || (open <? go_int_of_uint (c_min_conns cfg))
  || flt (balance open (avg_conns c)) (c_threshold cfg).
