(* Correspondence evaluation for peer selection and the leave notification (Gossip/Round.v): the membership the real
   node held (id, address, unreachable, left per known node) and what the real gossipRound / Leave did with it.
   codes: 1 a round whose destinations are not a legal outcome of round_targets for that membership
          2 a Leave whose told set / error verdict is not a legal outcome of leave_run for that membership *)
From Coq Require Import List String NArith Bool.
From Piko Require Import Base.Maps Base.Strs Gossip.Types Gossip.Apply Gossip.Round.
Import ListNotations.
Open Scope string_scope. Open Scope list_scope.

Definition member := (string * string * bool * bool)%type.   (* id, addr, unreachable, left *)

Definition state_of (local : string) (ms : list member) : cstate :=
  {| c_local := local;
     c_nodes := map (fun m => let '(id, addr, u, l) := m in
                              (id, {| n_id := id; n_addr := addr; n_ver := 0%N; n_left := l; n_unreach := u; n_expiry := None; n_ents := [] |})) ms |}.

Inductive rcase :=
| RRound (local : string) (ms : list member) (rounds : list (list string))
| RLeave (local : string) (ms : list member) (closed told : list string) (err : bool).

Definition check (c : rcase) : list nat :=
  match c with
  | RRound local ms rounds => if forallb (round_legal (state_of local ms)) rounds then [] else [1%nat]
  | RLeave local ms closed told err =>
      if leave_legal (state_of local ms) (fun id => negb (mem_str id closed)) told err then [] else [2%nat]
  end.

Fixpoint mismatches_from (k : nat) (cs : list rcase) : list (nat * list nat) :=
  match cs with
  | [] => []
  | c :: r => match check c with [] => mismatches_from (S k) r | codes => (k, codes) :: mismatches_from (S k) r end
  end.
Definition mismatches (cs : list rcase) := mismatches_from 0 cs.
