(* Correspondence evaluation for the gossip harness: runs the world model on the op list the real code
   executed (with its recorded oracle choices) and compares every observable. Evaluated with vm_compute. *)
From Coq Require Import List String NArith ZArith Bool.
From Piko Require Import Base.Maps Base.Strs Gossip.Types Gossip.Local Gossip.Apply Gossip.Codec Gossip.World.
Import ListNotations.
Open Scope string_scope. Open Scope list_scope. Open Scope N_scope.

Record oview := { ov_n : nat; ov_id : string; ov_present : bool; ov_addr : string; ov_ver : N;
                  ov_left : bool; ov_unreach : bool; ov_expiry : option Z; ov_ents : list entry }.
Definition osum_item := (string * N * nat * bool * bool * bool)%type.
Record obs := { o_views : list oview; o_sums : list (nat * list osum_item); o_events : list (nat * event);
                o_sent : list (string * string); o_err : bool; o_reports : option (list string);
                o_net : bool (* compare emitted packets / error flag / oracle legality *) }.

Section Perm.
  Context {A : Type} (eqb : A -> A -> bool).
  Fixpoint remove_one (x : A) (l : list A) : option (list A) :=
    match l with
    | [] => None
    | y :: r => if eqb x y then Some r else option_map (cons y) (remove_one x r)
    end.
  Fixpoint perm_eqb (l1 l2 : list A) : bool :=
    match l1 with
    | [] => match l2 with [] => true | _ => false end
    | x :: r => match remove_one x l2 with Some l2' => perm_eqb r l2' | None => false end
    end.
  Fixpoint list_eqb (l1 l2 : list A) : bool :=
    match l1, l2 with
    | [], [] => true
    | x :: r1, y :: r2 => eqb x y && list_eqb r1 r2
    | _, _ => false
    end.
End Perm.

Definition optZ_eqb (a b : option Z) : bool :=
  match a, b with Some x, Some y => Z.eqb x y | None, None => true | _, _ => false end.

Definition event_eqb (a b : event) : bool :=
  match a, b with
  | EJoin x, EJoin y | ELeave x, ELeave y | EReach x, EReach y | EUnreach x, EUnreach y | EExpired x, EExpired y => String.eqb x y
  | EUpsert n k v, EUpsert n' k' v' => String.eqb n n' && String.eqb k k' && String.eqb v v'
  | EDelete n k, EDelete n' k' => String.eqb n n' && String.eqb k k'
  | _, _ => false
  end.

Definition nevent_eqb (a b : nat * event) : bool := Nat.eqb (fst a) (fst b) && event_eqb (snd a) (snd b).

Definition view_ok (w : world) (v : oview) : bool :=
  match nth_error (w_nodes w) (ov_n v) with
  | None => false
  | Some c =>
      match lookup (ov_id v) (c_nodes c) with
      | None => negb (ov_present v)
      | Some s =>
          ov_present v && String.eqb (n_id s) (ov_id v) && String.eqb (n_addr s) (ov_addr v)
          && N.eqb (n_ver s) (ov_ver v) && Bool.eqb (n_left s) (ov_left v) && Bool.eqb (n_unreach s) (ov_unreach v)
          && optZ_eqb (n_expiry s) (ov_expiry v) && perm_eqb entry_eqb (values (n_ents s)) (ov_ents v)
          && forallb (fun kv => String.eqb (fst kv) (e_key (snd kv))) (n_ents s)
      end
  end.

Definition sum_item_of (s : node_state) : osum_item :=
  (n_id s, n_ver s, List.length (n_ents s), n_left s, n_unreach s,
   match n_expiry s with Some _ => true | None => false end).

Definition sum_item_eqb (a b : osum_item) : bool :=
  let '(i1, v1, l1, a1, b1, c1) := a in let '(i2, v2, l2, a2, b2, c2) := b in
  String.eqb i1 i2 && N.eqb v1 v2 && Nat.eqb l1 l2 && Bool.eqb a1 a2 && Bool.eqb b1 b2 && Bool.eqb c1 c2.

Definition sum_ok (w : world) (s : nat * list osum_item) : bool :=
  match nth_error (w_nodes w) (fst s) with
  | None => false
  | Some c => perm_eqb sum_item_eqb (map sum_item_of (values (c_nodes c))) (snd s)
  end.

Definition sent_eqb (p : packet) (o : string * string) : bool :=
  String.eqb (p_dst p) (fst o) && String.eqb (string_of_bytes (p_bytes p)) (snd o).

Fixpoint sent_ok (ps : list packet) (os : list (string * string)) : bool :=
  match ps, os with
  | [], [] => true
  | p :: pr, o :: or => sent_eqb p o && sent_ok pr or
  | _, _ => false
  end.

(* codes: 1 illegal oracle, 2 view, 3 summary, 4 events, 5 packets, 6 error flag, 7 detector reports *)
Definition check_step (so : step_out) (ob : obs) : list nat :=
  let w := so_world so in
  (if so_oracle_ok so || negb (o_net ob) then [] else [1%nat])
  ++ (if forallb (view_ok w) (o_views ob) then [] else [2%nat])
  ++ (if forallb (sum_ok w) (o_sums ob) then [] else [3%nat])
  ++ (if perm_eqb nevent_eqb (so_events so) (o_events ob) then [] else [4%nat])
  ++ (if sent_ok (so_sent so) (o_sent ob) || negb (o_net ob) then [] else [5%nat])
  ++ (if Bool.eqb (so_err so) (o_err ob) || negb (o_net ob) then [] else [6%nat])
  ++ (match o_reports ob with
      | None => []
      | Some r => if list_eqb String.eqb (so_reports so) r then [] else [7%nat] end).

(* first disagreeing step of a history: (step index, codes) *)
Fixpoint run_check (w : world) (i : nat) (steps : list (wop * obs)) : option (nat * list nat) :=
  match steps with
  | [] => None
  | (o, ob) :: r =>
      let so := wstep w o in
      match check_step so ob with
      | [] => run_check (so_world so) (S i) r
      | codes => Some (i, codes)
      end
  end.

Record gcase := { gc_nodes : list (string * string); gc_steps : list (wop * obs) }.

Fixpoint mismatches_from (k : nat) (cs : list gcase) : list (nat * nat * list nat) :=
  match cs with
  | [] => []
  | c :: r =>
      match run_check (init_world (gc_nodes c)) 0 (gc_steps c) with
      | None => mismatches_from (S k) r
      | Some (i, codes) => (k, i, codes) :: mismatches_from (S k) r
      end
  end.
Definition mismatches (cs : list gcase) := mismatches_from 0 cs.

(* convenience constructors used by generated case files *)
Definition E (k v : string) (ver : N) (i d : bool) : entry := mk_entry k v ver i d.
