(* Correspondence run for C09 / C10: the model (Auth/Serve.v over the REGENERATED route tables) is evaluated on
   the requests the harness sent to the real servers and compared with what they did. *)
From Coq Require Import List String ZArith NArith Bool.
From Piko Require Import Base.Strs Auth.Token Auth.Verify Auth.Routes Auth.Serve generated.RouteTables.
Import ListNotations.
Open Scope string_scope. Open Scope list_scope.

Inductive port := PProxy | PUpstream | PAdmin.

Definition ops_of (p : port) : list regop :=
  match p with PProxy => proxy_ops | PUpstream => upstream_ops | PAdmin => admin_ops end.

(* what the harness saw: status, the "error" member of a JSON body ("" if none), the endpoints passed to the stub
   manager's Select / AddConn during the request, and how many requests reached the stub admin peer *)
Record obs := { ob_status : N; ob_err : string; ob_select : list string; ob_addconn : list string; ob_forward : N }.

Definition strs_eqb (a b : list string) : bool :=
  (List.length a =? List.length b)%nat && forallb (fun xy => String.eqb (fst xy) (snd xy)) (combine a b).

Definition no_effect (o : obs) : bool := is_nil (ob_select o) && is_nil (ob_addconn o) && (ob_forward o =? 0)%N.

(* the stubs' part of the answer: Select finds nothing -> 502 "no available upstreams" (httpproxy.go:76);
   a websocket client gets 101 before AddConn; the stub admin peer answers 200 *)
(* wired = the servers were built by the real server.NewServer(conf): the manager is the real one, so Select calls
   cannot be counted (only the 502 it leads to), and AddConn shows as the endpoint advertised by the local node *)
Definition obs_matches (wired : bool) (m : outcome) (o : obs) : bool :=
  match m with
  | O401 e => (ob_status o =? 401)%N && String.eqb (ob_err o) e && no_effect o
  | OStatus c e => (ob_status o =? c)%N && String.eqb (ob_err o) e && no_effect o
  | ORedirect => ((ob_status o =? 301)%N || (ob_status o =? 307)%N) && no_effect o
  | OSelect e => (ob_status o =? 502)%N && String.eqb (ob_err o) "no available upstreams"
                 && (if wired then is_nil (ob_select o) else strs_eqb (ob_select o) [e])
                 && is_nil (ob_addconn o) && (ob_forward o =? 0)%N
  | OAddConn e => (ob_status o =? 101)%N && strs_eqb (ob_addconn o) [e] && is_nil (ob_select o) && (ob_forward o =? 0)%N
  | OForward _ => (ob_status o =? 200)%N && (ob_forward o =? 1)%N && is_nil (ob_select o) && is_nil (ob_addconn o)
  | OHandler _ => negb (ob_status o =? 401)%N && negb (ob_status o =? 301)%N && negb (ob_status o =? 307)%N && no_effect o
  end.

Fixpoint lookup_tok (env : list (string * token)) (s : string) : option token :=
  match env with
  | [] => None
  | (k, v) :: r => if String.eqb k s then Some v else lookup_tok r s
  end.

Record astep := { as_port : port; as_req : request; as_toks : list (string * token); as_now : Z; as_obs : obs }.

Record acase := { ac_wired : bool; ac_proxy : portcfg; ac_upstream : portcfg; ac_admin : portcfg; ac_steps : list astep }.

Definition cfg_of (c : acase) (p : port) : portcfg :=
  match p with PProxy => ac_proxy c | PUpstream => ac_upstream c | PAdmin => ac_admin c end.

Definition model_outcome (c : acase) (s : astep) : outcome :=
  serve (ops_of (as_port s)) (cfg_of c (as_port s)) (lookup_tok (as_toks s)) (as_req s) (as_now s).

Fixpoint check_steps (c : acase) (i : nat) (ss : list astep) : list (nat * outcome) :=
  match ss with
  | [] => []
  | s :: r =>
      let m := model_outcome c s in
      if obs_matches (ac_wired c) m (as_obs s) then check_steps c (S i) r else (i, m) :: check_steps c (S i) r
  end.

Fixpoint mismatches_from (k : nat) (cs : list acase) : list (nat * nat * outcome) :=
  match cs with
  | [] => []
  | c :: r => map (fun im => (k, fst im, snd im)) (check_steps c 0 (ac_steps c)) ++ mismatches_from (S k) r
  end.

Definition mismatches (cs : list acase) := mismatches_from 0 cs.

(* constructors used by the generated case files *)
Definition K (id : string) (f : family) : key := {| k_id := id; k_fam := f |}.
Definition Tk (alg : string) (by_ : option key) (intact : bool) (kid : option string) (exp nbf : option Z)
           (aud : list string) (iss : option string) (eps : list string) : token :=
  {| t_alg := alg; t_signed_by := by_; t_intact := intact; t_kid := kid; t_exp := exp; t_nbf := nbf;
     t_aud := aud; t_iss := iss; t_endpoints := eps |}.
Definition Rq (m p host xe xa a ten : string) (fw : option string) : request :=
  {| rq_method := m; rq_path := p; rq_host := host; rq_xendpoint := xe; rq_xauth := xa; rq_auth := a;
     rq_tenant := ten; rq_forward := fw |}.
Definition Ob (st : N) (err : string) (sel add : list string) (fw : N) : obs :=
  {| ob_status := st; ob_err := err; ob_select := sel; ob_addconn := add; ob_forward := fw |}.
Definition Vc (hm rs ec : option key) (jw : option (list jwk)) (aud iss : string) (noexp : bool) : vcfg :=
  {| c_hmac := hm; c_rsa := rs; c_ecdsa := ec; c_jwks := jw; c_aud := aud; c_iss := iss; c_noexp := noexp |}.
Definition St (p : port) (rq : request) (toks : list (string * token)) (now : Z) (o : obs) : astep :=
  {| as_port := p; as_req := rq; as_toks := toks; as_now := now; as_obs := o |}.
Definition Cs (w : bool) (p u a : portcfg) (ss : list astep) : acase :=
  {| ac_wired := w; ac_proxy := p; ac_upstream := u; ac_admin := a; ac_steps := ss |}.
Definition Pc (v : option mtv) (c : option (string * list string)) (r : bool) : portcfg :=
  {| pc_verifier := v; pc_cluster := c; pc_registry := r |}.
Definition Mt (d : vcfg) (t : list (string * vcfg)) : mtv := {| mt_default := d; mt_tenants := t |}.
Definition Jk (kid : string) (k : key) (a : option string) : jwk := {| j_kid := kid; j_key := k; j_alg := a |}.
Definition SZ (z : Z) : option Z := Some z.
Definition NZ : option Z := None.
Definition SS (s : string) : option string := Some s.
Definition NS : option string := None.
