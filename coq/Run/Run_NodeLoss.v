(* Correspondence evaluation for the nodeloss harness (C18): three REAL server nodes, one of them lost.
   What was recorded on the real cluster is replayed on the models:
     NLAccept  - a listener's accept history              -> NodeLoss.accept_loop
     NLShut    - the leaver before / after Shutdown        -> NodeLoss.run_script on the schedule the recorded versions imply
     NLLeave   - a survivor's gossip view + routing table before, the leaver's own entries after
                                                           -> Gossip.Apply.apply_delta + Cluster.Syncer.on_events
     NLRoute   - a survivor's routing table before + the status changes it went through
                                                           -> Cluster.Syncer.on_events
     NLLookup  - a survivor's routing table at the end + LookupEndpoint samples
                                                           -> Cluster.Syncer.lookup_candidates *)
From Coq Require Import List String NArith ZArith Bool.
From Piko Require Import Base.Maps Base.Strs Gossip.Types Gossip.Local Gossip.Apply Cluster.Syncer NodeLoss.NodeLoss.
Import ListNotations.
Open Scope string_scope. Open Scope list_scope.

(* observed outcome of Accept: 0 still accepting, 1 ErrClosed, 2 context error, 3 connect error *)
Definition outcome_code (o : accept_outcome) : nat :=
  match o with OBlocked => 0 | OErrClosed => 1 | OCtxErr => 2 | OConnectErr => 3 | OConn => 4 end%nat.

(* an iteration as far as the harness knows it: the error class is not observable, so the model is asked for every class *)
Record it_obs := { io_ctx : bool; io_closed : bool; io_conn : connect_result }.

Fixpoint expand (its : list it_obs) : list (list accept_iter) :=
  match its with
  | [] => [[]]
  | i :: r => flat_map (fun tl => map (fun e => AErr (io_ctx i) (io_closed i) e (io_conn i) :: tl) [ESessionShutdown; ENetClosed; EOtherErr])
                       (expand r)
  end.

Record rnode := { rn_id : string; rn_status : nstatus; rn_eps : list (string * Z) }.

Definition sstate_of (local : string) (ns : list rnode) : sstate :=
  {| ss_local := local;
     ss_nodes := map (fun r => (rn_id r, {| cn_id := rn_id r; cn_status := rn_status r; cn_proxy := "p"; cn_admin := "a"; cn_eps := rn_eps r |})) ns;
     ss_pending := []; ss_synced := true |}.

Record shut_obs := { so_conns_empty : bool; so_eps_empty : bool; so_left : bool; so_marker : bool;
                     so_proxy : bool; so_upstream : bool; so_admin : bool; so_gossip : bool;
                     so_instant_left : list string (* survivors that had the node as left the instant Shutdown returned *) }.

Inductive nlcase :=
| NLAccept (its : list it_obs) (observed : nat)
| NLShut (conns : list string) (sched : list shstep) (live : list string) (ob : shut_obs)
| NLLeave (full : bool) (peer lost : string) (vver : N) (vents : list entry) (pre : list rnode)
          (own : list entry) (pver : N) (pleft : bool) (pents : list entry) (post_status : option nstatus) (post_eps : list (string * Z))
| NLRoute (local lost : string) (pre : list rnode) (evs : list event) (post_status : option nstatus)
| NLLookup (local : string) (nodes : list rnode) (ep : string) (observed : list string).

Definition opt_status_eqb (a b : option nstatus) : bool :=
  match a, b with Some x, Some y => nstatus_eqb x y | None, None => true | _, _ => false end.

Definition entry_list_eqb (a b : list entry) : bool :=
  Nat.eqb (List.length a) (List.length b) && forallb (fun p => entry_eqb (fst p) (snd p)) (combine a b).

Definition eps_pos (m : list (string * Z)) : list (string * Z) := filter (fun kv => (0 <? snd kv)%Z) m.
Definition eps_same (a b : list (string * Z)) : bool :=
  forallb (fun kv => match lookup (fst kv) b with Some c => Z.eqb c (snd kv) | None => false end) a
  && forallb (fun kv => match lookup (fst kv) a with Some c => Z.eqb c (snd kv) | None => false end) b.

Definition subset (a b : list string) : bool := forallb (fun x => existsb (String.eqb x) b) a.

(* mismatch codes:
   1 accept outcome; 2 illegal schedule (python side built a schedule that is not Shutdown + one exit per connection);
   3 leaver holds connections / advertises endpoints; 4 left flag / marker; 5 a listener still open; 6 a notified peer did
   not have the node as left when Shutdown returned; 7 survivor's gossip view (left flag / version / entries);
   8 survivor's routing status of the lost node; 9 survivor's routing endpoints of the lost node; 10 LookupEndpoint *)
Definition check (c : nlcase) : list nat :=
  match c with
  | NLAccept its observed =>
      if forallb (fun l => Nat.eqb (outcome_code (accept_loop l)) observed) (expand its) then [] else [1%nat]
  | NLShut conns sched live ob =>
      let legal := forallb (fun p => match p with
                                     | (StNotReady, StNotReady) | (StUpstream, StUpstream) | (StProxy, StProxy)
                                     | (StGossipClose, StGossipClose) | (StAdmin, StAdmin) => true
                                     | (StLeave a, StLeave b) => true | _ => false end)
                           (combine (script_of sched) (shutdown_script live))
                   && Nat.eqb (List.length (script_of sched)) 6
                   && Nat.eqb (List.length (exits_of sched)) (List.length conns)
                   && forallb (fun ep => Z.eqb (count_conns (exits_of sched) ep) (count_conns conns ep)) conns in
      let fin := run_script (serving conns (eps_of_conns conns)) sched in
      (if legal then [] else [2%nat])
      ++ (if Bool.eqb (match ns_conns fin with [] => true | _ => false end) (so_conns_empty ob)
             && Bool.eqb (match ns_eps fin with [] => true | _ => false end) (so_eps_empty ob) then [] else [3%nat])
      ++ (if Bool.eqb (ns_left fin) (so_left ob) && Bool.eqb (ns_left fin) (so_marker ob) then [] else [4%nat])
      ++ (if Bool.eqb (ns_proxy_open fin) (so_proxy ob) && Bool.eqb (ns_upstream_open fin) (so_upstream ob)
             && Bool.eqb (ns_admin_open fin) (so_admin ob) && Bool.eqb (ns_gossip_open fin) (so_gossip ob) then [] else [5%nat])
      ++ (if subset (ns_notified fin) (so_instant_left ob) then [] else [6%nat])
  | NLLeave full peer lost vver vents pre own pver pleft pents post_status post_eps =>
      let V := {| n_id := lost; n_addr := ""; n_ver := vver; n_left := false; n_unreach := false; n_expiry := None;
                  n_ents := map (fun e => (e_key e, e)) vents |} in
      let c := {| c_local := peer; c_nodes := [(peer, new_node peer ""); (lost, V)] |} in
      let de := {| de_id := lost; de_addr := ""; de_ents := sort_by_ver (filter (fun e => (e_ver e <=? pver)%N) own) |} in
      let '(c', evs) := apply_delta [] c [de] in
      let s' := on_events (sstate_of peer pre) evs in
      match lookup lost (c_nodes c') with
      | None => [7%nat]
      | Some V' =>
          (if Bool.eqb (n_left V') pleft && (if full then N.eqb (n_ver V') pver && entry_list_eqb (sort_by_ver (values (n_ents V'))) pents else true)
           then [] else [7%nat])
          ++ (if opt_status_eqb (option_map cn_status (lookup lost (ss_nodes s'))) post_status then [] else [8%nat])
          ++ (if full then match lookup lost (ss_nodes s') with
                           | Some n => if eps_same (eps_pos (cn_eps n)) (eps_pos post_eps) then [] else [9%nat]
                           | None => [] end
              else [])
      end
  | NLRoute local lost pre evs post_status =>
      let s' := on_events (sstate_of local pre) evs in
      if opt_status_eqb (option_map cn_status (lookup lost (ss_nodes s'))) post_status then [] else [8%nat]
  | NLLookup local nodes ep observed =>
      let cands := lookup_candidates (sstate_of local nodes) ep in
      if forallb (fun o => if String.eqb o "" then match cands with [] => true | _ => false end
                           else existsb (String.eqb o) cands) observed
      then [] else [10%nat]
  end.

Fixpoint mismatches_from (k : nat) (cs : list nlcase) : list (nat * list nat) :=
  match cs with
  | [] => []
  | c :: r => match check c with [] => mismatches_from (S k) r | codes => (k, codes) :: mismatches_from (S k) r end
  end.
Definition mismatches (cs : list nlcase) := mismatches_from 0 cs.
