(* Correspondence evaluation for the failure-detector harness (harness/fd): runs the FD model on the
   calls the real accrualFailureDetector executed and compares, after every call, the integer state of
   the touched peer's window (present, sum, size, last timestamp) exactly, and every returned level
   (a Go float64, transported exactly as mantissa * 2^exponent) with the model's exact rational
   under relative tolerance 1e-9, plus the decision `level > 20` unless the exact value is within
   2e-9 (relative) of the threshold.  Evaluated with vm_compute.
   Transport: every number of a trace is written as a primitive 63-bit integer literal (parsed natively;
   decimal Z literals of 12-19 digits cost ~0.5 ms each to parse, a quick run has ~10^6 of them),
   biased by 2^61 so that negative values fit, and decoded to Z by [dz] before anything is compared. *)
From Coq Require Import List String ZArith Bool Uint63.
From Piko Require Import Base.Maps Base.Strs FD.FD.
Import ListNotations.
Open Scope list_scope.
Open Scope Z_scope.

(* transport decoding: x stands for the integer x - 2^61 *)
Definition bias : Z := 2305843009213693952.
Definition dz (x : int) : Z := Uint63.to_Z x - bias.

(* the level returned by SuspicionLevelAt: Lx = call was not a level query, Lp = the call panicked,
   Lv m e = returned the float64 whose exact value is (dz m) * 2^(dz e)  (m: 53-bit signed mantissa) *)
Inductive flevel := Lx | Lp | Lv (m e : int).

(* one call and what was observed right after it on the touched peer's window:
   St kind peer off present sum size last level
   kind 0 = ReportWithTimestamp, 1 = SuspicionLevelAt, 2 = Remove; peer = index into fc_ids;
   the call's timestamp is fc_base + off; last is reported as an offset from fc_base too;
   all numbers in transport encoding (see dz).
   Sr hdr off sum is the short form (three literals instead of eight; most steps are of this shape) of
   a Report after which the window was present with lastTimestamp = the call's timestamp:
   Sr hdr off sum = St 0 peer off true sum size off Lx  with hdr = peer + 4 * size (unbiased). *)
Inductive fstep :=
| St (kind peer off : int) (present : bool) (sum size last : int) (lv : flevel)
| Sr (hdr off sum : int).

Record fcase := { fc_n : int; fc_boot : int; fc_base : int; fc_ids : list string; fc_steps : list fstep }.

Definition tol_den : Z := 1000000000.   (* relative tolerance 1e-9 *)

(* |p/q - num/den| <= 1e-9 * |num/den|   (q > 0, den > 0) *)
Definition close_enough (num den p q : Z) : bool :=
  (0 <? q) && (0 <? den) && (Z.abs (p * den - num * q) * tol_den <=? Z.abs num * q).

(* exact value within 2e-9 (relative) of the threshold: decision not compared *)
Definition near_threshold (theta num den : Z) : bool :=
  Z.abs (num - theta * den) * tol_den <=? 2 * theta * den.

Definition level_codes (m : option (Z * Z)) (o : flevel) : list nat :=
  match m, o with
  | _, Lx => []
  | None, Lp => []
  | None, Lv _ _ => [5%nat]
  | Some _, Lp => [5%nat]
  | Some (num, den), Lv m e =>
      let e := dz e in
      let p := if 0 <=? e then dz m * 2 ^ e else dz m in
      let q := if 0 <=? e then 1 else 2 ^ (- e) in
      (if close_enough num den p q then [] else [6%nat])
      ++ (if near_threshold suspicionThreshold num den then []
          else if Bool.eqb (suspected suspicionThreshold (num, den)) (suspicionThreshold * q <? p) then [] else [7%nat])
  end.

Definition window_codes (base : Z) (w : option win) (present : bool) (sum size last : Z) : list nat :=
  match w with
  | None => if present then [1%nat] else []
  | Some w =>
      (if present then [] else [1%nat])
      ++ (if w_sum w =? sum then [] else [2%nat])
      ++ (if Z.of_nat (win_size w) =? size then [] else [3%nat])
      ++ (match w_last w with Some l => if l =? base + last then [] else [4%nat] | None => [4%nat] end)
  end.

Definition step_core (c : fcase) (d : fd) (base kind peer off : Z) (present : bool) (sum size last : Z) (lv : flevel)
  : option (fd * list nat) :=
  match nth_error (fc_ids c) (Z.to_nat peer) with
  | None => None
  | Some id =>
      let ts := base + off in
      let '(d', r) := if kind =? 0 then fd_step d (OReport id ts)
                      else if kind =? 1 then fd_step d (OLevel id ts)
                      else fd_step d (ORemove id) in
      Some (d', window_codes base (lookup id (d_wins d')) present sum size last
                ++ (if kind =? 1 then level_codes r lv else match lv with Lx => [] | _ => [8%nat] end))
  end.

Definition step_model (c : fcase) (base : Z) (d : fd) (s : fstep) : option (fd * list nat) :=
  match s with
  | St kind peer off present sum size last lv =>
      step_core c d base (dz kind) (dz peer) (dz off) present (dz sum) (dz size) (dz last) lv
  | Sr hdr off sum =>
      let hv := Uint63.to_Z hdr in
      let o := dz off in
      step_core c d base 0 (hv mod 4) o true (dz sum) (hv / 4) o Lx
  end.

(* first step at which model and implementation differ: (step index, codes); code 8 = malformed trace *)
Fixpoint first_mismatch (c : fcase) (base : Z) (d : fd) (i : nat) (ss : list fstep) : option (nat * list nat) :=
  match ss with
  | [] => None
  | s :: r =>
      match step_model c base d s with
      | None => Some (i, [8%nat])
      | Some (d', []) => first_mismatch c base d' (S i) r
      | Some (_, codes) => Some (i, codes)
      end
  end.

Definition check_case (c : fcase) : option (nat * list nat) :=
  let n := dz (fc_n c) in
  if (n <? 1) || (2000 <? n) then Some (0%nat, [8%nat])
  else first_mismatch c (dz (fc_base c)) (new_fd (dz (fc_boot c)) (Z.to_nat n)) 0%nat (fc_steps c).

Fixpoint mismatches_from (i : nat) (cs : list fcase) : list (nat * nat * list nat) :=
  match cs with
  | [] => []
  | c :: r =>
      match check_case c with
      | None => mismatches_from (S i) r
      | Some (s, codes) => (i, s, codes) :: mismatches_from (S i) r
      end
  end.

Definition mismatches (cs : list fcase) : list (nat * nat * list nat) := mismatches_from 0%nat cs.
