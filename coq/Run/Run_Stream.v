(* Correspondence runner for C07: replays the logged Read calls of a real pkg/websocket.Conn on the model
   (Stream/WsConn.v).  One case = one direction of one connection: the messages / injected frames the peer
   put on the wire, and every Conn.Read call of the reader as (len(buf), n, error class, bytes).  The observed
   n is the oracle; the model must accept it (return exactly n bytes), return the same bytes and the same
   error class.

   Payloads cross the boundary either literally (DLit, hex) or - for large transfers - as stream positions
   (DSeq off len = the bytes at positions off .. off+len-1 of what the writer sent): by C07_read_natural the
   model's behaviour on positions determines its behaviour on the bytes; props/C07.py checks that the
   observed bytes are the payload bytes at those positions before it emits a DSeq, and emits DBad otherwise. *)
From Coq Require Import List String NArith Bool.
From Piko Require Import Base.Strs Stream.WsConn.
Import ListNotations.
Open Scope N_scope.

Inductive cdata := DLit (s : string) | DSeq (off len : N) | DBad.

Fixpoint seqN (off : N) (len : nat) : list N :=
  match len with O => [] | S l => off :: seqN (N.succ off) l end.

Definition expand (d : cdata) : list N :=
  match d with
  | DLit s => bytes_of_string s
  | DSeq off len => seqN off (N.to_nat len)
  | DBad => []
  end.

Inductive cframe :=
| FBin (d : cdata) | FBinCut (d : cdata) (closed : bool) | FText (d : cdata) | FClose | FErr.

Definition frame_of (f : cframe) : frame N :=
  match f with
  | FBin d => Bin (expand d)
  | FBinCut d c => BinCut (expand d) c
  | FText d => Text (expand d)
  | FClose => CloseFrame
  | FErr => Err
  end.

(* error classes as the harness reports them: 0 nil, 1 net.ErrClosed, 2 other, 3 raw *websocket.CloseError *)
Definition err_code (e : rerr) : N :=
  match e with ENone => 0 | EClosed => 1 | EOther => 2 | ERawClose => 3 | EBlock => 9 end.

(* reads are run-length encoded as (repetitions, block) where a block is a list of
   (len(buf), n, error class); the bytes returned by all the reads are given once, concatenated, as a list
   of pieces *)
Record wcase := mkCase {
  wc_frames : list cframe;
  wc_reads : list (N * list (N * N * N));
  wc_data : list cdata
}.

Definition poison : N := 4611686018427387904.    (* never a byte value nor a stream position *)

Definition expand_obs (d : cdata) : list N :=
  match d with DBad => [poison] | _ => expand d end.

Fixpoint list_eqb (a b : list N) : bool :=
  match a, b with
  | [], [] => true
  | x :: a', y :: b' => N.eqb x y && list_eqb a' b'
  | _, _ => false
  end.

(* codes: 1 illegal-oracle (the model cannot return n bytes here), 2 data, 3 error class.
   [rest] = the observed bytes not yet accounted for *)
Definition check_read (c : conn N) (rest : list N) (rd : N * N * N) : conn N * list N * list nat :=
  match rd with
  | (buf, n, ec) =>
      let (c', r) := read c (N.to_nat buf) (N.to_nat n) false in
      let k := List.length (r_data r) in
      let codes :=
        (if N.eqb (err_code (r_err r)) ec then [] else [3%nat])
        ++ (if N.eqb (N.of_nat k) n
            then (if list_eqb (r_data r) (firstn k rest) then [] else [2%nat])
            else [1%nat]) in
      (c', skipn k rest, codes)
  end.

Fixpoint check_reads (c : conn N) (rest : list N) (rds : list (N * N * N)) (i : nat) : option (nat * list nat) :=
  match rds with
  | [] => match rest with [] => None | _ => Some (i, [2%nat]) end
  | rd :: more =>
      match check_read c rest rd with
      | (c', rest', codes) =>
          match codes with
          | [] => check_reads c' rest' more (S i)
          | _ => Some (i, codes)
          end
      end
  end.

Definition unroll (rds : list (N * list (N * N * N))) : list (N * N * N) :=
  flat_map (fun x => List.concat (List.repeat (snd x) (N.to_nat (fst x)))) rds.

Definition check_case (w : wcase) : option (nat * list nat) :=
  check_reads (mkConn None (map frame_of (wc_frames w)))
              (flat_map expand_obs (wc_data w)) (unroll (wc_reads w)) 0.

Fixpoint mismatches_from (i : nat) (cases : list wcase) : list (nat * nat * list nat) :=
  match cases with
  | [] => []
  | w :: rest =>
      match check_case w with
      | Some (s, codes) => (i, s, codes) :: mismatches_from (S i) rest
      | None => mismatches_from (S i) rest
      end
  end.

Definition mismatches (cases : list wcase) : list (nat * nat * list nat) := mismatches_from 0 cases.
