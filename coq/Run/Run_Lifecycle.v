(* Correspondence evaluation for the lifecycle harness (harness/lifecycle, property C16): runs the
   Lifecycle model on the events the real upstream.Server went through (with the recorded oracle
   choices: which sessions shedSessions picked, which upstreams answered ErrGone, when a token
   deadline was seen to fire) and compares, after every step, the balancers, Endpoints(), the
   advertised local endpoint counts, the session table and the set of refused handshakes.
   Evaluated with vm_compute. *)
From Coq Require Import List String NArith ZArith Bool Arith.
From Piko Require Import Base.Maps Base.Strs Lifecycle.Lifecycle.
Import ListNotations.
Open Scope string_scope. Open Scope list_scope.

Record lobs := { lo_bal : list (string * list string);   (* localUpstreams[e].upstreams as connection ids, in order *)
                 lo_endpoints : list (string * N);       (* LoadBalancedManager.Endpoints() *)
                 lo_cluster : list (string * N);         (* cluster.State.LocalNode().Endpoints *)
                 lo_nsess : N;                           (* Server.openSessions() *)
                 lo_sessions : list string;              (* connection ids in Server.sessions *)
                 lo_rejected : list string }.            (* handshakes the client saw refused so far *)

Fixpoint lremove_one (x : string) (l : list string) : option (list string) :=
  match l with
  | [] => None
  | y :: r => if String.eqb x y then Some r else option_map (cons y) (lremove_one x r)
  end.
Fixpoint lperm_eqb (l1 l2 : list string) : bool :=
  match l1 with
  | [] => match l2 with [] => true | _ => false end
  | x :: r => match lremove_one x l2 with Some l2' => lperm_eqb r l2' | None => false end
  end.
Fixpoint llist_eqb (l1 l2 : list string) : bool :=
  match l1, l2 with
  | [], [] => true
  | x :: r1, y :: r2 => String.eqb x y && llist_eqb r1 r2
  | _, _ => false
  end.

Definition bal_ok (s : state) (o : lobs) : bool :=
  Nat.eqb (List.length (lo_bal o)) (List.length (s_reg s))
  && forallb (fun el => match lookup (fst el) (s_reg s) with Some l => llist_eqb l (snd el) | None => false end) (lo_bal o).

Definition endpoints_ok (s : state) (o : lobs) : bool :=
  Nat.eqb (List.length (lo_endpoints o)) (List.length (s_reg s))
  && forallb (fun en => match lookup (fst en) (s_reg s) with
                        | Some l => N.eqb (N.of_nat (List.length l)) (snd en) | None => false end) (lo_endpoints o).

Definition cluster_ok (s : state) (o : lobs) : bool :=
  Nat.eqb (List.length (lo_cluster o)) (List.length (s_counts s))
  && forallb (fun en => match lookup (fst en) (s_counts s) with
                        | Some n => N.eqb (N.of_nat n) (snd en) | None => false end) (lo_cluster o).

Definition sessions_ok (s : state) (o : lobs) : bool :=
  lperm_eqb (s_sessions s) (lo_sessions o) && N.eqb (N.of_nat (List.length (s_sessions s))) (lo_nsess o).

Definition rejected_of (s : state) : list string :=
  map fst (filter (fun ck => match c_cause (snd ck) with Some CRejected => true | _ => false end) (s_conns s)).
Definition rejected_ok (s : state) (o : lobs) : bool := lperm_eqb (rejected_of s) (lo_rejected o).

(* run the events of one step; false when one of them was not enabled in the model *)
Fixpoint run_events (cfg : config) (s : state) (evs : list event) : state * bool :=
  match evs with
  | [] => (s, true)
  | ev :: r => let '(s1, ok1) := step cfg s ev in let '(s2, ok2) := run_events cfg s1 r in (s2, ok1 && ok2)
  end.

(* codes: 1 event not enabled (illegal oracle), 2 balancers, 3 Endpoints(), 4 advertised counts,
   5 session table, 6 refused handshakes *)
Definition check_step (s : state) (enabled : bool) (o : lobs) : list nat :=
  (if enabled then [] else [1%nat])
  ++ (if bal_ok s o then [] else [2%nat])
  ++ (if endpoints_ok s o then [] else [3%nat])
  ++ (if cluster_ok s o then [] else [4%nat])
  ++ (if sessions_ok s o then [] else [5%nat])
  ++ (if rejected_ok s o then [] else [6%nat]).

Fixpoint run_check (cfg : config) (s : state) (i : nat) (steps : list (list event * lobs)) : option (nat * list nat) :=
  match steps with
  | [] => None
  | (evs, o) :: r =>
      let '(s1, en) := run_events cfg s evs in
      match check_step s1 en o with
      | [] => run_check cfg s1 (S i) r
      | codes => Some (i, codes)
      end
  end.

Record lcase := { lc_cfg : config; lc_steps : list (list event * lobs) }.

Fixpoint mismatches_from (k : nat) (cs : list lcase) : list (nat * nat * list nat) :=
  match cs with
  | [] => []
  | c :: r =>
      match run_check (lc_cfg c) init 0 (lc_steps c) with
      | None => mismatches_from (S k) r
      | Some (i, codes) => (k, i, codes) :: mismatches_from (S k) r
      end
  end.
Definition mismatches (cs : list lcase) := mismatches_from 0 cs.

(* convenience constructors for generated case files *)
Definition Tok (exp : option Z) (permits : bool) : option token := Some {| tk_exp := exp; tk_permits := permits |}.
Definition Cfg (au dis : bool) : config := {| cfg_auth := au; cfg_disable_expiry := dis; cfg_d1_fixed := true |}.
Definition Obs (bal : list (string * list string)) (eps cl : list (string * N)) (n : N) (ss rj : list string) : lobs :=
  {| lo_bal := bal; lo_endpoints := eps; lo_cluster := cl; lo_nsess := n; lo_sessions := ss; lo_rejected := rj |}.
