(* Correspondence evaluation for the server/gossip harness: real syncer + cluster.State on top of the real
   gossip state of every node. The model = world model (Gossip/World.v) + one sstate per node fed with the
   model's watcher events. *)
From Coq Require Import List String NArith ZArith Bool.
From Piko Require Import Base.Maps Base.Strs Gossip.Types Gossip.Local Gossip.Apply Gossip.Codec Gossip.World.
From Piko Require Import Cluster.Syncer Run.Run_Gossip.
Import ListNotations.
Open Scope string_scope. Open Scope list_scope. Open Scope N_scope.

Inductive sop :=
| SG (o : wop)                               (* a gossip-level op *)
| SSync (n : nat) (order : list string)      (* syncer.Sync: order = endpoint ids in the order they were published *)
| SAddEp (n : nat) (ep : string)
| SRmEp (n : nat) (ep : string).

Record odump := { od_n : nat; od_nodes : list cnode; od_pending : list cnode; od_lookup : list (string * string) }.
Record sobs := { so_g : obs; so_dumps : list odump }.

Record sworld := { sw_w : world; sw_s : list sstate }.

Definition init_sworld (specs : list (string * string * string * string)) : sworld :=
  {| sw_w := init_world (map (fun x => let '(id, addr, _, _) := x in (id, addr)) specs);
     sw_s := map (fun x => let '(id, _, proxy, admin) := x in new_sstate id proxy admin) specs |}.

Definition feed (ss : list sstate) (evs : list (nat * event)) : list sstate :=
  fold_left (fun ss ne => match nth_error ss (fst ne) with
                          | Some s => set_nth (fst ne) (on_event s (snd ne)) ss
                          | None => ss end) evs ss.

Definition local_write (w : world) (n : nat) (kw : string * option string) : world :=
  match snd kw with
  | Some v => so_world (wstep w (WLocal n (LUpsert (fst kw) v)))
  | None => so_world (wstep w (WLocal n (LDelete (fst kw))))
  end.

Definition perm_strings (a b : list string) : bool := perm_eqb String.eqb a b.

(* returns the new world, the step output of the gossip part (for the shared checks) and oracle legality *)
Definition sstep (sw : sworld) (o : sop) : sworld * step_out * bool :=
  match o with
  | SG g =>
      let so := wstep (sw_w sw) g in
      ({| sw_w := so_world so; sw_s := feed (sw_s sw) (so_events so) |}, so, true)
  | SSync n order =>
      match nth_error (sw_s sw) n with
      | None => (sw, plain (sw_w sw), false)
      | Some s =>
          match lookup (ss_local s) (ss_nodes s) with
          | None => (sw, plain (sw_w sw), false)
          | Some me =>
              let ok := perm_strings order (keys (cn_eps me)) in
              let w1 := local_write (sw_w sw) n ("proxy_addr", Some (cn_proxy me)) in
              let w2 := local_write w1 n ("admin_addr", Some (cn_admin me)) in
              let w3 := fold_left (fun w ep => local_write w n ((endpoint_prefix ++ ep)%string, Some (itoa (local_count s ep)))) order w2 in
              let s' := {| ss_local := ss_local s; ss_nodes := ss_nodes s; ss_pending := ss_pending s; ss_synced := true |} in
              ({| sw_w := w3; sw_s := set_nth n s' (sw_s sw) |}, plain w3, ok)
          end
      end
  | SAddEp n ep =>
      match nth_error (sw_s sw) n with
      | None => (sw, plain (sw_w sw), false)
      | Some s =>
          let '(s', notify) := add_local_endpoint s ep in
          let w' := if notify && ss_synced s then local_write (sw_w sw) n (local_endpoint_write s' ep) else sw_w sw in
          ({| sw_w := w'; sw_s := set_nth n s' (sw_s sw) |}, plain w', true)
      end
  | SRmEp n ep =>
      match nth_error (sw_s sw) n with
      | None => (sw, plain (sw_w sw), false)
      | Some s =>
          let '(s', notify) := remove_local_endpoint s ep in
          let w' := if notify && ss_synced s then local_write (sw_w sw) n (local_endpoint_write s' ep) else sw_w sw in
          ({| sw_w := w'; sw_s := set_nth n s' (sw_s sw) |}, plain w', true)
      end
  end.

Definition eps_eqb (a : amap Z) (b : list (string * Z)) : bool :=
  perm_eqb (fun x y => String.eqb (fst x) (fst y) && Z.eqb (snd x) (snd y)) a b.

Definition cnode_eqb (n o : cnode) : bool :=
  String.eqb (cn_id n) (cn_id o) && nstatus_eqb (cn_status n) (cn_status o) && String.eqb (cn_proxy n) (cn_proxy o)
  && String.eqb (cn_admin n) (cn_admin o) && eps_eqb (cn_eps n) (cn_eps o).

Definition dump_ok (sw : sworld) (d : odump) : list nat :=
  match nth_error (sw_s sw) (od_n d) with
  | None => [10%nat]
  | Some s =>
      (if perm_eqb cnode_eqb (values (ss_nodes s)) (od_nodes d) then [] else [11%nat])
      ++ (if perm_eqb cnode_eqb (values (ss_pending s)) (od_pending d) then [] else [12%nat])
      ++ (if forallb (fun eg => let cands := lookup_candidates s (fst eg) in
                                if String.eqb (snd eg) "" then match cands with [] => true | _ => false end
                                else existsb (String.eqb (snd eg)) cands) (od_lookup d) then [] else [13%nat])
  end.

(* codes 1-7 as in Run_Gossip; 9 illegal sync order; 10 unknown node; 11 routing table; 12 pending nodes; 13 lookup *)
Definition scheck (sw' : sworld) (so : step_out) (ok : bool) (ob : sobs) : list nat :=
  check_step so (so_g ob) ++ (if ok then [] else [9%nat]) ++ flat_map (dump_ok sw') (so_dumps ob).

Fixpoint srun_check (sw : sworld) (i : nat) (steps : list (sop * sobs)) : option (nat * list nat) :=
  match steps with
  | [] => None
  | (o, ob) :: r =>
      let '(sw', so, ok) := sstep sw o in
      match scheck sw' so ok ob with
      | [] => srun_check sw' (S i) r
      | codes => Some (i, codes)
      end
  end.

Record scase := { sc_nodes : list (string * string * string * string); sc_steps : list (sop * sobs) }.

Fixpoint smismatches_from (k : nat) (cs : list scase) : list (nat * nat * list nat) :=
  match cs with
  | [] => []
  | c :: r =>
      match srun_check (init_sworld (sc_nodes c)) 0 (sc_steps c) with
      | None => smismatches_from (S k) r
      | Some (i, codes) => (k, i, codes) :: smismatches_from (S k) r
      end
  end.
Definition smismatches (cs : list scase) := smismatches_from 0 cs.
