(* Correspondence evaluation for the upstream harness (harness/upstream, package server/upstream): runs the
   manager model on the op list the real LoadBalancedManager + cluster.State + syncer + gossip state executed and
   compares every observable after every op. Evaluated with vm_compute from generated case files. *)
From Coq Require Import List String NArith ZArith Bool Arith.
From Piko Require Import Base.Maps Base.Strs Gossip.Types Gossip.Local Upstream.Balancer Upstream.Manager.
Import ListNotations.
Open Scope string_scope. Open Scope list_scope. Open Scope N_scope.

(* what Select returned: nothing asked | a local upstream uid | (nil, true) | a remote node id | (nil, false) *)
Inductive osel := ONoSel | OLocal (u : N) | ONil | ORemote (id : string) | ONone.

Record uobs := {
  uo_eps : list (string * N);          (* LoadBalancedManager.Endpoints() *)
  uo_local : list (string * N);        (* cluster.State.LocalNode().Endpoints *)
  uo_gver : N;                         (* version of the local gossip node *)
  uo_gents : list entry;               (* all entries of the local gossip node (tombstones included) *)
  uo_bal : list (string * list N * N); (* localUpstreams: endpoint, uids in slice order, nextIndex *)
  uo_sel : osel
}.

Section Perm.
  Context {A : Type} (eqb : A -> A -> bool).
  Fixpoint up_remove_one (x : A) (l : list A) : option (list A) :=
    match l with
    | [] => None
    | y :: r => if eqb x y then Some r else option_map (cons y) (up_remove_one x r)
    end.
  Fixpoint up_perm_eqb (l1 l2 : list A) : bool :=
    match l1 with
    | [] => match l2 with [] => true | _ => false end
    | x :: r => match up_remove_one x l2 with Some l2' => up_perm_eqb r l2' | None => false end
    end.
  Fixpoint up_list_eqb (l1 l2 : list A) : bool :=
    match l1, l2 with
    | [], [] => true
    | x :: r1, y :: r2 => eqb x y && up_list_eqb r1 r2
    | _, _ => false
    end.
End Perm.

Definition sn_eqb (a b : string * N) : bool := String.eqb (fst a) (fst b) && N.eqb (snd a) (snd b).
Definition bal_eqb (a b : string * list N * N) : bool :=
  let '(e1, l1, n1) := a in let '(e2, l2, n2) := b in
  String.eqb e1 e2 && up_list_eqb N.eqb l1 l2 && N.eqb n1 n2.

Definition model_eps (s : mstate) : list (string * N) :=
  map (fun kv => (fst kv, N.of_nat (snd kv))) (endpoints s).
Definition model_bal (s : mstate) : list (string * list N * N) :=
  map (fun kv => (fst kv, ups (snd kv), N.of_nat (nxt (snd kv)))) (m_lbs s).

Definition sel_ok (m : option sel) (o : osel) : bool :=
  match m, o with
  | None, ONoSel => true
  | Some (SLocal u), OLocal u' => N.eqb u u'
  | Some SNil, ONil => true
  | Some (SRemote c), ORemote id => existsb (String.eqb id) c
  | Some SNone, ONone => true
  | _, _ => false
  end.

(* codes: 1 Endpoints(), 2 cluster local endpoints, 3 gossip state, 4 selection result, 5 balancer internals *)
Definition check_step (s : mstate) (r : option sel) (ob : uobs) : list nat :=
  (if up_perm_eqb sn_eqb (model_eps s) (uo_eps ob) then [] else [1%nat])
  ++ (if up_perm_eqb sn_eqb (m_counts s) (uo_local ob) then [] else [2%nat])
  ++ (if N.eqb (n_ver (m_gossip s)) (uo_gver ob)
         && up_perm_eqb entry_eqb (values (n_ents (m_gossip s))) (uo_gents ob)
         && forallb (fun kv => String.eqb (fst kv) (e_key (snd kv))) (n_ents (m_gossip s))
      then [] else [3%nat])
  ++ (if sel_ok r (uo_sel ob) then [] else [4%nat])
  ++ (if up_perm_eqb bal_eqb (model_bal s) (uo_bal ob) then [] else [5%nat]).

Fixpoint run_check (s : mstate) (i : nat) (steps : list (mop * uobs)) : option (nat * list nat) :=
  match steps with
  | [] => None
  | (o, ob) :: r =>
      let '(s', res) := mstep s o in
      match check_step s' res ob with
      | [] => run_check s' (S i) r
      | codes => Some (i, codes)
      end
  end.

Record ucase := { uc_id : string; uc_gaddr : string; uc_paddr : string; uc_aaddr : string;
                  uc_steps : list (mop * uobs) }.

Definition uc_init (c : ucase) : mstate := minit (uc_id c) (uc_gaddr c) (uc_paddr c) (uc_aaddr c).

Fixpoint mismatches_from (k : nat) (cs : list ucase) : list (nat * nat * list nat) :=
  match cs with
  | [] => []
  | c :: r =>
      match run_check (uc_init c) 0 (uc_steps c) with
      | None => mismatches_from (S k) r
      | Some (i, codes) => (k, i, codes) :: mismatches_from (S k) r
      end
  end.
Definition mismatches (cs : list ucase) := mismatches_from 0 cs.

(* ---- concurrent mode: the same multiset of AddConn/RemoveConn calls ran from several goroutines; only the
   quiescent state is compared, and only its order-independent part (counts, live gossip key/values, balancer
   contents as multisets). cc_ops is one linearisation that respects the per-upstream order. ---- *)
Record ccase := { cc_id : string; cc_gaddr : string; cc_paddr : string; cc_aaddr : string;
                  cc_ops : list mop;
                  cc_eps : list (string * N); cc_local : list (string * N);
                  cc_live : list (string * string); cc_bal : list (string * list N) }.

Definition ss_eqb (a b : string * string) : bool := String.eqb (fst a) (fst b) && String.eqb (snd a) (snd b).
Definition live_entries (g : node_state) : list (string * string) :=
  map (fun kv => (fst kv, e_val (snd kv))) (filter (fun kv => negb (e_del (snd kv)) && negb (e_int (snd kv))) (n_ents g)).
Definition cbal_eqb (a b : string * list N) : bool :=
  String.eqb (fst a) (fst b) && up_perm_eqb N.eqb (snd a) (snd b).

Definition ccheck (c : ccase) : list nat :=
  let s := mrun (minit (cc_id c) (cc_gaddr c) (cc_paddr c) (cc_aaddr c)) (cc_ops c) in
  (if up_perm_eqb sn_eqb (model_eps s) (cc_eps c) then [] else [1%nat])
  ++ (if up_perm_eqb sn_eqb (m_counts s) (cc_local c) then [] else [2%nat])
  ++ (if up_perm_eqb ss_eqb (live_entries (m_gossip s)) (cc_live c) then [] else [3%nat])
  ++ (if up_perm_eqb cbal_eqb (map (fun kv => (fst kv, ups (snd kv))) (m_lbs s)) (cc_bal c) then [] else [5%nat]).

Fixpoint cmismatches_from (k : nat) (cs : list ccase) : list (nat * nat * list nat) :=
  match cs with
  | [] => []
  | c :: r =>
      match ccheck c with
      | [] => cmismatches_from (S k) r
      | codes => (k, O, codes) :: cmismatches_from (S k) r
      end
  end.
Definition cmismatches (cs : list ccase) := cmismatches_from 0 cs.

(* ---- monomorphic transport types for generated case files: elaborating a big literal built from polymorphic
   list/pair/record notations costs milliseconds per node, constructor applications without implicit arguments do
   not. The generated files use these and the functions below turn them into the types above. ---- *)
Inductive t_sn := SN0 | SN1 (e : string) (n : N) (r : t_sn).
Inductive t_sz := SZ0 | SZ1 (e : string) (n : Z) (r : t_sz).
Inductive t_ss := SS0 | SS1 (k v : string) (r : t_ss).
Inductive t_n := NN0 | NN1 (n : N) (r : t_n).
Inductive t_ent := EN0 | EN1 (k v : string) (ver : N) (i d : bool) (r : t_ent).
Inductive t_bal := BL0 | BL1 (e : string) (us : t_n) (next : N) (r : t_bal).
Inductive t_cbal := CB0 | CB1 (e : string) (us : t_n) (r : t_cbal).
Inductive t_op :=
| TAdd (u : N) (e : string) | TRemove (u : N) (e : string) | TSelect (e : string) (allow : bool)
| TAddNode (id status : string) (eps : t_sz) | TRemoveNode (id : string) | TStatus (id status : string)
| TRemoteEp (id e : string) (n : Z) | TRemoteEpDel (id e : string).
Inductive t_ops := OP0 | OP1 (o : t_op) (r : t_ops).
Inductive t_steps :=
| ST0
| ST1 (o : t_op) (eps loc : t_sn) (gver : N) (gents : t_ent) (bal : t_bal) (sel : osel) (r : t_steps).
Inductive t_cases := UC0 | UC1 (id gaddr paddr aaddr : string) (steps : t_steps) (r : t_cases).
Inductive t_ccases :=
| CC0
| CC1 (id gaddr paddr aaddr : string) (ops : t_ops) (eps loc : t_sn) (live : t_ss) (bal : t_cbal) (r : t_ccases).

Fixpoint of_sn (l : t_sn) : list (string * N) := match l with SN0 => [] | SN1 e n r => (e, n) :: of_sn r end.
Fixpoint of_sz (l : t_sz) : list (string * Z) := match l with SZ0 => [] | SZ1 e n r => (e, n) :: of_sz r end.
Fixpoint of_ss (l : t_ss) : list (string * string) := match l with SS0 => [] | SS1 k v r => (k, v) :: of_ss r end.
Fixpoint of_n (l : t_n) : list N := match l with NN0 => [] | NN1 n r => n :: of_n r end.
Fixpoint of_ent (l : t_ent) : list entry :=
  match l with EN0 => [] | EN1 k v ver i d r => mk_entry k v ver i d :: of_ent r end.
Fixpoint of_bal (l : t_bal) : list (string * list N * N) :=
  match l with BL0 => [] | BL1 e us nx r => (e, of_n us, nx) :: of_bal r end.
Fixpoint of_cbal (l : t_cbal) : list (string * list N) :=
  match l with CB0 => [] | CB1 e us r => (e, of_n us) :: of_cbal r end.
Definition of_op (o : t_op) : mop :=
  match o with
  | TAdd u e => MAdd u e | TRemove u e => MRemove u e | TSelect e a => MSelect e a
  | TAddNode id st eps => MAddNode id st (fold_right (fun kv m => insert (fst kv) (snd kv) m) [] (of_sz eps))
  | TRemoveNode id => MRemoveNode id | TStatus id st => MStatus id st
  | TRemoteEp id e n => MRemoteEp id e n | TRemoteEpDel id e => MRemoteEpDel id e
  end.
Fixpoint of_ops (l : t_ops) : list mop := match l with OP0 => [] | OP1 o r => of_op o :: of_ops r end.
Fixpoint of_steps (l : t_steps) : list (mop * uobs) :=
  match l with
  | ST0 => []
  | ST1 o eps loc gver gents bal sel r =>
      (of_op o, {| uo_eps := of_sn eps; uo_local := of_sn loc; uo_gver := gver; uo_gents := of_ent gents;
                   uo_bal := of_bal bal; uo_sel := sel |}) :: of_steps r
  end.
Fixpoint of_cases (l : t_cases) : list ucase :=
  match l with
  | UC0 => []
  | UC1 id g p a steps r =>
      {| uc_id := id; uc_gaddr := g; uc_paddr := p; uc_aaddr := a; uc_steps := of_steps steps |} :: of_cases r
  end.
Fixpoint of_ccases (l : t_ccases) : list ccase :=
  match l with
  | CC0 => []
  | CC1 id g p a ops eps loc live bal r =>
      {| cc_id := id; cc_gaddr := g; cc_paddr := p; cc_aaddr := a; cc_ops := of_ops ops; cc_eps := of_sn eps;
         cc_local := of_sn loc; cc_live := of_ss live; cc_bal := of_cbal bal |} :: of_ccases r
  end.

Definition t_mismatches (l : t_cases) := mismatches (of_cases l).
Definition t_cmismatches (l : t_ccases) := cmismatches (of_ccases l).

(* ---- direct balancer mode: ops on a bare loadBalancer, incl. Remove / Next on an empty one. After every op the
   slice, nextIndex, the result of Next and the bool returned by Remove are compared (code 6). ---- *)
Inductive t_bsteps := BS0 | BS1 (o : bop) (us : t_n) (next : N) (res : osel) (ret : N) (r : t_bsteps).
Inductive t_bcases := BC0 | BC1 (steps : t_bsteps) (r : t_bcases).

Definition bstep_ok (b : lb) (o : bop) (us : list N) (next : N) (res : osel) (ret : N) : lb * bool :=
  let '(b', outs) := lb_step b o in
  (b',
   up_list_eqb N.eqb (ups b') us && N.eqb (N.of_nat (nxt b')) next
   && match o, outs, res with
      | BNext, [Some u], OLocal u' => N.eqb u u'
      | BNext, [None], ONil => true
      | BNext, _, _ => false
      | _, _, ONoSel => true
      | _, _, _ => false
      end
   && match o with
      | BRemove u => N.eqb ret (if snd (lb_remove u b) then 1 else 0)
      | _ => true
      end).

Fixpoint brun_check (b : lb) (i : nat) (steps : t_bsteps) : option (nat * list nat) :=
  match steps with
  | BS0 => None
  | BS1 o us next res ret r =>
      let '(b', ok) := bstep_ok b o (of_n us) next res ret in
      if ok then brun_check b' (S i) r else Some (i, [6%nat])
  end.

Fixpoint t_bmismatches_from (k : nat) (cs : t_bcases) : list (nat * nat * list nat) :=
  match cs with
  | BC0 => []
  | BC1 steps r =>
      match brun_check lb_empty 0 steps with
      | None => t_bmismatches_from (S k) r
      | Some (i, codes) => (k, i, codes) :: t_bmismatches_from (S k) r
      end
  end.
Definition t_bmismatches (cs : t_bcases) := t_bmismatches_from 0 cs.
