(* Correspondence evaluation for the DYNAMIC clusters of the proxy harness: one continuous run of the real servers in
   which upstreams connect, disconnect, announce go-away or change behaviour between requests. The registry changes the
   proxies make themselves (deregistering an upstream whose dial answered ErrGone) are NOT fed in: the model
   (Proxy/Dynamic.v after_request) has to predict them. Evaluated with vm_compute. *)
From Coq Require Import List String Ascii NArith ZArith Bool Arith.
From Piko Require Import Base.Maps Base.Strs Proxy.Endpoint Proxy.Http Proxy.Route Proxy.Dynamic Run.Run_Proxy.
Import ListNotations.
Open Scope string_scope. Open Scope list_scope.

Inductive dyn_item := DOp (o : dop) | DReq (q : preq) (o : pobs).
Record dcase := mkDC { dc_nodes : list pnode; dc_gone : list string; dc_items : list dyn_item }.

(* the deliveries (over all oracle values) that reproduce status, stamp and invocation counts *)
Definition cands (c : cluster) (q : preq) (o : pobs) : list result :=
  let rs := map (fun ab => deliver c (env_of q (fst ab) (snd ab)) (q_entry q) (q_req q)) (oracles_for c) in
  filter (fun r => inv_ok (List.length c) (q_entry q) r o)
         (filter (fun r => let '(s, m) := predicted_status (q_req q) r in N.eqb s (ob_status o) && stamp_eqb m (ob_stamp o)) rs).

Fixpoint dcheck (s : dstate) (i : nat) (l : list dyn_item) : list (nat * list nat) :=
  match l with
  | [] => []
  | DOp o :: r => dcheck (fst (dstep s o)) (S i) r
  | DReq q o :: r =>
      let c := as_seen s in
      let s' := match cands c q o with res :: _ => after_request s res | [] => s end in
      match check_req c q o with
      | [] => dcheck s' (S i) r
      | cs => (i, cs) :: dcheck s' (S i) r
      end
  end.

Fixpoint dyn_mismatches_from (ci : nat) (cases : list dcase) : list (nat * nat * list nat) :=
  match cases with
  | [] => []
  | dc :: r =>
      map (fun ic => (ci, fst ic, snd ic)) (dcheck (mkD (cluster_of (dc_nodes dc)) (dc_gone dc)) 0 (dc_items dc))
      ++ dyn_mismatches_from (S ci) r
  end.

Definition dyn_mismatches (cases : list dcase) : list (nat * nat * list nat) := dyn_mismatches_from 0 cases.
