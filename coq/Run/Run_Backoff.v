(* Correspondence evaluation for pkg/backoff and the reconnection loop of client/upstream.go (NodeLoss/Backoff.v).
   A case is what the real code did: the waits it handed out (the jitter oracle) and its verdicts; the model re-executes
   the calls with those oracle values and reports
     1  a call aborted / did not abort where the model says otherwise (or an aborting call returned a non-zero wait)
     2  a wait that is not a legal jitter outcome for the model's base wait at that call
     3  (connect cases) the loop announced a wait although the model's loop has none left / a different number of retries
     4  (classification cases) the number of dials or the way the loop ended differs from connect_script *)
From Coq Require Import List ZArith Bool.
From Piko Require Import NodeLoss.Backoff.
Import ListNotations.
Local Open Scope Z_scope.

Inductive bcase :=
| BRaw (retries minb maxb : Z) (obs : list (Z * bool))       (* backoff.New(retries,min,max); obs = (wait, ok) per call *)
| BConnect (cfg_min cfg_max : Z) (waits : list Z) (fails : Z)  (* Upstream.connect with these fields; waits announced; failed dials seen *)
| BClass (status : Z) (fails attempts : nat) (connected : bool). (* the server fails the first `fails` handshakes with `status` (0 = no answer), then accepts;
                                                                    attempts seen at the server, whether connect returned a session *)

Fixpoint check_obs (b : bo) (obs : list (Z * bool)) : list nat :=
  match obs with
  | [] => []
  | (w, ok) :: r =>
      match backoff_step b w with
      | None => if ok || negb (w =? 0) then [1%nat] else check_obs b r
      | Some (b', _) =>
          if negb ok then [1%nat]
          else if valid_wait (base_wait b) w then check_obs b' r else [2%nat]
      end
  end.

Definition check (c : bcase) : list nat :=
  match c with
  | BRaw r mn mx obs => check_obs (bo_new r mn mx) obs
  | BClass status fails attempts connected =>
      let r := if status =? 0 then DRNoResponse else DRStatus status in
      match connect_script (repeat r fails ++ [DRConnected]) with
      | (n, Some c) => if Nat.eqb n attempts && Bool.eqb c connected then [] else [4%nat]
      | (_, None) => [4%nat]
      end
  | BConnect cmin cmax waits fails =>
      (if Z.of_nat (length waits) =? fails then [] else [3%nat]) ++
      check_obs (connect_backoff cmin cmax) (map (fun w => (w, true)) waits)
  end.

Fixpoint mismatches_from (k : nat) (cs : list bcase) : list (nat * list nat) :=
  match cs with
  | [] => []
  | c :: r => match check c with [] => mismatches_from (S k) r | codes => (k, codes) :: mismatches_from (S k) r end
  end.
Definition mismatches (cs : list bcase) := mismatches_from 0 cs.
