(* Correspondence evaluation for the rebalance harness (harness/rebalance, property C19): runs the model of
   Server.Rebalance on the configuration the real code was given and compares every observable
   (len(Nodes()), AvgConns(), number of sessions closed by one Rebalance() call). Evaluated with vm_compute. *)
From Coq Require Import List ZArith Bool.
From Piko Require Import Rebalance.Rebalance.
Import ListNotations.
Open Scope Z_scope.

(* one configuration and what the real code did with it *)
Record rcase := {
  rc_thr : Z;                       (* math.Float64bits of Threshold *)
  rc_rate : Z;                      (* math.Float64bits of ShedRate *)
  rc_min_conns : Z;                 (* MinConns (uint) *)
  rc_open : Z;                      (* observed openSessions() before the call *)
  rc_local : list Z;                (* endpoint counts of the local node *)
  rc_remotes : list (nat * list Z); (* status code (0 active, 1 unreachable, 2 left / anything else), endpoint counts *)
  rc_obs_nodes : Z;                 (* observed len(cluster.Nodes()) *)
  rc_obs_avg : Z;                   (* observed cluster.AvgConns() *)
  rc_obs_closed : Z                 (* observed number of sessions closed by ONE Rebalance() *)
}.

Definition status_of_code (n : nat) : status :=
  match n with O => SActive | S O => SUnreachable | _ => SLeft end.

Definition cluster_of (c : rcase) : cluster :=
  {| cl_local := rc_local c;
     cl_remotes := map (fun p => {| n_status := status_of_code (fst p); n_endpoints := snd p |}) (rc_remotes c) |}.

Definition config_of (c : rcase) : config :=
  {| c_threshold := f64_of_bits (rc_thr c); c_shed_rate := f64_of_bits (rc_rate c); c_min_conns := rc_min_conns c |}.

(* codes: 1 = number of known nodes, 2 = average, 3 = sessions closed *)
Definition check_case (c : rcase) : list nat * Z :=
  let cl := cluster_of c in
  let k := rebalance (config_of c) (rc_open c) cl in
  ((if known_nodes cl =? rc_obs_nodes c then [] else [1%nat])
   ++ (if avg_conns cl =? rc_obs_avg c then [] else [2%nat])
   ++ (if k =? rc_obs_closed c then [] else [3%nat]), k).

Fixpoint mismatches_from (i : nat) (cs : list rcase) : list (nat * list nat * Z) :=
  match cs with
  | [] => []
  | c :: r =>
      match check_case c with
      | ([], _) => mismatches_from (S i) r
      | (codes, k) => (i, codes, k) :: mismatches_from (S i) r
      end
  end.

(* per case index: the differing observables and the number of sessions the MODEL closes *)
Definition mismatches (cs : list rcase) := mismatches_from 0 cs.

(* Scheduling harness (harness/rebalance_sched): the real rebalance loop of server/server.go ran for an observation
   window of at least two ticks on the configuration; rc_obs_closed = sessions closed by the server in that window.
   While nothing is closed the state does not change, so: something is closed in the window  <->  the model's
   [tick] (which includes the `Threshold != 0` guard) closes something in the initial state.  code 4 *)
Definition sched_check_case (c : rcase) : list nat * Z :=
  let cl := cluster_of c in
  let k := tick (config_of c) (rc_open c) cl in
  ((if known_nodes cl =? rc_obs_nodes c then [] else [1%nat])
   ++ (if avg_conns cl =? rc_obs_avg c then [] else [2%nat])
   ++ (if Bool.eqb (0 <? k) (0 <? rc_obs_closed c) then [] else [4%nat]), k).

Fixpoint sched_mismatches_from (i : nat) (cs : list rcase) : list (nat * list nat * Z) :=
  match cs with
  | [] => []
  | c :: r =>
      match sched_check_case c with
      | ([], _) => sched_mismatches_from (S i) r
      | (codes, k) => (i, codes, k) :: sched_mismatches_from (S i) r
      end
  end.
Definition sched_mismatches (cs : list rcase) := sched_mismatches_from 0 cs.

(* constructor used by generated case files *)
Definition RC thr rate minc opn loc rem onodes oavg oclosed : rcase :=
  {| rc_thr := thr; rc_rate := rate; rc_min_conns := minc; rc_open := opn; rc_local := loc; rc_remotes := rem;
     rc_obs_nodes := onodes; rc_obs_avg := oavg; rc_obs_closed := oclosed |}.
