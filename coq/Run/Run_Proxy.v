(* Correspondence evaluation for the proxy harness (harness/proxy): the cluster model is run on the clusters and
   requests the REAL proxy servers handled and compared with what was observed. Evaluated with vm_compute.
   The nondeterministic choices of the real code (map iteration in LookupEndpoint, balancer cursor) are not
   recorded: a request agrees with the model when SOME oracle value reproduces the observation. *)
From Coq Require Import List String Ascii NArith ZArith Bool Arith.
From Piko Require Import Base.Maps Base.Strs Proxy.Endpoint Proxy.Http Proxy.Route.
Import ListNotations.
Open Scope string_scope. Open Scope list_scope.

Record pnode := mkPN { pn_id : string; pn_addr : string; pn_timeout : Z; pn_ups : list upstream; pn_view : list ventry }.

Record pobs := mkOb {
  ob_status : N;
  ob_stamp : option (string * string);     (* (endpoint, upstream id) stamped by the upstream that answered *)
  ob_inv : list nat;                       (* proxy handler invocations per node *)
  ob_upreqs : list request;                (* every request the upstreams recorded for this client request *)
  ob_resp_headers : list header;           (* response headers the client saw (canonicalised by the python side) *)
  ob_resp_body : string }.                 (* digest of the response body the client saw *)

Record preq := mkPQ { q_entry : nat; q_req : request; q_resp : response }.

Record pcase := mkPC { pc_nodes : list pnode; pc_reqs : list (preq * pobs) }.

Definition cluster_of (ns : list pnode) : cluster :=
  map (fun p => build_node (pn_id p) (pn_addr p) (pn_timeout p) (pn_ups p) (pn_view p)) ns.

Definition env_of (q : preq) (kn ku : nat) : env :=
  mkEnv true "127.0.0.1" None (fun _ _ => q_resp q) kn ku.

(* headers that the comparison leaves out on both sides, with the reason:
   Content-Length / Transfer-Encoding   framing is re-done by every hop; the body itself is compared
   Accept-Encoding                      http.Transport adds "gzip" when the client sent none (python drops only that value) *)
Definition req_excluded : list string := ["Content-Length"; "Transfer-Encoding"].
Definition resp_excluded : list string := ["Content-Length"; "Transfer-Encoding"; "Date"].

Fixpoint names_of (hs : list header) : list string :=
  match hs with [] => [] | (k, _) :: r => k :: names_of r end.

Fixpoint list_eqb (a b : list string) : bool :=
  match a, b with
  | [], [] => true
  | x :: r, y :: s => String.eqb x y && list_eqb r s
  | _, _ => false
  end.

(* equality of two header maps: every name has the same value list on both sides *)
Definition headers_eqb (a b : list header) : bool :=
  forallb (fun nm => list_eqb (hvalues nm a) (hvalues nm b)) (names_of a ++ names_of b).

Definition opt_eqb (a b : option string) : bool :=
  match a, b with Some x, Some y => String.eqb x y | None, None => true | _, _ => false end.

Definition request_eqb (excluded : list string) (a b : request) : list nat :=
  (if String.eqb (r_method a) (r_method b) && String.eqb (r_path a) (r_path b) && opt_eqb (r_query a) (r_query b)
      && String.eqb (r_host a) (r_host b) && String.eqb (r_body a) (r_body b) then [] else [3])
  ++ (if headers_eqb (hdel_all excluded (r_headers a)) (hdel_all excluded (r_headers b)) then [] else [4]).

Definition is_tcp (rq : request) : bool := match route_of rq with RTcp _ => true | RHttp => false end.

Definition stamp_eqb (a b : option (string * string)) : bool :=
  match a, b with
  | Some (x1, y1), Some (x2, y2) => String.eqb x1 x2 && String.eqb y1 y2
  | None, None => true
  | _, _ => false
  end.

(* status and stamp the model predicts for a result *)
Definition predicted_status (rq : request) (r : result) : N * option (string * string) :=
  match res_out r with
  | Status s => (s, None)
  | Served _ u rs =>
      if is_tcp rq then (101%N, match u_beh u with UReset => None | _ => Some (u_ep u, u_id u) end)
      else (s_status rs, Some (u_ep u, u_id u))
  end.

Fixpoint inv_counts (n : nat) (k : nat) (r : result) : list nat :=
  match n with O => [] | S n' => invocations_on k r :: inv_counts n' (S k) r end.

Fixpoint nat_list_eqb (a b : list nat) : bool :=
  match a, b with
  | [], [] => true
  | x :: r, y :: s => Nat.eqb x y && nat_list_eqb r s
  | _, _ => false
  end.

Fixpoint nat_list_leb (a b : list nat) : bool :=
  match a, b with
  | [], [] => true
  | x :: r, y :: s => Nat.leb x y && nat_list_leb r s
  | _, _ => false
  end.

(* invocation counts: exact; when a gateway timeout cut the request short the nodes behind the one that
   timed out may not have been invoked yet when the client got its 504, so then observed <= predicted with
   the entry node exact *)
Definition inv_ok (nn : nat) (entry : nat) (r : result) (o : pobs) : bool :=
  let pred := inv_counts nn 0 r in
  match res_out r with
  | Status 504%N => nat_list_leb (ob_inv o) pred && Nat.eqb (nth entry (ob_inv o) 0) (nth entry pred 0)
  | _ => nat_list_eqb (ob_inv o) pred
  end.

(* request seen by the upstream and response seen by the client, when the model says Served over HTTP *)
Definition payload_codes (q : preq) (r : result) (o : pobs) : list nat :=
  match res_out r with
  | Served _ _ rs =>
      if is_tcp (q_req q) then []
      else
        (match res_upreq r, ob_upreqs o with
         | Some p, [a] => request_eqb req_excluded p a
         | _, _ => [3]
         end)
        ++ (if headers_eqb (hdel_all resp_excluded (s_headers rs)) (hdel_all resp_excluded (ob_resp_headers o))
               && String.eqb (s_body rs) (ob_resp_body o) then [] else [5])
  | Status _ => []
  end.

(* pick works modulo the length of the candidate list, so enumerating 0 .. (largest list - 1) covers every choice *)
Definition max_list (l : list nat) : nat := fold_left Nat.max l 1.
Definition oracles_for (c : cluster) : list (nat * nat) :=
  let nv := max_list (map (fun n => List.length (n_view n)) c) in
  let nu := max_list (map (fun n => max_list (map (fun kv => List.length (snd kv)) (n_local n))) c) in
  flat_map (fun a => map (fun b => (a, b)) (seq 0 nu)) (seq 0 nv).

(* codes: 1 no oracle reproduces status+stamp, 2 none of those reproduces the invocation counts,
   3 request line/host/body at the upstream, 4 request headers at the upstream, 5 response at the client *)
Definition check_req (c : cluster) (q : preq) (o : pobs) : list nat :=
  let rs := map (fun ab => deliver c (env_of q (fst ab) (snd ab)) (q_entry q) (q_req q)) (oracles_for c) in
  let st := filter (fun r => let '(s, m) := predicted_status (q_req q) r in N.eqb s (ob_status o) && stamp_eqb m (ob_stamp o)) rs in
  match st with
  | [] => [1]
  | _ =>
      match filter (fun r => inv_ok (List.length c) (q_entry q) r o) st with
      | [] => [2]
      | cand =>
          (* all surviving oracles chose the same upstream, take the best payload verdict *)
          fold_left (fun best r => let cs := payload_codes q r o in
                                   if Nat.leb (List.length cs) (List.length best) then cs else best)
                    cand [3; 4; 5]
      end
  end.

Fixpoint check_reqs (c : cluster) (i : nat) (l : list (preq * pobs)) : list (nat * list nat) :=
  match l with
  | [] => []
  | (q, o) :: r =>
      match check_req c q o with
      | [] => check_reqs c (S i) r
      | cs => (i, cs) :: check_reqs c (S i) r
      end
  end.

Fixpoint mismatches_from (ci : nat) (cases : list pcase) : list (nat * nat * list nat) :=
  match cases with
  | [] => []
  | pc :: r =>
      map (fun ic => (ci, fst ic, snd ic)) (check_reqs (cluster_of (pc_nodes pc)) 0 (pc_reqs pc))
      ++ mismatches_from (S ci) r
  end.

Definition mismatches (cases : list pcase) : list (nat * nat * list nat) := mismatches_from 0 cases.

(* direct comparison of EndpointIDFromRequest with the model: (x-piko-endpoint value, Host, observed result) *)
Fixpoint host_mismatches_from (i : nat) (l : list (string * string * string)) : list nat :=
  match l with
  | [] => []
  | (hdr, host, got) :: r =>
      if String.eqb (endpoint_id_from_request hdr host) got then host_mismatches_from (S i) r
      else i :: host_mismatches_from (S i) r
  end.

Definition host_mismatches (l : list (string * string * string)) : list nat := host_mismatches_from 0 l.
