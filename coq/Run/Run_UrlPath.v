(* Correspondence for Proxy/UrlPath.v: what the real client renders for an endpoint id (client.Dialer.dialURL,
   client.Upstream.listenURL) and what the real net/http request parser + a gin engine with piko's route patterns make of it.
   codes: 1 the escaped path differs from escape_path, 2 the routed endpoint id (or its absence) differs from dialled_endpoint *)
From Coq Require Import List String Ascii NArith Bool.
From Piko Require Import Base.Strs Proxy.UrlPath.
Import ListNotations.
Local Open Scope string_scope.

Record ucase := { uc_tcp : bool; uc_id : string; uc_escaped : string; uc_param : option string }.

Definition opt_str_eqb (a b : option string) : bool :=
  match a, b with Some x, Some y => String.eqb x y | None, None => true | _, _ => false end.

Definition check (c : ucase) : list nat :=
  let prefix := if uc_tcp c then tcp_prefix else upstream_prefix in
  (if String.eqb (escape_path (prefix ++ uc_id c)) (uc_escaped c) then [] else [1%nat]) ++
  (if opt_str_eqb (dialled_endpoint prefix (uc_id c)) (uc_param c) then [] else [2%nat]).

Fixpoint mismatches_from (k : nat) (cs : list ucase) : list (nat * list nat) :=
  match cs with
  | [] => []
  | c :: r => match check c with [] => mismatches_from (S k) r | codes => (k, codes) :: mismatches_from (S k) r end
  end.
Definition mismatches (cs : list ucase) := mismatches_from 0 cs.
