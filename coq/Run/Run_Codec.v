(* Correspondence evaluation for the wire encoder: for one content, the real encodeDigest/encodeDelta was run
   for every max in a sweep; the model must produce the same full encoding, the same error/length at every max
   and the same cut (what the real decoder saw). *)
From Coq Require Import List String NArith ZArith Bool.
From Piko Require Import Base.Maps Base.Strs Gossip.Types Gossip.Codec Run.Run_Gossip.
Import ListNotations.
Open Scope string_scope. Open Scope list_scope. Open Scope N_scope.

Definition shape := list (string * N).
Record ccase := { cc_digest : bool; cc_id : string; cc_addr : string; cc_req : bool;
                  cc_dig : list dig_entry; cc_delta : list delta_entry;
                  cc_full : string;                                  (* real encoding with no limit *)
                  cc_sweep : list (N * option (N * shape)) }.        (* max -> error | (length, decoded shape) *)

Definition shape_eqb (a b : shape) : bool :=
  list_eqb (fun x y => String.eqb (fst x) (fst y) && N.eqb (snd x) (snd y)) a b.

Definition model_at (c : ccase) (max : N) : option (N * shape) :=
  if cc_digest c then
    match cut_digest (cc_id c) (cc_addr c) (cc_req c) (cc_dig c) max with
    | None => None
    | Some sent => Some (blen (encode_digest_full (cc_id c) (cc_addr c) (cc_req c) sent),
                         [("", N.of_nat (List.length sent))])
    end
  else
    match cut_delta (cc_id c) (cc_addr c) (cc_delta c) max with
    | None => None
    | Some parts => Some (blen (encode_delta_full (cc_id c) (cc_addr c) parts),
                          map (fun p => (dp_id p, N.of_nat (List.length (dp_ents p)))) parts)
    end.

Definition res_eqb (a b : option (N * shape)) : bool :=
  match a, b with
  | None, None => true
  | Some (l1, s1), Some (l2, s2) => N.eqb l1 l2 && shape_eqb s1 s2
  | _, _ => false
  end.

Definition full_ok (c : ccase) : bool :=
  let b := if cc_digest c then encode_digest_full (cc_id c) (cc_addr c) (cc_req c) (cc_dig c)
           else encode_delta_full (cc_id c) (cc_addr c)
                  (map (fun de => {| dp_id := de_id de; dp_addr := de_addr de;
                                     dp_count := N.of_nat (List.length (de_ents de)); dp_ents := de_ents de |}) (cc_delta c)) in
  String.eqb (string_of_bytes b) (cc_full c).

(* first failing max of a case; max = 2^64 stands for "full encoding differs" *)
Definition check_case (c : ccase) : option N :=
  if negb (full_ok c) then Some (2^64) else
  match find (fun mr => negb (res_eqb (model_at c (fst mr)) (snd mr))) (cc_sweep c) with
  | Some (m, _) => Some m
  | None => None
  end.

Fixpoint cmismatches_from (k : nat) (cs : list ccase) : list (nat * N) :=
  match cs with
  | [] => []
  | c :: r => match check_case c with
              | Some m => (k, m) :: cmismatches_from (S k) r
              | None => cmismatches_from (S k) r end
  end.
Definition cmismatches (cs : list ccase) := cmismatches_from 0 cs.

Definition D (id addr : string) (ver : N) (left : bool) : dig_entry :=
  {| d_id := id; d_addr := addr; d_ver := ver; d_left := left |}.
Definition DE (id addr : string) (es : list entry) : delta_entry :=
  {| de_id := id; de_addr := addr; de_ents := es |}.
