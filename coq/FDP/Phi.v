(* C12, part 2: the suspicion level phi as an exact rational: zero at an arrival, linear in the silence
   with slope size/sum = 1/mean, accuracy (steady peers stay under the threshold), completeness
   (silent peers cross every threshold), and dependence on the window only. *)
From Coq Require Import List ZArith QArith Qround Bool Lia Lqa Arith Sorting.Sorted.
From Piko Require Import FD.FD FDP.Window.
Import ListNotations.
Open Scope list_scope.
Open Scope nat_scope.

Lemma phi_some t w l :
  w_last w = Some l -> (0 < w_sum w)%Z ->
  phi t w = Some (((t - l) * Z.of_nat (win_size w))%Z, w_sum w).
Proof.
  intros Hl Hs. unfold phi. rewrite Hl. apply Z.ltb_lt in Hs. rewrite Hs. reflexivity.
Qed.

Lemma inject_Z_pos z : (0 < z)%Z -> (0 < inject_Z z)%Q.
Proof. intros H. unfold Qlt, inject_Z. cbn. lia. Qed.

Lemma inject_Z_nonzero z : (0 < z)%Z -> ~ (inject_Z z == 0)%Q.
Proof. intros H. unfold Qeq, inject_Z. cbn. lia. Qed.

Lemma phiQ_eq t w l :
  w_last w = Some l -> (0 < w_sum w)%Z ->
  (phiQ t w == inject_Z (t - l) * (inject_Z (Z.of_nat (win_size w)) / inject_Z (w_sum w)))%Q.
Proof.
  intros Hl Hs. unfold phiQ. rewrite (phi_some t w l Hl Hs). rewrite inject_Z_mult.
  field. apply inject_Z_nonzero. exact Hs.
Qed.

(* ---- zero at the moment of an arrival ---- *)
Lemma phi_zero_at_report t w :
  (0 < w_sum (report t w))%Z ->
  phi t (report t w) = Some (0%Z, w_sum (report t w)).
Proof.
  intros Hs. destruct (report_fields t w) as (_ & _ & _ & _ & Hl & _).
  rewrite (phi_some t _ t Hl Hs). rewrite Z.sub_diag. reflexivity.
Qed.

Lemma phiQ_zero_at_report t w : (phiQ t (report t w) == 0)%Q.
Proof.
  unfold phiQ, phi. destruct (report_fields t w) as (_ & _ & _ & _ & Hl & _). rewrite Hl.
  destruct (0 <? w_sum (report t w))%Z; [|reflexivity].
  rewrite Z.sub_diag. cbn [Z.mul]. unfold Qdiv. rewrite Qmult_0_l. reflexivity.
Qed.

Lemma run_snoc boot n ts t : run boot n (ts ++ [t]) = report t (run boot n ts).
Proof. unfold run. rewrite fold_left_app. reflexivity. Qed.

Theorem zero_at_arrival boot n ts t :
  1 <= n -> (0 < boot)%Z -> Sorted Z.lt (ts ++ [t]) ->
  exists den, (0 < den)%Z /\ phi t (run boot n (ts ++ [t])) = Some (0%Z, den)
              /\ (phiQ t (run boot n (ts ++ [t])) == 0)%Q.
Proof.
  intros Hn Hb Hs.
  destruct (run_reachable boot n (ts ++ [t]) Hn Hb ltac:(destruct ts; cbn; congruence) Hs) as (_ & _ & _ & _ & Hpos).
  rewrite run_snoc in *. exists (w_sum (report t (run boot n ts))).
  split; [exact Hpos|]. split; [apply phi_zero_at_report; exact Hpos|apply phiQ_zero_at_report].
Qed.

(* ---- linear growth ---- *)
Theorem linear t1 t2 w l :
  w_last w = Some l -> (0 < w_sum w)%Z ->
  (phiQ t2 w - phiQ t1 w == inject_Z (t2 - t1) * (inject_Z (Z.of_nat (win_size w)) / inject_Z (w_sum w)))%Q.
Proof.
  intros Hl Hs. rewrite (phiQ_eq t1 w l Hl Hs), (phiQ_eq t2 w l Hl Hs).
  unfold Zminus. rewrite !inject_Z_plus, !inject_Z_opp. field. apply inject_Z_nonzero. exact Hs.
Qed.

Theorem linear_full (w : win) (l t : Z) :
  w_last w = Some l -> (0 < w_sum w)%Z ->
  phi t w = Some (((t - l) * Z.of_nat (win_size w))%Z, w_sum w)
  /\ (phiQ t w == inject_Z (t - l) * (inject_Z (Z.of_nat (win_size w)) / inject_Z (w_sum w)))%Q
  /\ forall t2, (phiQ t2 w - phiQ t w == inject_Z (t2 - t) * (inject_Z (Z.of_nat (win_size w)) / inject_Z (w_sum w)))%Q.
Proof.
  intros Hl Hs. split; [apply phi_some; assumption|]. split; [apply phiQ_eq; assumption|].
  intros t2. apply (linear t t2 w l Hl Hs).
Qed.

(* ---- accuracy ---- *)
Lemma accuracy_Z w l m t p q :
  w_last w = Some l -> w_sum w = zsum (contents w) -> List.length (contents w) = win_size w ->
  (0 < m)%Z -> Forall (fun iv => m <= iv)%Z (contents w) ->
  (0 <= p)%Z -> (0 < q)%Z -> ((t - l) * q <= p * m)%Z ->
  ((t - l) * Z.of_nat (win_size w) * q <= p * w_sum w)%Z.
Proof.
  intros Hl Hsum Hlen Hm Hall Hp Hq Hsil.
  pose proof (zsum_ge m _ Hall) as Hge. rewrite Hlen, <- Hsum in Hge.
  set (sz := Z.of_nat (win_size w)) in *. assert (0 <= sz)%Z by (unfold sz; lia).
  nia.
Qed.

Theorem accuracy w l m t (theta : Q) :
  w_last w = Some l -> w_sum w = zsum (contents w) -> List.length (contents w) = win_size w ->
  (0 < m)%Z -> Forall (fun iv => m <= iv)%Z (contents w) ->
  (0 <= theta)%Q -> (inject_Z (t - l) <= theta * inject_Z m)%Q ->
  (phiQ t w <= theta)%Q.
Proof.
  intros Hl Hsum Hlen Hm Hall Hth Hsil.
  destruct (Z_lt_le_dec 0 (w_sum w)) as [Hs|Hs].
  2:{ unfold phiQ, phi. rewrite Hl. apply Z.ltb_ge in Hs. rewrite Hs. exact Hth. }
  unfold phiQ. rewrite (phi_some t w l Hl Hs).
  apply Qle_shift_div_r; [apply inject_Z_pos; exact Hs|].
  destruct theta as [p q].
  assert (Hp : (0 <= p)%Z) by (unfold Qle in Hth; cbn in Hth; lia).
  assert (Hsil' : ((t - l) * Z.pos q <= p * m)%Z) by (unfold Qle, Qmult, inject_Z in Hsil; cbn in Hsil; lia).
  pose proof (accuracy_Z w l m t p (Z.pos q) Hl Hsum Hlen Hm Hall Hp ltac:(lia) Hsil') as H.
  unfold Qle, Qmult, inject_Z. cbn. lia.
Qed.

(* the decision taken by the code (level > threshold) on the exact value *)
Lemma suspected_spec theta num den :
  (0 < den)%Z -> (suspected theta (num, den) = true <-> (inject_Z theta < inject_Z num / inject_Z den)%Q).
Proof.
  intros Hd. unfold suspected. cbn [fst snd]. rewrite Z.ltb_lt. split; intros H.
  - apply Qlt_shift_div_l; [apply inject_Z_pos; exact Hd|]. rewrite <- inject_Z_mult, <- Zlt_Qlt. exact H.
  - apply (Qmult_lt_r _ _ (inject_Z den) (inject_Z_pos den Hd)) in H.
    unfold Qdiv in H. rewrite <- Qmult_assoc, (Qmult_comm (/ _)), Qmult_inv_r, Qmult_1_r in H
      by (apply inject_Z_nonzero; exact Hd).
    rewrite <- inject_Z_mult, <- Zlt_Qlt in H. exact H.
Qed.

(* reachable states: a peer whose window holds only intervals >= m and that was heard at most
   theta * m ago is not suspected; theta = 20 is the production threshold *)
Theorem accuracy_run boot n ts m t (theta : Q) :
  1 <= n -> ts <> [] -> (0 < m)%Z ->
  Forall (fun iv => m <= iv)%Z (contents (run boot n ts)) ->
  (0 <= theta)%Q -> (inject_Z (t - last ts 0%Z) <= theta * inject_Z m)%Q ->
  (phiQ t (run boot n ts) <= theta)%Q.
Proof.
  intros Hn Hne Hm Hall Hth Hsil.
  destruct (run_Inv boot n ts Hn) as (Hwf & _ & Hsum).
  eapply accuracy; eauto.
  - apply run_last'; assumption.
  - apply (contents_length n); exact Hwf.
Qed.

Theorem accuracy_20 boot n ts m t :
  1 <= n -> ts <> [] -> (0 < m)%Z ->
  Forall (fun iv => m <= iv)%Z (contents (run boot n ts)) ->
  (t - last ts 0 <= suspicionThreshold * m)%Z ->
  exists p, phi t (run boot n ts) = Some p /\ suspected suspicionThreshold p = false.
Proof.
  intros Hn Hne Hm Hall Hsil.
  destruct (run_Inv boot n ts Hn) as (Hwf & _ & Hsum).
  pose proof (contents_length n _ Hwf) as Hlen.
  pose proof (run_last' boot n ts Hn Hne) as Hl.
  set (w := run boot n ts) in *.
  assert (Hne' : 1 <= win_size w).
  { destruct (window_spec boot n ts Hn) as (_ & _ & Hsz). fold w in Hsz. rewrite Hsz.
    assert (1 <= List.length ts) by (destruct ts; [congruence|cbn [List.length]; lia]). lia. }
  assert (Hs : (0 < w_sum w)%Z).
  { pose proof (zsum_ge m _ Hall) as Hge. rewrite Hlen, <- Hsum in Hge. nia. }
  rewrite (phi_some t w _ Hl Hs). eexists; split; [reflexivity|].
  unfold suspected. cbn [fst snd]. apply Z.ltb_ge.
  pose proof (accuracy_Z w _ m t suspicionThreshold 1 Hl Hsum Hlen Hm Hall) as H.
  unfold suspicionThreshold in *. lia.
Qed.

(* a peer heard at steady intervals: every interval (bootstrap included) at least m, and the next
   arrival no later than 20*m after the previous one: at no time up to that next arrival is it suspected *)
Theorem steady_never_suspected boot n ts m t t_next :
  1 <= n -> ts <> [] -> (0 < m)%Z ->
  Forall (fun iv => m <= iv)%Z (intervals boot ts) ->
  (t <= t_next)%Z -> (t_next - last ts 0 <= suspicionThreshold * m)%Z ->
  exists p, phi t (run boot n ts) = Some p /\ suspected suspicionThreshold p = false.
Proof.
  intros Hn Hne Hm Hall Ht Hnext.
  apply (accuracy_20 boot n ts m t Hn Hne Hm); [|lia].
  destruct (window_spec boot n ts Hn) as (Hc & _ & _). rewrite Hc. apply Forall_lastn. exact Hall.
Qed.

(* ---- completeness ---- *)
Theorem completeness w l (theta : Q) :
  w_last w = Some l -> (0 < w_sum w)%Z -> 1 <= win_size w ->
  exists T, forall t, (T <= t)%Z -> (theta < phiQ t w)%Q.
Proof.
  intros Hl Hs Hsz.
  exists (l + Z.max 1 (Qfloor (theta * inject_Z (w_sum w)) + 1))%Z. intros t Ht.
  unfold phiQ. rewrite (phi_some t w l Hl Hs).
  apply Qlt_shift_div_l; [apply inject_Z_pos; exact Hs|].
  eapply Qlt_le_trans; [apply Qlt_floor|].
  rewrite <- Zle_Qle.
  set (f := Qfloor (theta * inject_Z (w_sum w))) in *.
  set (sz := Z.of_nat (win_size w)). assert (1 <= sz)%Z by (unfold sz; lia).
  nia.
Qed.

Theorem completeness_run boot n ts (theta : Q) :
  1 <= n -> (0 < boot)%Z -> ts <> [] -> Sorted Z.lt ts ->
  exists T, forall t, (T <= t)%Z ->
    (theta < phiQ t (run boot n ts))%Q
    /\ (forall th p, (inject_Z th <= theta)%Q -> phi t (run boot n ts) = Some p -> suspected th p = true).
Proof.
  intros Hn Hb Hne Hs.
  destruct (run_reachable boot n ts Hn Hb Hne Hs) as (Hl & Hsz & _ & _ & Hpos).
  destruct (completeness _ _ theta Hl Hpos Hsz) as (T & HT).
  exists T. intros t Ht. specialize (HT t Ht). split; [exact HT|].
  intros th p Hth Hp. unfold phiQ in HT. rewrite Hp in HT. destruct p as [num den].
  rewrite (phi_some t _ _ Hl Hpos) in Hp. injection Hp as <- <-.
  apply suspected_spec; [exact Hpos|]. eapply Qle_lt_trans; eauto.
Qed.

(* ---- only the window matters ---- *)
Theorem window_only boot1 boot2 n ts1 ts2 :
  1 <= n -> n < List.length ts1 -> n < List.length ts2 ->
  lastn (S n) ts1 = lastn (S n) ts2 ->
  let w1 := run boot1 n ts1 in
  let w2 := run boot2 n ts2 in
  contents w1 = contents w2 /\ w_sum w1 = w_sum w2 /\ win_size w1 = win_size w2 /\ w_last w1 = w_last w2
  /\ forall t, phi t w1 = phi t w2.
Proof.
  intros Hn H1 H2 Heq w1 w2.
  destruct (window_spec boot1 n ts1 Hn) as (Hc1 & Hs1 & Hz1).
  destruct (window_spec boot2 n ts2 Hn) as (Hc2 & Hs2 & Hz2).
  fold w1 in Hc1, Hs1, Hz1. fold w2 in Hc2, Hs2, Hz2.
  replace (Nat.min (List.length ts1) n) with n in * by lia.
  replace (Nat.min (List.length ts2) n) with n in * by lia.
  destruct (lastn_intervals boot1 n ts1 H1) as (a1 & r1 & E1 & _ & I1 & L1).
  destruct (lastn_intervals boot2 n ts2 H2) as (a2 & r2 & E2 & _ & I2 & L2).
  rewrite Heq, E2 in E1. injection E1 as <- <-.
  assert (Hl : w_last w1 = w_last w2).
  { unfold w1, w2. rewrite !run_last' by (try assumption; destruct ts1, ts2; cbn in *; try congruence; lia).
    congruence. }
  assert (Hc : contents w1 = contents w2) by congruence.
  assert (Hs : w_sum w1 = w_sum w2) by congruence.
  assert (Hz : win_size w1 = win_size w2) by congruence.
  repeat split; try assumption.
  intros t. unfold phi. rewrite Hl, Hs, Hz. reflexivity.
Qed.
