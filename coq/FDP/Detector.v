(* C12, part 3: the detector keeps one independent window per peer id; the window of a peer is the
   one produced by its own arrival sequence (reports since the last Remove; a level query on an
   unknown peer counts as its first arrival and answers 0). *)
From Coq Require Import List String ZArith Bool Lia.
From Piko Require Import Base.Maps FD.FD FDP.Window FDP.Phi.
Import ListNotations.
Open Scope list_scope.

Lemma fd_step_params d o : d_boot (fst (fd_step d o)) = d_boot d /\ d_n (fst (fd_step d o)) = d_n d.
Proof.
  destruct o as [id ts|id ts|id]; cbn; auto.
  unfold fd_level. destruct (lookup id (d_wins d)); cbn; auto.
Qed.

Lemma string_eqb_false a b : a <> b -> String.eqb a b = false.
Proof. intros H. apply String.eqb_neq. exact H. Qed.

Lemma fd_step_window id d o acc :
  lookup id (d_wins d) = option_map (run (d_boot d) (d_n d)) acc ->
  lookup id (d_wins (fst (fd_step d o))) = option_map (run (d_boot d) (d_n d)) (track id acc o).
Proof.
  intros H. destruct o as [i ts|i ts|i]; cbn [fd_step fst track].
  - destruct (String.eqb_spec i id) as [->|Hne].
    + unfold fd_report. cbn [set_wins d_wins]. rewrite lookup_insert_eq, H.
      destruct acc as [l|]; cbn [option_map]; rewrite run_snoc; reflexivity.
    + unfold fd_report. cbn [set_wins d_wins]. rewrite lookup_insert_ne by congruence. exact H.
  - unfold fd_level. destruct (String.eqb_spec i id) as [->|Hne].
    + rewrite H. destruct acc as [l|]; cbn [option_map fst]; [exact H|].
      cbn [set_wins d_wins]. rewrite lookup_insert_eq. reflexivity.
    + destruct (lookup i (d_wins d)); cbn [fst]; [exact H|].
      cbn [set_wins d_wins]. rewrite lookup_insert_ne by congruence. exact H.
  - unfold fd_remove. cbn [set_wins d_wins]. destruct (String.eqb_spec i id) as [->|Hne].
    + apply lookup_remove_eq.
    + rewrite lookup_remove_ne by congruence. exact H.
Qed.

(* after any list of calls the window of peer id is the run of its own tracked arrival sequence *)
Theorem detector_tracks boot n ops id :
  lookup id (d_wins (fd_exec ops (new_fd boot n))) = option_map (run boot n) (fold_left (track id) ops None).
Proof.
  unfold fd_exec.
  assert (G : forall ops d acc, d_boot d = boot -> d_n d = n ->
            lookup id (d_wins d) = option_map (run boot n) acc ->
            lookup id (d_wins (fold_left (fun d o => fst (fd_step d o)) ops d))
            = option_map (run boot n) (fold_left (track id) ops acc)).
  { induction ops0 as [|o r IH]; intros d acc Hb Hn H; cbn [fold_left]; [exact H|].
    destruct (fd_step_params d o) as (Hb' & Hn').
    apply IH; try congruence.
    rewrite <- Hb, <- Hn. apply fd_step_window. rewrite Hb, Hn. exact H. }
  apply G; reflexivity.
Qed.

(* the answer of SuspicionLevelAt: for a known peer the level of its window (state unchanged); for an
   unknown peer 0 (when the bootstrap interval is positive), and the peer is from then on treated as
   heard at the query time with the bootstrap interval as its only sample *)
Theorem level_known d id t w :
  lookup id (d_wins d) = Some w -> fd_level id t d = (d, phi t w).
Proof. intros H. unfold fd_level. rewrite H. reflexivity. Qed.

Theorem level_unknown d id t :
  1 <= d_n d -> (0 < d_boot d)%Z -> lookup id (d_wins d) = None ->
  snd (fd_level id t d) = Some (0%Z, d_boot d)
  /\ lookup id (d_wins (fst (fd_level id t d))) = Some (run (d_boot d) (d_n d) [t])
  /\ forall t', phi t' (run (d_boot d) (d_n d) [t]) = Some ((t' - t) * 1, d_boot d)%Z.
Proof.
  intros Hn Hb H. unfold fd_level. rewrite H. cbn [fst snd set_wins d_wins]. rewrite lookup_insert_eq.
  change (report t (new_win (d_boot d) (d_n d))) with (run (d_boot d) (d_n d) [t]).
  destruct (window_spec (d_boot d) (d_n d) [t] Hn) as (_ & Hs & Hz).
  cbn [List.length intervals diffs] in Hs, Hz.
  assert (Hm : Nat.min 1 (d_n d) = 1) by lia. rewrite Hm in Hs, Hz.
  assert (Hb1 : zsum (lastn 1 [d_boot d]) = d_boot d) by (unfold lastn, zsum; cbn; lia).
  rewrite Hb1 in Hs.
  assert (Hl : w_last (run (d_boot d) (d_n d) [t]) = Some t) by (apply run_last; exact Hn).
  assert (Hphi : forall t', phi t' (run (d_boot d) (d_n d) [t]) = Some ((t' - t) * 1, d_boot d)%Z).
  { intros t'. rewrite (phi_some t' _ t Hl) by (rewrite Hs; lia). rewrite Hz, Hs. reflexivity. }
  repeat split; auto. rewrite Hphi. do 2 f_equal. lia.
Qed.
