(* C12, part 1: the circular buffer of failuredetector.go implements "the last min(len, n) samples",
   for every window size n >= 1 and every number of samples (past any number of wrap-arounds). *)
From Coq Require Import List ZArith Bool Lia Arith Sorting.Sorted.
From Piko Require Import FD.FD.
Import ListNotations.
Open Scope list_scope.

(* ------------------------------------------------------------------ list helpers *)
Lemma set_nth_length {A} i (x : A) l : List.length (set_nth i x l) = List.length l.
Proof. revert i; induction l as [|y l IH]; intros [|i]; cbn; auto. Qed.

Lemma firstn_set_nth_S {A} i (x : A) l :
  i < List.length l -> firstn (S i) (set_nth i x l) = firstn i l ++ [x].
Proof.
  revert i; induction l as [|y l IH]; intros [|i] Hlt; cbn in *; try lia.
  - reflexivity.
  - f_equal. apply IH. lia.
Qed.

Lemma skipn_set_nth_S {A} i (x : A) l : skipn (S i) (set_nth i x l) = skipn (S i) l.
Proof.
  revert i; induction l as [|y l IH]; intros [|i]; cbn; auto.
  apply IH.
Qed.

Lemma skipn_nth_cons i (l : list Z) : i < List.length l -> skipn i l = nth i l 0%Z :: skipn (S i) l.
Proof.
  revert i; induction l as [|y l IH]; intros [|i] Hlt; cbn in *; try lia.
  - reflexivity.
  - rewrite IH by lia. reflexivity.
Qed.

Lemma tl_skipn {A} k (l : list A) : tl (skipn k l) = skipn (S k) l.
Proof.
  revert k; induction l as [|y l IH]; intros [|k]; cbn; auto.
  - apply IH.
Qed.

Lemma last_cons {A} (t : A) r d : last (t :: r) d = last r t.
Proof.
  revert t d; induction r as [|a r IH]; intros t d; [reflexivity|].
  change (last (t :: a :: r) d) with (last (a :: r) d). rewrite (IH a d), (IH a t). reflexivity.
Qed.

Lemma last_app_cons {A} (pre : list A) t r d : last (pre ++ t :: r) d = last r t.
Proof.
  revert d; induction pre as [|p pre IH]; intros d; cbn [app]; [apply last_cons|].
  rewrite last_cons. apply IH.
Qed.

Lemma zsum_app a b : zsum (a ++ b) = (zsum a + zsum b)%Z.
Proof. induction a as [|x a IH]; cbn; [reflexivity|]. unfold zsum in *. cbn. rewrite IH. lia. Qed.

Lemma zsum_tl c : zsum (tl c) = (zsum c - hd 0%Z c)%Z.
Proof. destruct c; unfold zsum; cbn; lia. Qed.

Lemma lastn_length {A} k (l : list A) : List.length (lastn k l) = Nat.min (List.length l) k.
Proof. unfold lastn. rewrite skipn_length. lia. Qed.

Lemma lastn_all {A} k (l : list A) : List.length l <= k -> lastn k l = l.
Proof. intros H. unfold lastn. replace (List.length l - k) with 0 by lia. reflexivity. Qed.

Lemma lastn_app_exact {A} (a b : list A) : lastn (List.length b) (a ++ b) = b.
Proof.
  unfold lastn. rewrite app_length. replace (List.length a + List.length b - List.length b) with (List.length a) by lia.
  rewrite skipn_app, skipn_all, Nat.sub_diag. reflexivity.
Qed.

(* the abstract window: push one sample, dropping the oldest when n are already held *)
Definition push (n : nat) (iv : Z) (c : list Z) : list Z :=
  (if List.length c <? n then c else tl c) ++ [iv].

Lemma lastn_push n x (hst : list Z) :
  1 <= n ->
  lastn (Nat.min (List.length (hst ++ [x])) n) (hst ++ [x]) = push n x (lastn (Nat.min (List.length hst) n) hst).
Proof.
  intros Hn. unfold push. rewrite lastn_length, app_length. cbn [List.length].
  destruct (Nat.ltb_spec (Nat.min (List.length hst) (Nat.min (List.length hst) n)) n) as [Hlt|Hge].
  - (* fewer than n samples so far: nothing is dropped *)
    assert (List.length hst < n) by lia.
    rewrite (lastn_all (Nat.min (List.length hst) n) hst) by lia.
    apply lastn_all. rewrite app_length. cbn. lia.
  - assert (n <= List.length hst) by lia.
    replace (Nat.min (List.length hst + 1) n) with n by lia.
    replace (Nat.min (List.length hst) n) with n by lia.
    unfold lastn. rewrite tl_skipn, app_length. cbn [List.length].
    replace (List.length hst + 1 - n) with (S (List.length hst - n)) by lia.
    rewrite skipn_app.
    replace (S (List.length hst - n) - List.length hst) with 0 by lia.
    reflexivity.
Qed.

(* ------------------------------------------------------------------ the buffer *)
Definition wf (n : nat) (w : win) : Prop := List.length (w_ivs w) = n /\ w_idx w <= n.

Lemma contents_length n w : wf n w -> List.length (contents w) = win_size w.
Proof.
  intros [Hl Hi]. unfold contents, win_size. destruct (w_full w).
  - rewrite app_length, skipn_length, firstn_length. lia.
  - rewrite firstn_length. lia.
Qed.

(* One Add on the circular buffer = one push on the abstract window, and the running sum follows. *)
Lemma add_interval_spec n iv w :
  1 <= n -> wf n w ->
  wf n (add_interval iv w)
  /\ contents (add_interval iv w) = push n iv (contents w)
  /\ w_sum (add_interval iv w)
     = (w_sum w - (if (List.length (contents w) <? n)%nat then 0 else hd 0 (contents w)) + iv)%Z.
Proof.
  intros Hn Hwf. pose proof (contents_length n w Hwf) as Hlen. destruct Hwf as [Hl Hi].
  unfold push. rewrite Hlen. unfold add_interval, contents, win_size, wf in *. rewrite Hl.
  destruct (Nat.eqb_spec (w_idx w) n) as [He|Hne].
  - (* index at the end of the buffer: wrap, the buffer is full, slot 0 is the oldest *)
    cbn [w_ivs w_idx w_full w_sum]. rewrite set_nth_length.
    assert (Hc : (if w_full w then skipn (w_idx w) (w_ivs w) ++ firstn (w_idx w) (w_ivs w)
                  else firstn (w_idx w) (w_ivs w)) = w_ivs w).
    { rewrite He. destruct (w_full w).
      - rewrite skipn_all2, firstn_all2 by lia. reflexivity.
      - apply firstn_all2. lia. }
    rewrite Hc.
    assert (Hsz : (if w_full w then n else w_idx w) = n) by (destruct (w_full w); lia).
    rewrite Hsz. rewrite Nat.ltb_irrefl.
    repeat split; try lia.
    + rewrite skipn_set_nth_S, firstn_set_nth_S by lia. cbn [firstn app].
      rewrite <- tl_skipn. reflexivity.
    + destruct (w_ivs w); cbn in *; [lia|reflexivity].
  - cbn [w_ivs w_idx w_full w_sum]. rewrite set_nth_length.
    assert (Hlt : w_idx w < n) by lia.
    destruct (w_full w) eqn:Hf.
    + (* full: slot index holds the oldest sample *)
      rewrite Nat.ltb_irrefl.
      repeat split; try lia.
      * rewrite skipn_set_nth_S, firstn_set_nth_S by lia.
        rewrite (skipn_nth_cons (w_idx w) (w_ivs w)) by lia. cbn [tl app].
        rewrite <- app_assoc. reflexivity.
      * rewrite (skipn_nth_cons (w_idx w) (w_ivs w)) by lia. reflexivity.
    + (* still filling *)
      apply Nat.ltb_lt in Hlt. rewrite Hlt. apply Nat.ltb_lt in Hlt.
      repeat split; try lia.
      rewrite firstn_set_nth_S by lia. reflexivity.
Qed.

(* Inv n hst w: after feeding the samples hst (oldest first) the buffer holds the last min(|hst|, n) of them *)
Definition Inv (n : nat) (hst : list Z) (w : win) : Prop :=
  wf n w
  /\ contents w = lastn (Nat.min (List.length hst) n) hst
  /\ w_sum w = zsum (contents w).

Lemma Inv_new boot n : Inv n [] (new_win boot n).
Proof.
  unfold Inv, wf, contents, new_win; cbn. rewrite repeat_length. repeat split; try lia.
Qed.

Lemma Inv_add n hst w iv : 1 <= n -> Inv n hst w -> Inv n (hst ++ [iv]) (add_interval iv w).
Proof.
  intros Hn (Hwf & Hc & Hs).
  destruct (add_interval_spec n iv w Hn Hwf) as (Hwf' & Hc' & Hs').
  repeat split; try apply Hwf'.
  - rewrite Hc', Hc. symmetry. apply lastn_push. exact Hn.
  - rewrite Hs', Hc'. unfold push.
    destruct (List.length (contents w) <? n).
    + rewrite zsum_app, Hs. unfold zsum at 3. cbn. lia.
    + rewrite zsum_app, zsum_tl, Hs. unfold zsum at 3. cbn. lia.
Qed.

Lemma Inv_size n hst w : Inv n hst w -> win_size w = Nat.min (List.length hst) n.
Proof.
  intros (Hwf & Hc & _). rewrite <- (contents_length n w Hwf), Hc, lastn_length. lia.
Qed.

(* report only differs from add_interval in lastTimestamp *)
Lemma report_fields ts w :
  let iv := match w_last w with Some l => (ts - l)%Z | None => w_boot w end in
  w_ivs (report ts w) = w_ivs (add_interval iv w) /\ w_idx (report ts w) = w_idx (add_interval iv w)
  /\ w_full (report ts w) = w_full (add_interval iv w) /\ w_sum (report ts w) = w_sum (add_interval iv w)
  /\ w_last (report ts w) = Some ts /\ w_boot (report ts w) = w_boot w.
Proof.
  assert (Hb : forall iv, w_boot (add_interval iv w) = w_boot w).
  { intros iv. unfold add_interval. destruct (Nat.eqb (w_idx w) (List.length (w_ivs w))); reflexivity. }
  unfold report. destruct (w_last w); cbn [w_ivs w_idx w_full w_sum w_last w_boot]; rewrite Hb; repeat split; reflexivity.
Qed.

Lemma Inv_ext n hst w w' :
  w_ivs w' = w_ivs w -> w_idx w' = w_idx w -> w_full w' = w_full w -> w_sum w' = w_sum w ->
  Inv n hst w -> Inv n hst w'.
Proof.
  intros H1 H2 H3 H4. unfold Inv, wf, contents. rewrite H1, H2, H3, H4. auto.
Qed.

Lemma Inv_report n hst w ts :
  1 <= n -> Inv n hst w ->
  Inv n (hst ++ [match w_last w with Some l => (ts - l)%Z | None => w_boot w end]) (report ts w).
Proof.
  intros Hn HI. destruct (report_fields ts w) as (H1 & H2 & H3 & H4 & _ & _).
  eapply Inv_ext; eauto. apply Inv_add; assumption.
Qed.

(* ------------------------------------------------------------------ arrival sequences *)
Lemma fold_report n : 1 <= n -> forall ts w hst l,
  Inv n hst w -> w_last w = Some l ->
  let w' := fold_left (fun w t => report t w) ts w in
  Inv n (hst ++ diffs l ts) w' /\ w_last w' = Some (last ts l) /\ w_boot w' = w_boot w.
Proof.
  intros Hn. induction ts as [|t r IH]; intros w hst l HI Hl; cbn [fold_left diffs].
  - rewrite app_nil_r. cbn. auto.
  - pose proof (Inv_report n hst w t Hn HI) as HI'. rewrite Hl in HI'.
    destruct (report_fields t w) as (_ & _ & _ & _ & Hl' & Hb').
    destruct (IH (report t w) (hst ++ [(t - l)%Z]) t HI' Hl') as (A & B & C).
    rewrite <- app_assoc in A. cbn [app] in A.
    split; [exact A|]. split; [|congruence].
    rewrite B, last_cons. reflexivity.
Qed.

Lemma run_Inv boot n ts : 1 <= n -> Inv n (intervals boot ts) (run boot n ts).
Proof.
  intros Hn. destruct ts as [|t0 r]; [apply Inv_new|].
  unfold run. cbn [fold_left intervals].
  pose proof (Inv_report n [] (new_win boot n) t0 Hn (Inv_new boot n)) as HI. cbn [new_win w_last w_boot app] in HI.
  destruct (report_fields t0 (new_win boot n)) as (_ & _ & _ & _ & Hl & _).
  destruct (fold_report n Hn r _ _ t0 HI Hl) as (A & _ & _). exact A.
Qed.

Lemma run_last boot n t0 r : 1 <= n -> w_last (run boot n (t0 :: r)) = Some (last r t0).
Proof.
  intros Hn. unfold run. cbn [fold_left].
  pose proof (Inv_report n [] (new_win boot n) t0 Hn (Inv_new boot n)) as HI.
  destruct (report_fields t0 (new_win boot n)) as (_ & _ & _ & _ & Hl & _).
  destruct (fold_report n Hn r _ _ t0 HI Hl) as (_ & B & _). exact B.
Qed.

Lemma run_last' boot n ts : 1 <= n -> ts <> [] -> w_last (run boot n ts) = Some (last ts 0%Z).
Proof.
  intros Hn Hne. destruct ts as [|t0 r]; [congruence|]. rewrite run_last by assumption.
  rewrite last_cons. reflexivity.
Qed.

Lemma run_nil boot n : w_last (run boot n []) = None.
Proof. reflexivity. Qed.

Lemma intervals_length boot ts : List.length (intervals boot ts) = List.length ts.
Proof.
  destruct ts as [|t0 r]; [reflexivity|]. cbn. f_equal.
  revert t0; induction r as [|t r IH]; intros; cbn; auto.
Qed.

(* C12_window *)
Theorem window_spec boot n ts :
  1 <= n ->
  let w := run boot n ts in
  let k := Nat.min (List.length ts) n in
  contents w = lastn k (intervals boot ts)
  /\ w_sum w = zsum (lastn k (intervals boot ts))
  /\ win_size w = k.
Proof.
  intros Hn w k. pose proof (run_Inv boot n ts Hn) as HI.
  pose proof (Inv_size _ _ _ HI) as Hs. destruct HI as (_ & Hc & Hsum).
  rewrite intervals_length in *. fold w in Hc, Hsum, Hs. fold k in Hc, Hs.
  repeat split; [exact Hc| rewrite Hsum, Hc; reflexivity | exact Hs].
Qed.

(* ------------------------------------------------------------------ strictly increasing arrivals *)
Lemma diffs_pos prev ts : Sorted Z.lt (prev :: ts) -> Forall (fun iv => 0 < iv)%Z (diffs prev ts).
Proof.
  revert prev; induction ts as [|t r IH]; intros prev Hs; cbn; [constructor|].
  inversion Hs as [|? ? Hs' Hd]; subst. inversion Hd; subst.
  constructor; [lia|]. apply IH. exact Hs'.
Qed.

Lemma intervals_pos boot ts : (0 < boot)%Z -> Sorted Z.lt ts -> Forall (fun iv => 0 < iv)%Z (intervals boot ts).
Proof.
  intros Hb Hs. destruct ts as [|t0 r]; cbn; constructor; [exact Hb|]. apply diffs_pos. exact Hs.
Qed.

Lemma Forall_skipn {A} (P : A -> Prop) k l : Forall P l -> Forall P (skipn k l).
Proof.
  intros H. rewrite <- (firstn_skipn k l) in H. apply Forall_app in H. apply H.
Qed.

Lemma Forall_lastn {A} (P : A -> Prop) k l : Forall P l -> Forall P (lastn k l).
Proof. apply Forall_skipn. Qed.

Lemma zsum_ge m l : Forall (fun iv => m <= iv)%Z l -> (Z.of_nat (List.length l) * m <= zsum l)%Z.
Proof.
  induction 1 as [|x l Hx _ IH]; unfold zsum in *; cbn [fold_right List.length]; [lia|].
  rewrite Nat2Z.inj_succ. lia.
Qed.

Lemma zsum_pos l : l <> [] -> Forall (fun iv => 0 < iv)%Z l -> (0 < zsum l)%Z.
Proof.
  intros Hne H. assert (Forall (fun iv => 1 <= iv)%Z l) by (eapply Forall_impl; [|exact H]; cbn; intros; lia).
  pose proof (zsum_ge 1 l H0). destruct l; [congruence|]. cbn [List.length] in *. lia.
Qed.

(* every state reached by a non-empty strictly increasing arrival sequence with a positive bootstrap
   interval has a last arrival, at least one sample, positive samples only and a positive sum *)
Lemma run_reachable boot n ts :
  1 <= n -> (0 < boot)%Z -> ts <> [] -> Sorted Z.lt ts ->
  let w := run boot n ts in
  w_last w = Some (last ts 0%Z) /\ 1 <= win_size w /\ Forall (fun iv => 0 < iv)%Z (contents w)
  /\ w_sum w = zsum (contents w) /\ (0 < w_sum w)%Z.
Proof.
  intros Hn Hb Hne Hs w. destruct (window_spec boot n ts Hn) as (Hc & Hsum & Hsz). fold w in Hc, Hsum, Hsz.
  assert (Hlen : 1 <= List.length ts) by (destruct ts; [congruence|cbn; lia]).
  assert (Hpos : Forall (fun iv => 0 < iv)%Z (contents w)).
  { rewrite Hc. apply Forall_lastn. apply intervals_pos; assumption. }
  repeat split.
  - apply run_last'; assumption.
  - lia.
  - exact Hpos.
  - rewrite Hsum, Hc. reflexivity.
  - rewrite Hsum, <- Hc. apply zsum_pos; [|exact Hpos].
    intro He. pose proof (contents_length n w) as Hl. rewrite He in Hl. cbn in Hl.
    destruct (run_Inv boot n ts Hn) as (Hwf & _). specialize (Hl Hwf). fold w in Hl. lia.
Qed.

(* ------------------------------------------------------------------ no int64 overflow *)
Lemma zsum_diffs prev ts : zsum (diffs prev ts) = (last ts prev - prev)%Z.
Proof.
  revert prev; induction ts as [|t r IH]; intros prev; [unfold zsum; cbn; lia|].
  cbn [diffs]. rewrite last_cons. unfold zsum in *. cbn [fold_right]. rewrite IH. lia.
Qed.

Lemma zsum_skipn_le k l : Forall (fun iv => 0 <= iv)%Z l -> (zsum (skipn k l) <= zsum l)%Z.
Proof.
  intros H. revert k. induction H as [|x l Hx _ IH]; intros [|k]; cbn [skipn]; try lia.
  specialize (IH k). unfold zsum in *. cbn [fold_right]. lia.
Qed.

(* the running sum never exceeds bootstrap + (last arrival - first arrival) *)
Lemma run_sum_bound boot n t0 r :
  1 <= n -> (0 < boot)%Z -> Sorted Z.lt (t0 :: r) ->
  (0 < w_sum (run boot n (t0 :: r)) <= boot + (last r t0 - t0))%Z.
Proof.
  intros Hn Hb Hs.
  destruct (run_reachable boot n (t0 :: r) Hn Hb ltac:(congruence) Hs) as (_ & _ & _ & _ & Hpos).
  split; [exact Hpos|].
  destruct (window_spec boot n (t0 :: r) Hn) as (_ & Hsum & _). rewrite Hsum.
  unfold lastn. etransitivity.
  - apply zsum_skipn_le. eapply Forall_impl; [|apply intervals_pos; eassumption]. cbn; intros; lia.
  - cbn [intervals]. unfold zsum. cbn [fold_right]. fold (zsum (diffs t0 r)). rewrite zsum_diffs. lia.
Qed.

(* ------------------------------------------------------------------ only the window matters *)
Lemma diffs_app l pre t0 r : diffs l (pre ++ t0 :: r) = diffs l (pre ++ [t0]) ++ diffs t0 r.
Proof.
  revert l; induction pre as [|p pre IH]; intros l; cbn; [reflexivity|]. rewrite IH. reflexivity.
Qed.

Lemma diffs_length l ts : List.length (diffs l ts) = List.length ts.
Proof. revert l; induction ts as [|t r IH]; intros; cbn; auto. Qed.

Lemma intervals_split boot pre t0 r :
  exists x, intervals boot (pre ++ t0 :: r) = x ++ diffs t0 r.
Proof.
  destruct pre as [|p pre]; cbn.
  - exists [boot]. reflexivity.
  - rewrite diffs_app. exists (boot :: diffs p (pre ++ [t0])). reflexivity.
Qed.

Lemma lastn_split {A} k (l : list A) : k <= List.length l ->
  exists pre, l = pre ++ lastn k l /\ List.length (lastn k l) = k.
Proof.
  intros H. exists (firstn (List.length l - k) l). unfold lastn. rewrite firstn_skipn, skipn_length.
  split; [reflexivity|lia].
Qed.

(* when more than n arrivals were seen, the window is determined by the last n+1 arrivals alone
   (the bootstrap sample and everything older has been evicted) *)
Lemma lastn_intervals boot n ts :
  n < List.length ts ->
  exists t0 r, lastn (S n) ts = t0 :: r /\ List.length r = n
               /\ lastn n (intervals boot ts) = diffs t0 r /\ last ts 0%Z = last r t0.
Proof.
  intros Hlt. destruct (lastn_split (S n) ts ltac:(lia)) as (pre & Heq & Hlen).
  destruct (lastn (S n) ts) as [|t0 r] eqn:E; [cbn in Hlen; lia|].
  exists t0, r. cbn in Hlen. repeat split; try lia.
  - destruct (intervals_split boot pre t0 r) as (x & Hx). rewrite Heq, Hx.
    replace n with (List.length (diffs t0 r)) at 1 by (rewrite diffs_length; lia).
    apply lastn_app_exact.
  - rewrite Heq at 1. apply last_app_cons.
Qed.
