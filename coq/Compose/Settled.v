(* Cluster level: from converged gossip and the managers' registries to [settled] of the proxy model, hence (with
   C01_settled) "a request for E arriving at any node is handed to an upstream registered for E iff some node's
   manager holds one". *)
From Coq Require Import List String NArith ZArith Bool Arith Lia.
From Piko Require Import Base.Maps Base.Strs Gossip.Types Gossip.Local Gossip.Apply Cluster.Syncer.
From Piko Require Import GossipP.LocalP GossipP.WatchP ClusterP.FoldP.
From Piko Require Import Upstream.Balancer Upstream.Manager UpstreamP.ManagerP.
From Piko Require Proxy.Http Proxy.Route ProxyP.Final.
From Piko Require Import Compose.EndToEnd.
Import ListNotations.
Open Scope string_scope. Open Scope list_scope.

Module R := Proxy.Route.
Module H := Proxy.Http.

(* one server node, seen through every model *)
Record site := {
  st_id : string;
  st_addr : string;                        (* proxy address *)
  st_timeout : Z;
  st_local : amap (list R.upstream);       (* the proxy model's registry (LoadBalancedManager.localUpstreams) *)
  st_ms : mstate;                          (* the upstream manager model *)
  st_c : cstate;                           (* its gossip state *)
  st_sh : shadow;                          (* the fold of the watcher notifications *)
  st_ss : sstate                           (* its syncer / routing table *)
}.

Definition conv (s : Syncer.nstatus) : R.nstatus :=
  match s with SActive => R.Active | SLeft => R.Left | _ => R.Unreachable end.

Definition view_of (ss : sstate) : list R.ventry :=
  map (fun kv => R.mkV (fst kv) (conv (cn_status (snd kv))) (cn_proxy (snd kv)) (cn_eps (snd kv))) (ss_nodes ss).

Definition pnode_of (s : site) : R.node := R.mkN (st_id s) (st_addr s) (st_timeout s) (st_local s) (view_of (st_ss s)).

Section Glue.
  Variable addr_of : string -> string * string.
  Variable sites : list site.

  (* how the code glues the layers of ONE node together (syncer.go, manager.go) *)
  Definition glued (a : site) : Prop :=
    ss_local (st_ss a) = st_id a /\ c_local (st_c a) = st_id a /\
    rel addr_of (st_ss a) (st_sh a) /\ agree (st_sh a) (st_c a) /\ NoDup (keys (ss_nodes (st_ss a))) /\
    minv (st_ms a) /\ lookup (st_id a) (c_nodes (st_c a)) = Some (m_gossip (st_ms a)) /\
    (forall k e, lookup k (n_ents (m_gossip (st_ms a))) = Some e -> e_int e = internal_key k) /\
    (forall ep, (Z.of_nat (registered_count ep (st_ms a)) < 2^63)%Z) /\
    live (m_gossip (st_ms a)) "proxy_addr" <> None /\ live (m_gossip (st_ms a)) "admin_addr" <> None /\
    fst (addr_of (st_id a)) = st_addr a /\
    (forall ep, R.has_local (pnode_of a) ep = (0 <? registered_count ep (st_ms a))%nat).

  (* what gossip has achieved (C03_converged_views + id closure) and that everybody is alive *)
  Definition converged (a : site) : Prop :=
    (forall x st, lookup x (c_nodes (st_c a)) = Some st -> x <> st_id a ->
       exists b, In b sites /\ st_id b = x /\ n_left st = false /\ n_unreach st = false /\
                 forall k, lookup k (n_ents st) = lookup k (n_ents (m_gossip (st_ms b)))) /\
    (forall b, In b sites -> st_id b <> st_id a -> lookup (st_id b) (c_nodes (st_c a)) <> None).

  Hypothesis Hglued : forall a, In a sites -> glued a.
  Hypothesis Hconv : forall a, In a sites -> converged a.

  Hypothesis Hnd : NoDup (map st_id sites).

  Lemma same_site b b' : In b sites -> In b' sites -> st_id b = st_id b' -> b = b'.
  Proof.
    intros Hb Hb' Hid. apply In_nth_error in Hb as [i Hi]. apply In_nth_error in Hb' as [j Hj].
    assert (i = j); [|subst j; congruence].
    apply (proj1 (NoDup_nth_error (map st_id sites)) Hnd).
    - rewrite map_length. apply nth_error_Some. rewrite Hi. discriminate.
    - rewrite !nth_error_map, Hi, Hj. cbn. congruence.
  Qed.

  Lemma entry_of_pair a b st :
    In a sites -> In b sites -> st_id b <> st_id a ->
    lookup (st_id b) (c_nodes (st_c a)) = Some st ->
    exists n, lookup (st_id b) (ss_nodes (st_ss a)) = Some n /\ cn_status n = SActive /\ cn_proxy n = st_addr b /\
              forall ep, (match lookup ep (cn_eps n) with Some k => (0 <? k)%Z | None => false end) = R.has_local (pnode_of b) ep.
  Proof.
    intros Ha Hb Hne Hst.
    destruct (Hglued a Ha) as [Hl [Hcl [Hrel [Hag _]]]].
    destruct (Hglued b Hb) as [_ [_ [_ [_ [_ [Hinv [_ [Hint [Hsm [Hp [Had [Haddr Hloc]]]]]]]]]]]].
    destruct (Hconv a Ha) as [Hk _]. destruct (Hk _ _ Hst Hne) as [b' [Hb' [Hid [Hleft [Hun Heq]]]]].
    assert (b' = b) by (apply same_site; assumption). subst b'.
    destruct (routing_entry_is_managers_truth addr_of (st_ss a) (st_sh a) (st_c a) (st_id b) st (m_gossip (st_ms b)) (st_ms b)
                Hrel Hag ltac:(rewrite Hl; exact Hne) ltac:(rewrite Hcl; exact Hne) Hst Heq Hleft Hun eq_refl Hinv Hint Hsm Hp Had)
      as [n [H1 [H2 [H3 [_ H5]]]]].
    exists n. split; [exact H1|]. split; [exact H2|]. split; [rewrite H3; exact Haddr|].
    intros ep. rewrite (H5 ep), Hloc. reflexivity.
  Qed.

  Theorem settled_from_convergence : R.settled (map pnode_of sites).
  Proof.
    intros pa Hpa. apply in_map_iff in Hpa as [a [<- Ha]].
    destruct (Hglued a Ha) as [Hl [Hcl [Hrel [Hag [Hndk _]]]]]. destruct (Hconv a Ha) as [Hk Hall].
    split.
    - (* whatever a holds as active is a member, truthfully *)
      intros v Hv Hvid Hact. cbn [pnode_of R.n_view R.n_id] in *. unfold view_of in Hv.
      apply in_map_iff in Hv as [[x n] [<- Hin]]. cbn [fst snd R.v_id R.v_status R.v_addr R.v_eps] in *.
      pose proof (In_lookup x n _ Hndk Hin) as Hlk.
      assert (Hxs : x <> ss_local (st_ss a)) by (rewrite Hl; exact Hvid).
      pose proof (Hrel x Hxs) as Hr. destruct (lookup x (st_sh a)) as [sn|] eqn:Esn; [|destruct Hr as [Hr _]; congruence].
      pose proof (Hag x ltac:(rewrite Hcl; exact Hvid)) as Hax. rewrite Esn in Hax.
      destruct (lookup x (c_nodes (st_c a))) as [st|] eqn:Est; [|contradiction].
      destruct (Hk x st Est Hvid) as [b [Hb [Hid _]]]. subst x.
      destruct (entry_of_pair a b st Ha Hb Hvid Est) as [n' [H1 [H2 [H3 H4]]]].
      rewrite Hlk in H1. injection H1 as <-.
      exists (pnode_of b). split; [apply in_map, Hb|]. split; [reflexivity|]. split; [cbn; congruence|exact H4].
    - (* every other member is held, active, with its address and exactly its endpoints *)
      intros pm Hpm Hne. apply in_map_iff in Hpm as [b [<- Hb]]. cbn [pnode_of R.n_id] in Hne.
      destruct (lookup (st_id b) (c_nodes (st_c a))) as [st|] eqn:Est; [|exfalso; apply (Hall b Hb Hne Est)].
      destruct (entry_of_pair a b st Ha Hb Hne Est) as [n [H1 [H2 [H3 H4]]]].
      exists (R.mkV (st_id b) (conv (cn_status n)) (cn_proxy n) (cn_eps n)). split.
      + cbn [pnode_of R.n_view]. unfold view_of. apply in_map_iff. exists (st_id b, n). split; [reflexivity|apply lookup_In, H1].
      + cbn [R.v_id R.v_addr R.v_status R.v_eps pnode_of R.n_id R.n_addr]. split; [reflexivity|]. split; [exact H3|]. split; [rewrite H2; reflexivity|exact H4].
  Qed.
End Glue.

(* End to end: once gossip has converged, a client request for endpoint E entering at ANY node is handed to an upstream
   registered for E if some node's manager holds one, and answered 502 if none does. *)
Theorem end_to_end :
  forall addr_of sites,
  (forall a, In a sites -> glued addr_of a) -> (forall a, In a sites -> converged sites a) -> NoDup (map st_id sites) ->
  R.wf_cluster (map pnode_of sites) ->
  forall (e : R.env) (entry : nat) (pa : R.node) (rq : H.request),
  R.e_keep e = true -> nth_error (map pnode_of sites) entry = Some pa -> R.pre_ok e rq -> H.is_forwarded rq = false ->
  let ep := R.addressed_endpoint rq in
  let r := R.deliver (map pnode_of sites) e entry rq in
  ((exists b, In b sites /\ (0 < registered_count ep (st_ms b))%nat) -> R.reaches (map pnode_of sites) ep r) /\
  ((forall b, In b sites -> registered_count ep (st_ms b) = 0%nat) -> r = R.fin (R.Status 502) [R.EInvoke entry]).
Proof.
  intros addr_of sites Hg Hc Hnd Hwf e entry pa rq Hk Hent Hpre Hfw ep r. subst ep r.
  pose proof (settled_from_convergence addr_of sites Hg Hc Hnd) as Hset.
  destruct (ProxyP.Final.settled_final (map pnode_of sites) e entry pa rq Hwf Hset Hk Hent Hpre Hfw) as [H1 [H2 _]].
  split.
  - intros [b [Hb Hpos]]. apply H1. exists (pnode_of b). split; [apply in_map, Hb|].
    destruct (Hg b Hb) as [_ [_ [_ [_ [_ [_ [_ [_ [_ [_ [_ [_ Hloc]]]]]]]]]]]]. rewrite Hloc. apply Nat.ltb_lt, Hpos.
  - intros Hnone. apply H2. intros m Hm. apply in_map_iff in Hm as [b [<- Hb]].
    destruct (Hg b Hb) as [_ [_ [_ [_ [_ [_ [_ [_ [_ [_ [_ [_ Hloc]]]]]]]]]]]]. rewrite Hloc, (Hnone b Hb). reflexivity.
Qed.
