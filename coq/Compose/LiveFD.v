(* The accrual failure detector (FD/FD.v, C12) wired into the liveness evaluation of the cluster state
   (Gossip/Apply.v update_liveness, C11) - what gossip.New does: state.go UpdateLiveness asks the detector
   for the level of every node that is neither local nor left and flips the unreachable flag on level > 20;
   listener.go delta() tells the detector that the sender was heard from.

   Proved here, for every schedule of "heard" and "evaluate liveness" calls with a clock that does not go back:
   - a peer found unreachable stays unreachable at every later evaluation until the detector is told it was heard
     from (so it is restored ONLY IF heard from, and its expiry stamp is not cleared by the mere passage of time);
   - a peer that is heard from is reachable at an evaluation made at that instant (restored IF heard from);
   - a silent peer is found unreachable by every evaluation made late enough.
   The harness runs the real detector inside the real state behind a virtual clock (props/gossip_common.py
   gen_fd_case / fd_monitor) and compares it with these definitions through the world model. *)
From Coq Require Import List String NArith ZArith Bool Lia QArith.
From Piko Require Import Base.Maps Base.Strs Gossip.Types Gossip.Local Gossip.Apply FD.FD.
From Piko Require Import GossipP.ApplyP GossipP.MemberP FDP.Window FDP.Phi FDP.Detector.
Import ListNotations.
Open Scope string_scope. Open Scope list_scope.

Record lstate := { l_fd : fd; l_c : cstate }.

(* the ids UpdateLiveness asks the detector about (state.go: `if node.ID == s.localID || node.Left { continue }`) *)
Definition watched (c : cstate) : list string :=
  map n_id (filter (fun s => negb (String.eqb (n_id s) (c_local c) || n_left s)) (values (c_nodes c))).

Definition susp (o : option (Z * Z)) : bool :=
  match o with Some q => suspected suspicionThreshold q | None => false end.

Definition ask (t : Z) (acc : fd * list string) (id : string) : fd * list string :=
  let '(d', p) := fd_level id t (fst acc) in (d', if susp p then id :: snd acc else snd acc).

Definition ask_all (t : Z) (ids : list string) (d : fd) : fd * list string := fold_left (ask t) ids (d, []).

Definition in_list (l : list string) (id : string) : bool := existsb (String.eqb id) l.

(* one UpdateLiveness at clock reading t *)
Definition ltick (t : Z) (nows : amap Z) (s : lstate) : lstate * list event :=
  let r := ask_all t (watched (l_c s)) (l_fd s) in
  let u := update_liveness (in_list (snd r)) nows (l_c s) in
  ({| l_fd := fst r; l_c := fst u |}, snd u).

(* the delta handler: failureDetector.Report(sender) at clock reading t *)
Definition lhear (id : string) (t : Z) (s : lstate) : lstate := {| l_fd := fd_report id t (l_fd s); l_c := l_c s |}.

Inductive lop := LHear (id : string) (t : Z) | LTick (t : Z) (nows : amap Z).
Definition lstep (s : lstate) (o : lop) : lstate :=
  match o with LHear id t => lhear id t s | LTick t nows => fst (ltick t nows s) end.
Definition lrun (s : lstate) (ops : list lop) : lstate := fold_left lstep ops s.

Definition flag (p : string) (s : lstate) : option bool := option_map n_unreach (lookup p (c_nodes (l_c s))).

(* the window the detector uses for p when asked at time t *)
Definition win_at (d : fd) (p : string) (t : Z) : win :=
  match lookup p (d_wins d) with Some w => w | None => report t (new_win (d_boot d) (d_n d)) end.

(* ------------------------------------------------------------------------------------------------ *)
Lemma fd_level_spec id t d :
  fd_level id t d = (fst (fd_level id t d), phi t (win_at d id t))
  /\ lookup id (d_wins (fst (fd_level id t d))) = Some (win_at d id t)
  /\ (forall id', id' <> id -> lookup id' (d_wins (fst (fd_level id t d))) = lookup id' (d_wins d))
  /\ d_boot (fst (fd_level id t d)) = d_boot d /\ d_n (fst (fd_level id t d)) = d_n d.
Proof.
  unfold fd_level, win_at. destruct (lookup id (d_wins d)) as [w|] eqn:E; cbn [fst snd set_wins d_wins d_boot d_n].
  - repeat split; auto.
  - rewrite lookup_insert_eq. repeat split; auto. intros id' Hne. apply lookup_insert_ne. exact Hne.
Qed.

Lemma win_at_known d p t w : lookup p (d_wins d) = Some w -> win_at d p t = w.
Proof. intros H. unfold win_at. rewrite H. reflexivity. Qed.

Lemma ask_all_spec t ids : forall d sus0,
  let r := fold_left (ask t) ids (d, sus0) in
  (forall id w, lookup id (d_wins d) = Some w -> lookup id (d_wins (fst r)) = Some w)
  /\ (forall id, In id ids -> lookup id (d_wins (fst r)) = Some (win_at d id t))
  /\ (forall id, In id (snd r) <-> In id sus0 \/ (In id ids /\ susp (phi t (win_at d id t)) = true))
  /\ d_boot (fst r) = d_boot d /\ d_n (fst r) = d_n d.
Proof.
  induction ids as [|i ids IH]; intros d sus0; cbn [fold_left].
  - cbn [fst snd]. repeat split; auto; try (intros id []). intros [H|[[] _]]; exact H.
  - destruct (fd_level_spec i t d) as (Hlv & Hi & Hoth & Hb & Hn).
    set (d1 := fst (fd_level i t d)) in *.
    assert (Hask : ask t (d, sus0) i = (d1, if susp (phi t (win_at d i t)) then i :: sus0 else sus0)).
    { unfold ask. cbn [fst snd]. rewrite Hlv. reflexivity. }
    rewrite Hask. set (sus1 := if susp (phi t (win_at d i t)) then i :: sus0 else sus0).
    specialize (IH d1 sus1). cbv zeta in IH. destruct IH as (Ha & Hbb & Hc & Hb' & Hn').
    assert (Hwin : forall id, win_at d1 id t = win_at d id t).
    { intros id. destruct (String.eqb_spec id i) as [->|Hne].
      - apply win_at_known. exact Hi.
      - unfold win_at. rewrite (Hoth id Hne), Hb, Hn. reflexivity. }
    assert (Hkeep : forall id w, lookup id (d_wins d) = Some w -> lookup id (d_wins d1) = Some w).
    { intros id w Hl. destruct (String.eqb_spec id i) as [->|Hne].
      - rewrite Hi. f_equal. apply win_at_known. exact Hl.
      - rewrite (Hoth id Hne). exact Hl. }
    repeat split.
    + intros id w Hl. apply Ha, Hkeep, Hl.
    + intros id [<-|Hin].
      * apply Ha. exact Hi.
      * rewrite (Hbb id Hin). f_equal. apply Hwin.
    + intros H. apply Hc in H. destruct H as [H|[Hin Hs]].
      * unfold sus1 in H. destruct (susp (phi t (win_at d i t))) eqn:Es.
        -- destruct H as [<-|H]; [right; split; [left; reflexivity|exact Es]|left; exact H].
        -- left; exact H.
      * right. split; [right; exact Hin|]. rewrite <- Hwin. exact Hs.
    + intros [H|[[<-|Hin] Hs]]; apply Hc.
      * left. unfold sus1. destruct (susp (phi t (win_at d i t))); [right|]; exact H.
      * left. unfold sus1. rewrite Hs. left; reflexivity.
      * right. split; [exact Hin|]. rewrite Hwin. exact Hs.
    + rewrite Hb'. exact Hb.
    + rewrite Hn'. exact Hn.
Qed.

Lemma in_list_In l id : in_list l id = true <-> In id l.
Proof.
  unfold in_list. rewrite existsb_exists. split.
  - intros (x & Hin & He). apply String.eqb_eq in He. subst. exact Hin.
  - intros H. exists id. split; [exact H|apply String.eqb_refl].
Qed.

Lemma watched_In c p st :
  wf_c c -> lookup p (c_nodes c) = Some st -> p <> c_local c -> n_left st = false -> In p (watched c).
Proof.
  intros Hw Hl Hne Hleft. unfold watched. apply in_map_iff. exists st. split; [apply Hw; exact Hl|].
  apply filter_In. split.
  - apply in_map_iff. exists (p, st). split; [reflexivity|apply lookup_In; exact Hl].
  - rewrite (Hw _ _ Hl), Hleft. apply String.eqb_neq in Hne. rewrite Hne. reflexivity.
Qed.

(* one evaluation, seen from one watched peer *)
Theorem ltick_peer t nows s p st :
  wf_c (l_c s) -> lookup p (c_nodes (l_c s)) = Some st -> p <> c_local (l_c s) -> n_left st = false ->
  let s' := fst (ltick t nows s) in
  exists st',
    lookup p (c_nodes (l_c s')) = Some st'
    /\ n_unreach st' = susp (phi t (win_at (l_fd s) p t))
    /\ n_left st' = false
    /\ lookup p (d_wins (l_fd s')) = Some (win_at (l_fd s) p t)
    /\ wf_c (l_c s') /\ c_local (l_c s') = c_local (l_c s).
Proof.
  intros Hw Hl Hne Hleft. cbv zeta. unfold ltick. cbn [fst l_c l_fd].
  pose proof (ask_all_spec t (watched (l_c s)) (l_fd s) []) as Hs. cbv zeta in Hs.
  fold (ask_all t (watched (l_c s)) (l_fd s)) in Hs.
  destruct Hs as (_ & Hb & Hc & _ & _).
  pose proof (watched_In _ _ _ Hw Hl Hne Hleft) as Hin.
  set (sus := in_list (snd (ask_all t (watched (l_c s)) (l_fd s)))).
  exists (fst (liveness_node (c_local (l_c s)) sus nows st)).
  rewrite update_liveness_nodes.
  rewrite (lookup_map_nodes (fun x => fst (liveness_node (c_local (l_c s)) sus nows x))), Hl. cbn [option_map].
  assert (Hid : n_id st = p) by (apply Hw; exact Hl).
  assert (Hne' : n_id st <> c_local (l_c s)) by (rewrite Hid; exact Hne).
  destruct (liveness_verdict (c_local (l_c s)) sus nows st Hne' Hleft) as (Hu & _).
  repeat split.
  - rewrite Hu, Hid. unfold sus.
    destruct (susp (phi t (win_at (l_fd s) p t))) eqn:Es.
    + apply in_list_In, Hc. right. split; [exact Hin|exact Es].
    + destruct (in_list _ p) eqn:Ei; [|reflexivity].
      apply in_list_In, Hc in Ei. destruct Ei as [[]|[_ Ei]]. congruence.
  - unfold liveness_node. apply String.eqb_neq in Hne'. rewrite Hne', Hleft. cbn [orb].
    destruct (sus (n_id st)); destruct (n_unreach st); cbn; exact Hleft.
  - apply Hb. exact Hin.
  - apply update_liveness_wf. exact Hw.
Qed.

(* phi only grows with the clock while the window does not change *)
Lemma susp_mono t1 t2 w : (t1 <= t2)%Z -> susp (phi t1 w) = true -> susp (phi t2 w) = true.
Proof.
  unfold phi. destruct (w_last w) as [l|]; [|intros _ H; exact H].
  destruct (0 <? w_sum w)%Z; [|intros _ H; exact H].
  unfold susp, suspected. cbn [fst snd]. rewrite !Z.ltb_lt. intros Ht H.
  assert (Hs : (0 <= Z.of_nat (win_size w))%Z) by lia. nia.
Qed.

(* hearing from somebody else does not touch p's window; a report of p does *)
Lemma lhear_other id t s p : id <> p ->
  lookup p (d_wins (l_fd (lhear id t s))) = lookup p (d_wins (l_fd s)).
Proof.
  intros Hne. unfold lhear, fd_report. cbn [l_fd set_wins d_wins]. apply lookup_insert_ne. congruence.
Qed.

Definition quiet (p : string) (t0 : Z) (o : lop) : Prop :=
  match o with LHear id _ => id <> p | LTick t _ => (t0 <= t)%Z end.

Record Stuck (p : string) (t0 : Z) (w : win) (local : string) (s : lstate) : Prop := {
  st_wf : wf_c (l_c s);
  st_local : c_local (l_c s) = local;
  st_win : lookup p (d_wins (l_fd s)) = Some w;
  st_susp : susp (phi t0 w) = true;
  st_node : exists st, lookup p (c_nodes (l_c s)) = Some st /\ n_unreach st = true /\ n_left st = false }.

Lemma stuck_step p t0 w local s o : p <> local -> Stuck p t0 w local s -> quiet p t0 o -> Stuck p t0 w local (lstep s o).
Proof.
  intros Hne [Hw Hloc Hwin Hs (st & Hl & Hu & Hleft)] Hq. destruct o as [id t|t nows]; cbn [lstep].
  - constructor; cbn [lhear l_c]; auto.
    + rewrite lhear_other by exact Hq. exact Hwin.
    + exists st. auto.
  - cbn [quiet] in Hq.
    assert (Hne' : p <> c_local (l_c s)) by (rewrite Hloc; exact Hne).
    destruct (ltick_peer t nows s p st Hw Hl Hne' Hleft) as (st' & Hl' & Hu' & Hleft' & Hwin' & Hw' & Hloc').
    rewrite (win_at_known _ _ _ _ Hwin) in Hu', Hwin'.
    constructor.
    + exact Hw'.
    + rewrite Hloc'. exact Hloc.
    + exact Hwin'.
    + exact Hs.
    + exists st'. repeat split; auto. rewrite Hu'. apply (susp_mono t0 t); assumption.
Qed.

(* a peer found unreachable stays unreachable until the detector is told it was heard from - under every schedule
   of later evaluations (clock not before t1) and of messages from anybody else *)
Theorem silent_stays_unreachable s p st t1 nows1 ops :
  wf_c (l_c s) -> lookup p (c_nodes (l_c s)) = Some st -> p <> c_local (l_c s) -> n_left st = false ->
  flag p (fst (ltick t1 nows1 s)) = Some true ->
  Forall (quiet p t1) ops ->
  flag p (lrun (fst (ltick t1 nows1 s)) ops) = Some true.
Proof.
  intros Hw Hl Hne Hleft Hf Hq.
  destruct (ltick_peer t1 nows1 s p st Hw Hl Hne Hleft) as (st' & Hl' & Hu' & Hleft' & Hwin' & Hw' & Hloc').
  set (s1 := fst (ltick t1 nows1 s)) in *.
  assert (Hst : Stuck p t1 (win_at (l_fd s) p t1) (c_local (l_c s)) s1).
  { constructor; auto.
    - unfold flag in Hf. rewrite Hl' in Hf. cbn in Hf. injection Hf as Hf. rewrite <- Hu'. exact Hf.
    - exists st'. repeat split; auto. unfold flag in Hf. rewrite Hl' in Hf. cbn in Hf. congruence. }
  clearbody s1. clear Hl' Hu' Hleft' Hwin' Hw' Hloc' Hf.
  revert s1 Hst. induction Hq as [|o ops Ho Hq IH]; intros s1 Hst.
  - destruct Hst as [_ _ _ _ (x & Hx & Hux & _)]. unfold flag, lrun. cbn. rewrite Hx. cbn. congruence.
  - unfold lrun. cbn [fold_left]. apply IH. apply stuck_step; assumption.
Qed.

(* restored if heard from: an evaluation made at the instant of a report finds the peer reachable *)
Theorem heard_is_reachable s p st t nows :
  wf_c (l_c s) -> lookup p (c_nodes (l_c s)) = Some st -> p <> c_local (l_c s) -> n_left st = false ->
  flag p (fst (ltick t nows (lhear p t s))) = Some false.
Proof.
  intros Hw Hl Hne Hleft.
  destruct (ltick_peer t nows (lhear p t s) p st Hw Hl Hne Hleft) as (st' & Hl' & Hu' & _).
  unfold flag. rewrite Hl'. cbn [option_map]. f_equal. rewrite Hu'.
  unfold win_at, lhear, fd_report. cbn [l_fd set_wins d_wins]. rewrite lookup_insert_eq.
  set (w := match lookup p (d_wins (l_fd s)) with Some w => w | None => new_win (d_boot (l_fd s)) (d_n (l_fd s)) end).
  unfold phi, report. cbn [w_last w_sum].
  destruct (0 <? _)%Z eqn:E; [|reflexivity]. unfold susp, suspected, suspicionThreshold. cbn [fst snd].
  apply Z.ltb_ge. apply Z.ltb_lt in E. rewrite Z.sub_diag, Z.mul_0_l. lia.
Qed.

(* a silent peer is found unreachable by every evaluation made late enough (C12_completeness, in place) *)
Theorem silent_eventually_unreachable s p st w l :
  wf_c (l_c s) -> lookup p (c_nodes (l_c s)) = Some st -> p <> c_local (l_c s) -> n_left st = false ->
  lookup p (d_wins (l_fd s)) = Some w -> w_last w = Some l -> (0 < w_sum w)%Z -> 1 <= win_size w ->
  exists T, forall t nows, (T <= t)%Z -> flag p (fst (ltick t nows s)) = Some true.
Proof.
  intros Hw Hl Hne Hleft Hwin Hlast Hsum Hsz.
  destruct (completeness w l (inject_Z suspicionThreshold) Hlast Hsum Hsz) as (T & HT).
  exists T. intros t nows Ht.
  destruct (ltick_peer t nows s p st Hw Hl Hne Hleft) as (st' & Hl' & Hu' & _).
  unfold flag. rewrite Hl'. cbn [option_map]. f_equal. rewrite Hu', (win_at_known _ _ _ _ Hwin).
  specialize (HT t Ht). unfold phiQ in HT. unfold phi in *. rewrite Hlast in *.
  assert (Hb : (0 <? w_sum w)%Z = true) by (apply Z.ltb_lt; exact Hsum). rewrite Hb in *.
  unfold susp. apply suspected_spec; [exact Hsum|exact HT].
Qed.

(* ---- a concrete run (premises are satisfiable; all three behaviours occur) ---- *)
Definition ex_c : cstate := {| c_local := "a"; c_nodes := [("a", new_node "a" "10.0.0.1:7000"); ("b", new_node "b" "10.0.0.2:7000")] |}.
Definition ex_s : lstate := {| l_fd := new_fd 200 50; l_c := ex_c |}.
Definition ex_ops1 : list lop := [LHear "b" 0; LHear "b" 100; LHear "b" 200; LTick 300 []].
Definition ex_ops2 : list lop := [LHear "a" 5100; LTick 6000 []; LTick 7000 []].

Example livefd_example :
  wf_c ex_c /\ lookup "b" (c_nodes ex_c) = Some (new_node "b" "10.0.0.2:7000") /\ "b" <> c_local ex_c
  /\ flag "b" (lrun ex_s ex_ops1) = Some false
  /\ flag "b" (fst (ltick 5000 [] (lrun ex_s ex_ops1))) = Some true
  /\ Forall (quiet "b" 5000) ex_ops2
  /\ flag "b" (lrun (fst (ltick 5000 [] (lrun ex_s ex_ops1))) ex_ops2) = Some true
  /\ flag "b" (fst (ltick 7100 [] (lhear "b" 7100 (lrun (fst (ltick 5000 [] (lrun ex_s ex_ops1))) ex_ops2)))) = Some false.
Proof.
  split.
  { intros k s. cbn. destruct (String.eqb k "a") eqn:E1; [apply String.eqb_eq in E1; intros [= <-]; auto|].
    destruct (String.eqb k "b") eqn:E2; [apply String.eqb_eq in E2; intros [= <-]; auto|discriminate]. }
  split; [reflexivity|]. split; [discriminate|].
  split; [vm_compute; reflexivity|]. split; [vm_compute; reflexivity|].
  split; [repeat constructor; cbn; try discriminate; lia|].
  split; vm_compute; reflexivity.
Qed.
