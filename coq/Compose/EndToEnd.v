(* Composition across the models: what node a's ROUTING TABLE says about node b once a's gossip view of b has caught up
   is exactly what b's UPSTREAM MANAGER holds.

     manager of b   --(C05: advertised entry = registered count)-->   b's own gossip state O
     O              --(C03/C02: a converged view V holds O's entries)-->   a's gossip view V of b
     V              --(C14: the watcher's fold agrees with the view)-->   shadow sh of a
     sh             --(C04: the syncer's table mirrors the fold)-->   a's routing table entry n for b

   Hence: n lists endpoint ep with a positive count  <->  b has an upstream registered for ep; n is active and
   carries b's proxy address. This is the per-pair content of [settled] in Proxy/Route.v (C01_settled, C06). The glue
   between the models (b's own gossip node state IS the manager's m_gossip; a's shadow/routing state follow a's gossip
   state) is what the code does by construction (syncer.go) and is a hypothesis here; each model is tied to the code
   by its own correspondence check. *)
From Coq Require Import List String NArith ZArith Bool Arith Lia.
From Piko Require Import Base.Maps Base.Strs Gossip.Types Gossip.Local Gossip.Apply Cluster.Syncer.
From Piko Require Import GossipP.LocalP GossipP.ApplyP GossipP.WatchP GossipP.MemberP ClusterP.SyncerP ClusterP.FoldP ClusterP.LinkP.
From Piko Require Import Upstream.Balancer Upstream.Manager UpstreamP.GossipLive UpstreamP.ManagerP UpstreamP.Statements.
From Piko Require Import Properties.C04.
Import ListNotations.
Open Scope string_scope. Open Scope list_scope.

Lemma ep_key_same ep : FoldP.ep_key ep = Manager.ep_key ep.
Proof. reflexivity. Qed.

Lemma ep_key_user ep : internal_key (Manager.ep_key ep) = false.
Proof.
  unfold internal_key, Manager.ep_key, leftKey, compactKey. cbn [append String.eqb Ascii.eqb Bool.eqb]. reflexivity.
Qed.

(* the live value of an endpoint key, in the two vocabularies *)
Lemma live_gossip_live O ep :
  (forall k e, lookup k (n_ents O) = Some e -> e_int e = internal_key k) ->
  live O (Manager.ep_key ep) = gossip_live (Manager.ep_key ep) O.
Proof.
  intros Hint. unfold live, gossip_live. destruct (lookup (Manager.ep_key ep) (n_ents O)) as [e|] eqn:E; [|reflexivity].
  rewrite (Hint _ _ E), ep_key_user, orb_false_r. reflexivity.
Qed.

Theorem routing_entry_is_managers_truth :
  forall addr_of (ss : sstate) (sh : shadow) (c : cstate) (x : string) (V O : node_state) (ms : mstate),
  (* a: syncer table, watcher fold and gossip state of the observing node *)
  rel addr_of ss sh -> agree sh c -> x <> ss_local ss -> x <> c_local c ->
  lookup x (c_nodes c) = Some V ->
  (* a's view of b has caught up with b's own state (C03_converged_views / C02_world_caught_up) *)
  (forall k, lookup k (n_ents V) = lookup k (n_ents O)) ->
  n_left V = false -> n_unreach V = false ->
  (* b: its own gossip node state is the one its manager and syncer write (syncer.go), in a reachable manager state *)
  O = m_gossip ms -> minv ms ->
  (forall k e, lookup k (n_ents O) = Some e -> e_int e = internal_key k) ->
  (forall ep, (Z.of_nat (registered_count ep ms) < 2^63)%Z) ->
  live O "proxy_addr" <> None -> live O "admin_addr" <> None ->
  exists n, lookup x (ss_nodes ss) = Some n /\ cn_status n = SActive /\
            cn_proxy n = fst (addr_of x) /\ cn_admin n = snd (addr_of x) /\
            forall ep, (match lookup ep (cn_eps n) with Some k => (0 <? k)%Z | None => false end)
                       = (0 <? registered_count ep ms)%nat.
Proof.
  intros addr_of ss sh c x V O ms Hrel Hag Hxs Hxc HV Heq Hl Hu HO Hinv Hint Hsmall Hp Ha.
  destruct (C04_caught_up addr_of ss sh c x V O Hrel Hag Hxs Hxc HV Heq Hp Ha Hl) as [n [H1 [H2 [H3 [H4 H5]]]]].
  exists n. split; [exact H1|]. split; [rewrite H4, Hu; reflexivity|]. split; [exact H2|]. split; [exact H3|].
  intros ep. rewrite (H5 ep), ep_key_same, (live_gossip_live O ep Hint), HO, (inv_gsp _ Hinv ep). unfold adv_opt.
  destruct (Nat.eqb (registered_count ep ms) 0) eqn:E.
  - apply Nat.eqb_eq in E. rewrite E. reflexivity.
  - apply Nat.eqb_neq in E. rewrite atoi_itoa by (specialize (Hsmall ep); lia).
    destruct (registered_count ep ms) as [|k]; [contradiction|]. cbn [Nat.ltb Nat.leb]. apply Z.ltb_lt. lia.
Qed.
