(* Non-vacuity of Compose/Settled.v: a concrete two-node cluster, built by RUNNING the component models - manager
   histories, the gossip receiver applying the peer's full delta, the watcher fold, the syncer - satisfies [glued] and
   [converged]; the end-to-end theorem applies to it, and the computed proxy run agrees. *)
From Coq Require Import List String NArith ZArith Bool Arith Lia.
From Piko Require Import Base.Maps Base.Strs Gossip.Types Gossip.Local Gossip.Apply Cluster.Syncer.
From Piko Require Import GossipP.LocalP GossipP.ApplyP GossipP.WatchP ClusterP.SyncerP ClusterP.FoldP ClusterP.LinkP.
From Piko Require Import Upstream.Balancer Upstream.Manager UpstreamP.ManagerP UpstreamP.Statements.
From Piko Require Proxy.Http Proxy.Route.
From Piko Require Import Properties.C04 Compose.EndToEnd Compose.Settled.
Import ListNotations.
Open Scope string_scope. Open Scope list_scope.

Definition ex_addr_of (id : string) : string * string :=
  if String.eqb id "a" then ("pa", "aa") else if String.eqb id "b" then ("pb", "ab") else ("p", "x").

Definition ms_a : mstate := mrun (minit "a" "ga" "pa" "aa") [].
Definition ms_b : mstate := mrun (minit "b" "gb" "pb" "ab") [MAdd 1 "e"; MAdd 2 "e"; MAdd 3 "f"; MRemove 3 "f"].

Definition c0 (id : string) (O : node_state) : cstate := {| c_local := id; c_nodes := [(id, O)] |}.
Definition learn (O : node_state) : list rop := [RDelta [] [delta_entry_of O 0]].

Definition mk_site (id paddr aaddr : string) (loc : amap (list R.upstream)) (ms : mstate) (peer : node_state) : site :=
  let r := rrun (c0 id (m_gossip ms)) (learn peer) in
  {| st_id := id; st_addr := paddr; st_timeout := 0; st_local := loc; st_ms := ms; st_c := fst r;
     st_sh := fold_events [] (snd r); st_ss := on_events (new_sstate id paddr aaddr) (snd r) |}.

Definition site_a : site := mk_site "a" "pa" "aa" [] ms_a (m_gossip ms_b).
Definition site_b : site :=
  mk_site "b" "pb" "ab" [("e", [R.mkU "u1" "e" (R.UAnswer 0); R.mkU "u2" "e" (R.UAnswer 0)])] ms_b (m_gossip ms_a).
Definition ex_sites : list site := [site_a; site_b].

(* ---- decision helpers for concrete assoc lists ---- *)
Lemma lookup_all {V} (P : string -> V -> Prop) (m : amap V) :
  Forall (fun kv => P (fst kv) (snd kv)) m -> forall k v, lookup k m = Some v -> P k v.
Proof.
  intros H k v Hl. apply lookup_In in Hl. exact (proj1 (Forall_forall _ _) H (k, v) Hl).
Qed.

Lemma lookup_ext_on (m1 m2 : amap entry) :
  (forall k, In k (keys m1 ++ keys m2) -> lookup k m1 = lookup k m2) -> forall k, lookup k m1 = lookup k m2.
Proof.
  intros H k. destruct (in_dec string_dec k (keys m1 ++ keys m2)) as [Hin|Hn]; [apply H, Hin|].
  rewrite (notin_lookup_None k m1), (notin_lookup_None k m2); [reflexivity| |]; intros Hx; apply Hn, in_or_app; auto.
Qed.

Ltac honest_concrete :=
  repeat (apply Forall_cons; [
    split; [vm_compute; reflexivity|];
    split; [intros Hd Hk; vm_compute in Hd; try discriminate Hd; vm_compute in Hk; try discriminate Hk; vm_compute; reflexivity|];
    split; [intros Hd Hk; vm_compute in Hd; try discriminate Hd; vm_compute in Hk; try discriminate Hk; vm_compute; reflexivity|];
    intros Hd ep Hk; vm_compute in Hd; try discriminate Hd; cbn in Hk; try discriminate Hk; vm_compute; discriminate |]); apply Forall_nil.

Lemma c0_LInvC id O :
  n_id O = id -> n_unreach O = false -> n_expiry O = None -> NoDup (keys (n_ents O)) ->
  Forall (fun kv => e_key (snd kv) = fst kv /\ kc_entry (snd kv)) (n_ents O) -> LInvC (c0 id O).
Proof.
  intros Hid Hu He Hnd Hkc. constructor; [constructor|].
  - intros k s Hl. cbn in Hl. destruct (String.eqb k id) eqn:E; [|discriminate]. apply String.eqb_eq in E. injection Hl as <-. congruence.
  - cbn. constructor; [intros []|constructor].
  - intros k st Hl. cbn in Hl. destruct (String.eqb k id); [|discriminate]. injection Hl as <-. split; [exact Hnd|].
    intros k' e Hk. apply (lookup_all (fun k0 e0 => e_key e0 = k0 /\ kc_entry e0) _ Hkc k' e Hk).
  - exists O. cbn. rewrite String.eqb_refl. auto.
Qed.

Lemma c0_agree id O : agree [] (c0 id O).
Proof.
  intros x Hx. cbn [lookup c0 c_nodes c_local] in *. destruct (String.eqb x id) eqn:E; [apply String.eqb_eq in E; contradiction|exact I].
Qed.

Lemma ex_addr_ne : forall id, fst (ex_addr_of id) <> "" /\ snd (ex_addr_of id) <> "".
Proof. intros id. unfold ex_addr_of. destruct (String.eqb id "a"); [cbn; split; discriminate|]. destruct (String.eqb id "b"); cbn; split; discriminate. Qed.

(* what C04_syncer_follows_gossip yields for a site built by mk_site *)
Lemma site_follows id paddr aaddr loc ms peer :
  LInvC (c0 id (m_gossip ms)) -> honest_delta ex_addr_of [delta_entry_of peer 0] ->
  let s := mk_site id paddr aaddr loc ms peer in
  rel ex_addr_of (st_ss s) (st_sh s) /\ agree (st_sh s) (st_c s).
Proof.
  intros Hi Hh. cbn zeta. unfold mk_site. cbn [st_ss st_sh st_c].
  destruct (C04_fold_from_start ex_addr_of id paddr aaddr) as [Hrel Hpw].
  destruct (C04_syncer_follows_gossip ex_addr_of (learn peer) (c0 id (m_gossip ms)) [] (new_sstate id paddr aaddr)
              ex_addr_ne Hi (Forall_cons (RDelta [] [delta_entry_of peer 0]) Hh (Forall_nil _)) (c0_agree _ _) Hrel Hpw) as [A [_ [B _]]].
  split; assumption.
Qed.


(* ---- the concrete facts ---- *)
Ltac concrete_LInvC :=
  apply c0_LInvC;
  [vm_compute; reflexivity | vm_compute; reflexivity | vm_compute; reflexivity
  | vm_compute; repeat constructor; cbn; intuition discriminate
  | vm_compute; repeat (constructor; [split; reflexivity|]); constructor].

Lemma LInvC_a : LInvC (c0 "a" (m_gossip ms_a)).
Proof. concrete_LInvC. Qed.

Lemma LInvC_b : LInvC (c0 "b" (m_gossip ms_b)).
Proof. concrete_LInvC. Qed.

Ltac concrete_honest :=
  constructor; [|constructor];
  match goal with |- Forall (honest_entry _ ?i) ?l =>
    let x := eval vm_compute in l in let y := eval vm_compute in i in change (Forall (honest_entry ex_addr_of y) x) end;
  honest_concrete.

Ltac concrete_entries :=
  match goal with |- Forall (honest_entry _ ?i) ?l =>
    let x := eval vm_compute in l in let y := eval vm_compute in i in change (Forall (honest_entry ex_addr_of y) x) end.

Lemma honest_a : honest_delta ex_addr_of [delta_entry_of (m_gossip ms_a) 0].
Proof. constructor; [|constructor]. concrete_entries. honest_concrete. Qed.

Lemma honest_b : honest_delta ex_addr_of [delta_entry_of (m_gossip ms_b) 0].
Proof. constructor; [|constructor]. concrete_entries. honest_concrete. Qed.

(* entries of a concrete node state satisfy e_int = internal_key *)
Lemma int_consistent (O : node_state) :
  Forall (fun kv => e_int (snd kv) = internal_key (fst kv)) (n_ents O) ->
  forall k e, lookup k (n_ents O) = Some e -> e_int e = internal_key k.
Proof. intros H k e Hl. exact (lookup_all (fun k0 e0 => e_int e0 = internal_key k0) _ H k e Hl). Qed.

Lemma glued_a : glued ex_addr_of site_a.
Proof.
  destruct (site_follows "a" "pa" "aa" [] ms_a (m_gossip ms_b) LInvC_a honest_b) as [Hrel Hag].
  unfold glued. fold site_a in Hrel, Hag.
  split; [vm_compute; reflexivity|]. split; [vm_compute; reflexivity|]. split; [exact Hrel|]. split; [exact Hag|].
  split; [vm_compute; repeat constructor; cbn; intuition discriminate|].
  split; [apply reach_inv|]. split; [vm_compute; reflexivity|].
  split; [apply int_consistent; vm_compute; repeat (constructor; [reflexivity|]); constructor|].
  split; [intros ep; vm_compute; reflexivity|].
  split; [vm_compute; discriminate|]. split; [vm_compute; discriminate|]. split; [reflexivity|].
  intros ep. vm_compute. reflexivity.
Qed.


Lemma lbs_b : m_lbs ms_b = [("e", {| ups := [1%N; 2%N]; nxt := 0 |})].
Proof. vm_compute. reflexivity. Qed.

Lemma glued_b : glued ex_addr_of site_b.
Proof.
  destruct (site_follows "b" "pb" "ab" [("e", [R.mkU "u1" "e" (R.UAnswer 0); R.mkU "u2" "e" (R.UAnswer 0)])] ms_b (m_gossip ms_a) LInvC_b honest_a) as [Hrel Hag].
  unfold glued. fold site_b in Hrel, Hag.
  split; [vm_compute; reflexivity|]. split; [vm_compute; reflexivity|]. split; [exact Hrel|]. split; [exact Hag|].
  split; [vm_compute; repeat constructor; cbn; intuition discriminate|].
  split; [apply reach_inv|]. split; [vm_compute; reflexivity|].
  split; [apply int_consistent; vm_compute; repeat (constructor; [reflexivity|]); constructor|].
  change (st_ms site_b) with ms_b.
  split.
  { intros ep. unfold registered_count. rewrite lbs_b. cbn [lookup]. destruct (String.eqb ep "e"); vm_compute; reflexivity. }
  split; [vm_compute; discriminate|]. split; [vm_compute; discriminate|]. split; [reflexivity|].
  intros ep. unfold R.has_local, registered_count. rewrite lbs_b.
  change (R.n_local (pnode_of site_b)) with [("e", [R.mkU "u1" "e" (R.UAnswer 0); R.mkU "u2" "e" (R.UAnswer 0)])].
  cbn [lookup]. destruct (String.eqb ep "e"); reflexivity.
Qed.

(* a's view of b holds exactly b's entries (and vice versa), nobody is left or unreachable, everybody is known *)
Ltac entries_equal :=
  apply lookup_ext_on; intros k Hk; vm_compute in Hk;
  repeat (destruct Hk as [Hk|Hk]; [subst k; vm_compute; reflexivity|]); destruct Hk.

Lemma nodes_a : exists V, c_nodes (st_c site_a) = [("b", V); ("a", m_gossip ms_a)] /\ n_left V = false /\ n_unreach V = false /\
                          forall k, lookup k (n_ents V) = lookup k (n_ents (m_gossip ms_b)).
Proof.
  eexists. split; [vm_compute; reflexivity|]. split; [reflexivity|]. split; [reflexivity|]. entries_equal.
Qed.

Lemma nodes_b : exists V, c_nodes (st_c site_b) = [("a", V); ("b", m_gossip ms_b)] /\ n_left V = false /\ n_unreach V = false /\
                          forall k, lookup k (n_ents V) = lookup k (n_ents (m_gossip ms_a)).
Proof.
  eexists. split; [vm_compute; reflexivity|]. split; [reflexivity|]. split; [reflexivity|]. entries_equal.
Qed.

Lemma converged_a : converged ex_sites site_a.
Proof.
  destruct nodes_a as [V [Hn [Hl [Hu Heq]]]]. split.
  - intros x st Hlk Hx. rewrite Hn in Hlk. cbn [lookup] in Hlk. destruct (String.eqb x "b") eqn:Eb.
    + apply String.eqb_eq in Eb. subst x. injection Hlk as <-. exists site_b. split; [right; left; reflexivity|]. auto.
    + destruct (String.eqb x "a") eqn:Ea; [apply String.eqb_eq in Ea; subst x; exfalso; apply Hx; reflexivity|discriminate].
  - intros b [<-|[<-|[]]] Hne; [exfalso; apply Hne; reflexivity|]. rewrite Hn. cbn. discriminate.
Qed.

Lemma converged_b : converged ex_sites site_b.
Proof.
  destruct nodes_b as [V [Hn [Hl [Hu Heq]]]]. split.
  - intros x st Hlk Hx. rewrite Hn in Hlk. cbn [lookup] in Hlk. destruct (String.eqb x "a") eqn:Ea.
    + apply String.eqb_eq in Ea. subst x. injection Hlk as <-. exists site_a. split; [left; reflexivity|]. auto.
    + destruct (String.eqb x "b") eqn:Eb; [apply String.eqb_eq in Eb; subst x; exfalso; apply Hx; reflexivity|discriminate].
  - intros b [<-|[<-|[]]] Hne; [|exfalso; apply Hne; reflexivity]. rewrite Hn. cbn. discriminate.
Qed.

(* every hypothesis of C01_settled_from_convergence / C01_end_to_end holds for this cluster ... *)
Theorem example_hypotheses :
  (forall a, In a ex_sites -> glued ex_addr_of a) /\ (forall a, In a ex_sites -> converged ex_sites a) /\
  NoDup (map st_id ex_sites).
Proof.
  split; [intros a [<-|[<-|[]]]; [exact glued_a|exact glued_b]|].
  split; [intros a [<-|[<-|[]]]; [exact converged_a|exact converged_b]|].
  cbn. repeat constructor; cbn; intuition discriminate.
Qed.

(* ... so its proxy cluster is settled *)
Theorem example_settled : R.settled (map pnode_of ex_sites).
Proof. destruct example_hypotheses as [H1 [H2 H3]]. exact (settled_from_convergence ex_addr_of ex_sites H1 H2 H3). Qed.

(* ... and, computed: a request for "e" entering at node a (which has no upstream) is served by an upstream registered
   on b; a request for "f" (withdrawn at b: a tombstone in its gossip state) is answered 502 - as C01_end_to_end says *)
Definition ex_env : R.env := R.mkEnv true "127.0.0.1" None (fun _ _ => H.mkResp 200 [] "ok") 0 0.
Definition ex_rq (host : string) : H.request := H.mkReq "GET" "/x" None host [] "".

Example example_runs :
  (exists rs, R.res_out (R.deliver (map pnode_of ex_sites) ex_env 0 (ex_rq "e.example.com")) = R.Served 1 (R.mkU "u1" "e" (R.UAnswer 0)) rs) /\
  R.res_out (R.deliver (map pnode_of ex_sites) ex_env 0 (ex_rq "f.example.com")) = R.Status 502 /\
  (0 < registered_count "e" (st_ms site_b))%nat /\ registered_count "f" (st_ms site_b) = 0%nat /\ registered_count "f" (st_ms site_a) = 0%nat.
Proof.
  split; [eexists; vm_compute; reflexivity|]. split; [vm_compute; reflexivity|]. split; [vm_compute; lia|]. split; vm_compute; reflexivity.
Qed.
