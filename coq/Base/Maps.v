(* Association-list maps keyed by strings (models of Go map[string]T).
   insert k v m = (k,v) :: remove k m, so keys stay duplicate free. *)
From Coq Require Import List String Bool Arith Lia.
Import ListNotations.
Open Scope string_scope. Open Scope list_scope.

Section AMap.
  Context {V : Type}.
  Definition amap := list (string * V).

  Fixpoint lookup (k : string) (m : amap) : option V :=
    match m with
    | [] => None
    | (k', v) :: m' => if String.eqb k k' then Some v else lookup k m'
    end.

  Fixpoint remove (k : string) (m : amap) : amap :=
    match m with
    | [] => []
    | (k', v) :: m' => if String.eqb k k' then remove k m' else (k', v) :: remove k m'
    end.

  Definition insert (k : string) (v : V) (m : amap) : amap := (k, v) :: remove k m.
  Definition mfilter (p : V -> bool) (m : amap) : amap := filter (fun kv => p (snd kv)) m.
  Definition values (m : amap) : list V := map snd m.
  Definition keys (m : amap) : list string := map fst m.
  Definition mem (k : string) (m : amap) : bool :=
    match lookup k m with Some _ => true | None => false end.

  Lemma lookup_remove_eq k m : lookup k (remove k m) = None.
  Proof.
    induction m as [|[k' v] m IH]; cbn; [reflexivity|].
    destruct (String.eqb k k') eqn:E; cbn; [exact IH|]. rewrite E. exact IH.
  Qed.

  Lemma lookup_remove_ne k k' m : k <> k' -> lookup k (remove k' m) = lookup k m.
  Proof.
    intros Hne. induction m as [|[k2 v] m IH]; cbn; [reflexivity|].
    destruct (String.eqb k' k2) eqn:E.
    - apply String.eqb_eq in E. subst k2.
      destruct (String.eqb k k') eqn:E2; [apply String.eqb_eq in E2; contradiction|]. exact IH.
    - cbn. destruct (String.eqb k k2); [reflexivity|exact IH].
  Qed.

  Lemma lookup_insert_eq k v m : lookup k (insert k v m) = Some v.
  Proof. unfold insert; cbn. rewrite String.eqb_refl. reflexivity. Qed.

  Lemma lookup_insert_ne k k' v m : k <> k' -> lookup k (insert k' v m) = lookup k m.
  Proof.
    intros Hne. unfold insert; cbn.
    destruct (String.eqb k k') eqn:E; [apply String.eqb_eq in E; contradiction|].
    apply lookup_remove_ne; assumption.
  Qed.

  Lemma lookup_insert k k' v m :
    lookup k (insert k' v m) = if String.eqb k k' then Some v else lookup k m.
  Proof.
    destruct (String.eqb k k') eqn:E.
    - apply String.eqb_eq in E; subst. apply lookup_insert_eq.
    - apply String.eqb_neq in E. apply lookup_insert_ne; assumption.
  Qed.

  Lemma lookup_remove k k' m :
    lookup k (remove k' m) = if String.eqb k k' then None else lookup k m.
  Proof.
    destruct (String.eqb k k') eqn:E.
    - apply String.eqb_eq in E; subst. apply lookup_remove_eq.
    - apply String.eqb_neq in E. apply lookup_remove_ne; assumption.
  Qed.

  Lemma lookup_In k v m : lookup k m = Some v -> In (k, v) m.
  Proof.
    induction m as [|[k' v'] m IH]; cbn; [discriminate|].
    destruct (String.eqb k k') eqn:E.
    - apply String.eqb_eq in E; subst. intros [= ->]. left; reflexivity.
    - intros H. right. apply IH, H.
  Qed.

  Lemma lookup_None_notin k m : lookup k m = None -> ~ In k (keys m).
  Proof.
    induction m as [|[k' v'] m IH]; cbn; [tauto|].
    destruct (String.eqb k k') eqn:E; [discriminate|].
    apply String.eqb_neq in E. intros H [Hk|Hk]; [congruence|]. exact (IH H Hk).
  Qed.

  Lemma notin_lookup_None k m : ~ In k (keys m) -> lookup k m = None.
  Proof.
    induction m as [|[k' v'] m IH]; cbn; [reflexivity|].
    intros H. destruct (String.eqb k k') eqn:E.
    - apply String.eqb_eq in E. subst. exfalso; apply H; left; reflexivity.
    - apply IH. intros Hk; apply H; right; exact Hk.
  Qed.

  Lemma In_lookup k v m : NoDup (keys m) -> In (k, v) m -> lookup k m = Some v.
  Proof.
    induction m as [|[k' v'] m IH]; cbn; [tauto|].
    intros Hnd [Heq|Hin].
    - injection Heq as -> ->. rewrite String.eqb_refl. reflexivity.
    - inversion Hnd as [|? ? Hni Hnd']; subst.
      destruct (String.eqb k k') eqn:E.
      + apply String.eqb_eq in E; subst. exfalso. apply Hni.
        change (In (fst (k', v)) (map fst m)). apply in_map. exact Hin.
      + apply IH; assumption.
  Qed.

  Lemma keys_remove_subset k k' m : In k (keys (remove k' m)) -> In k (keys m).
  Proof.
    induction m as [|[k2 v] m IH]; cbn; [tauto|].
    destruct (String.eqb k' k2); cbn.
    - intros H; right; apply IH, H.
    - intros [H|H]; [left; exact H|right; apply IH, H].
  Qed.

  Lemma remove_notin_keys k m : ~ In k (keys (remove k m)).
  Proof. apply lookup_None_notin, lookup_remove_eq. Qed.

  Lemma NoDup_remove k m : NoDup (keys m) -> NoDup (keys (remove k m)).
  Proof.
    induction m as [|[k2 v] m IH]; cbn; [constructor|].
    intros Hnd. inversion Hnd as [|? ? Hni Hnd']; subst.
    destruct (String.eqb k k2); cbn; [apply IH, Hnd'|].
    constructor; [|apply IH, Hnd'].
    intros H; apply Hni. eapply keys_remove_subset, H.
  Qed.

  Lemma NoDup_insert k v m : NoDup (keys m) -> NoDup (keys (insert k v m)).
  Proof.
    intros Hnd. unfold insert; cbn. constructor; [apply remove_notin_keys|apply NoDup_remove, Hnd].
  Qed.

  Lemma remove_notin_id k m : ~ In k (keys m) -> remove k m = m.
  Proof.
    induction m as [|[k2 v] m IH]; cbn; [reflexivity|].
    intros H. destruct (String.eqb k k2) eqn:E.
    - apply String.eqb_eq in E. subst. exfalso; apply H; left; reflexivity.
    - f_equal. apply IH. intros Hk; apply H; right; exact Hk.
  Qed.

  Lemma In_remove k k' v m : In (k, v) (remove k' m) -> In (k, v) m /\ k <> k'.
  Proof.
    induction m as [|[k2 v2] m IH]; cbn; [tauto|].
    destruct (String.eqb k' k2) eqn:E.
    - intros H. destruct (IH H) as [H1 H2]. split; [right; exact H1|exact H2].
    - apply String.eqb_neq in E. cbn. intros [H|H].
      + injection H as -> ->. split; [left; reflexivity|congruence].
      + destruct (IH H) as [H1 H2]. split; [right; exact H1|exact H2].
  Qed.

  Lemma In_remove_intro k k' v m : In (k, v) m -> k <> k' -> In (k, v) (remove k' m).
  Proof.
    induction m as [|[k2 v2] m IH]; cbn; [tauto|].
    intros [H|H] Hne.
    - injection H as -> ->. destruct (String.eqb k' k) eqn:E.
      + apply String.eqb_eq in E. congruence.
      + left; reflexivity.
    - destruct (String.eqb k' k2); [apply IH; assumption|right; apply IH; assumption].
  Qed.

  Lemma lookup_mfilter p k m :
    NoDup (keys m) ->
    lookup k (mfilter p m) = match lookup k m with Some v => if p v then Some v else None | None => None end.
  Proof.
    unfold mfilter. induction m as [|[k2 v2] m IH]; cbn; [reflexivity|].
    intros Hnd. inversion Hnd as [|? ? Hni Hnd']; subst.
    destruct (String.eqb k k2) eqn:E.
    - apply String.eqb_eq in E; subst k2.
      destruct (p v2) eqn:Ep; cbn.
      + rewrite String.eqb_refl. reflexivity.
      + rewrite (IH Hnd'). rewrite (notin_lookup_None _ _ Hni). reflexivity.
    - destruct (p v2); cbn; [rewrite E|]; apply IH, Hnd'.
  Qed.

  Lemma keys_mfilter_subset p k m : In k (keys (mfilter p m)) -> In k (keys m).
  Proof.
    induction m as [|[k2 v2] m IH]; cbn; [tauto|].
    destruct (p v2); cbn.
    - intros [H|H]; [left; exact H|right; apply IH, H].
    - intros H; right; apply IH, H.
  Qed.

  Lemma NoDup_mfilter p m : NoDup (keys m) -> NoDup (keys (mfilter p m)).
  Proof.
    induction m as [|[k2 v2] m IH]; cbn; [constructor|].
    intros Hnd. inversion Hnd as [|? ? Hni Hnd']; subst.
    destruct (p v2); cbn; [|apply IH, Hnd'].
    constructor; [|apply IH, Hnd']. intros H; apply Hni. eapply keys_mfilter_subset, H.
  Qed.

  Lemma In_values v m : In v (values m) <-> exists k, In (k, v) m.
  Proof.
    unfold values. rewrite in_map_iff. split.
    - intros [[k v'] [Hs Hin]]. cbn in Hs; subst. exists k; exact Hin.
    - intros [k Hin]. exists (k, v). split; [reflexivity|exact Hin].
  Qed.

  Lemma length_remove_le k m : List.length (remove k m) <= List.length m.
  Proof.
    induction m as [|[k2 v2] m IH]; cbn; [lia|]. destruct (String.eqb k k2); cbn; lia.
  Qed.
End AMap.
Arguments amap : clear implicits.
