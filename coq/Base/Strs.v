(* String helpers: hex transport encoding, strconv.ParseUint / FormatUint / Atoi / Itoa models. *)
From Coq Require Import List String Ascii NArith ZArith Bool Lia.
From Coq Require Import DecimalString DecimalN DecimalZ DecimalFacts DecimalPos.
Import ListNotations.
Open Scope string_scope. Open Scope list_scope.

(* ---- hex transport: every string crossing the harness boundary is hex encoded ---- *)
Definition hexval (c : ascii) : N :=
  let n := N_of_ascii c in
  if (48 <=? n)%N && (n <=? 57)%N then n - 48
  else if (97 <=? n)%N && (n <=? 102)%N then n - 87
  else if (65 <=? n)%N && (n <=? 70)%N then n - 55
  else 0.

Fixpoint unhex (s : string) : string :=
  match s with
  | String a (String b r) => String (ascii_of_N (hexval a * 16 + hexval b)) (unhex r)
  | _ => EmptyString
  end.
Notation "'h' s" := (unhex s) (at level 9, only parsing).

Definition bytes_of_string (s : string) : list N := map N_of_ascii (list_ascii_of_string s).
Definition string_of_bytes (l : list N) : string := string_of_list_ascii (map ascii_of_N l).

(* ---- strconv.FormatUint(n, 10) / ParseUint(s, 10, 64) ---- *)
Definition format_uint (n : N) : string := NilZero.string_of_uint (N.to_uint n).
Definition parse_uint (s : string) : option N :=
  match NilZero.uint_of_string s with
  | Some d => let n := N.of_uint d in if (n <? 2^64)%N then Some n else None
  | None => None
  end.

Lemma parse_format_uint n : (n < 2^64)%N -> parse_uint (format_uint n) = Some n.
Proof.
  intros Hn. unfold parse_uint, format_uint.
  rewrite NilZero.usu.
  - rewrite DecimalN.Unsigned.of_to. apply N.ltb_lt in Hn. rewrite Hn. reflexivity.
  - destruct n as [|p]; cbn; [discriminate|apply DecimalPos.Unsigned.to_uint_nonnil].
Qed.

(* ---- strconv.Atoi (int is 64 bit): optional sign then digits ---- *)
Definition atoi (s : string) : option Z :=
  match s with
  | String "-"%char r =>
      match NilZero.uint_of_string r with
      | Some d => let n := Z.of_N (N.of_uint d) in if (n <=? 2^63)%Z then Some (- n)%Z else None
      | None => None end
  | String "+"%char r =>
      match NilZero.uint_of_string r with
      | Some d => let n := Z.of_N (N.of_uint d) in if (n <? 2^63)%Z then Some n else None
      | None => None end
  | _ =>
      match NilZero.uint_of_string s with
      | Some d => let n := Z.of_N (N.of_uint d) in if (n <? 2^63)%Z then Some n else None
      | None => None end
  end.

Definition itoa (z : Z) : string :=
  if (z <? 0)%Z then String "-"%char (format_uint (Z.to_N (- z))) else format_uint (Z.to_N z).

Fixpoint prefixb (p s : string) : bool :=
  match p, s with
  | EmptyString, _ => true
  | String a p', String b s' => Ascii.eqb a b && prefixb p' s'
  | _, _ => false
  end.

Fixpoint drop (n : nat) (s : string) : string :=
  match n, s with
  | O, _ => s
  | S n', String _ s' => drop n' s'
  | _, EmptyString => EmptyString
  end.

Lemma prefixb_append p s : prefixb p (p ++ s) = true.
Proof. induction p as [|a p IH]; cbn; [reflexivity|]. rewrite Ascii.eqb_refl. exact IH. Qed.

Lemma drop_append p s : drop (String.length p) (p ++ s) = s.
Proof. induction p as [|a p IH]; cbn; [reflexivity|exact IH]. Qed.
