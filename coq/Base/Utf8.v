(* unicode/utf8.ValidString of the Go standard library, on byte strings (RFC 3629: no overlong forms, no surrogates,
   nothing above U+10FFFF). Model only. *)
From Coq Require Import List String Ascii NArith Bool.
From Piko Require Import Base.Strs.
Import ListNotations.
Open Scope N_scope.

Definition cont (b : N) : bool := (128 <=? b) && (b <=? 191).

Fixpoint valid_utf8_bytes (fuel : nat) (l : list N) : bool :=
  match fuel with
  | O => match l with [] => true | _ => false end
  | S f =>
      match l with
      | [] => true
      | b :: r =>
          if b <=? 127 then valid_utf8_bytes f r
          else if (194 <=? b) && (b <=? 223) then
            match r with c1 :: r' => cont c1 && valid_utf8_bytes f r' | _ => false end
          else if b =? 224 then
            match r with c1 :: c2 :: r' => (160 <=? c1) && (c1 <=? 191) && cont c2 && valid_utf8_bytes f r' | _ => false end
          else if ((225 <=? b) && (b <=? 236)) || (b =? 238) || (b =? 239) then
            match r with c1 :: c2 :: r' => cont c1 && cont c2 && valid_utf8_bytes f r' | _ => false end
          else if b =? 237 then
            match r with c1 :: c2 :: r' => (128 <=? c1) && (c1 <=? 159) && cont c2 && valid_utf8_bytes f r' | _ => false end
          else if b =? 240 then
            match r with c1 :: c2 :: c3 :: r' => (144 <=? c1) && (c1 <=? 191) && cont c2 && cont c3 && valid_utf8_bytes f r' | _ => false end
          else if (241 <=? b) && (b <=? 243) then
            match r with c1 :: c2 :: c3 :: r' => cont c1 && cont c2 && cont c3 && valid_utf8_bytes f r' | _ => false end
          else if b =? 244 then
            match r with c1 :: c2 :: c3 :: r' => (128 <=? c1) && (c1 <=? 143) && cont c2 && cont c3 && valid_utf8_bytes f r' | _ => false end
          else false
      end
  end.

Definition valid_utf8 (s : string) : bool :=
  let l := bytes_of_string s in valid_utf8_bytes (List.length l) l.

Example valid_utf8_examples :
  valid_utf8 "node-1" = true /\ valid_utf8 (unhex "c3a974c3a9") = true /\ valid_utf8 (unhex "db") = false /\
  valid_utf8 (unhex "61ff") = false /\ valid_utf8 (unhex "eda080") = false /\ valid_utf8 (unhex "c080") = false /\
  valid_utf8 (unhex "f0908080") = true /\ valid_utf8 (unhex "f4908080") = false /\ valid_utf8 "" = true.
Proof. vm_compute. repeat split; reflexivity. Qed.
