(* Proofs about the manager model (Upstream/Manager.v): the invariant tying balancers, cluster counts and gossip
   entries together, the refinement of the manager's map to one persistent balancer per endpoint, validity of
   selection, round robin and bounded waiting at manager level. *)
From Coq Require Import List String NArith ZArith Bool Arith Lia Permutation.
From Piko Require Import Base.Maps Base.Strs Gossip.Types Gossip.Local Upstream.Balancer Upstream.Manager.
From Piko Require Import UpstreamP.BalancerP UpstreamP.GossipLive.
Import ListNotations.
Open Scope string_scope. Open Scope list_scope. Open Scope nat_scope.

(* ------------------------------------------------------------------ specification-level notions *)
(* the upstreams connected for endpoint e according to the connect/disconnect history alone: a connect appends,
   a disconnect drops one occurrence if there is one (unknown / already removed: nothing happens) *)
Definition reg_step (e : string) (l : list N) (o : mop) : list N :=
  match o with
  | MAdd u e' => if String.eqb e' e then l ++ [u] else l
  | MRemove u e' => if String.eqb e' e then remove1 u l else l
  | _ => l
  end.
Definition registered (e : string) (ops : list mop) : list N := fold_left (reg_step e) ops [].

(* what the manager holds for e *)
Definition balancer_of (e : string) (s : mstate) : list N :=
  match lookup e (m_lbs s) with Some b => ups b | None => [] end.
(* ... seen as one persistent balancer (a missing entry is a fresh, empty balancer) *)
Definition view (e : string) (s : mstate) : lb :=
  match lookup e (m_lbs s) with Some b => b | None => lb_empty end.

(* the balancer operations an op performs on endpoint e *)
Definition mproj (e : string) (o : mop) : list bop :=
  match o with
  | MAdd u e' => if String.eqb e' e then [BAdd u] else []
  | MRemove u e' => if String.eqb e' e then [BRemove u] else []
  | MSelect e' _ => if String.eqb e' e then [BNext] else []
  | _ => []
  end.
Definition mprojs (e : string) (ops : list mop) : list bop := flat_map (mproj e) ops.
Definition sel_count (e : string) (ops : list mop) : nat := count_next (mprojs e ops).
Definition add_count (e : string) (ops : list mop) : nat := count_add (mprojs e ops).
Definition rem_count (e : string) (ops : list mop) : nat := count_remove (mprojs e ops).
(* no connect / disconnect for endpoint e in ops (anything else may happen: other endpoints, remote nodes) *)
Definition untouched (e : string) (ops : list mop) : bool :=
  forallb (fun o => match o with MAdd _ e' | MRemove _ e' => negb (String.eqb e' e) | _ => true end) ops.

(* run ops collecting the results of the selections for endpoint e *)
Fixpoint mrun_sel (e : string) (s : mstate) (ops : list mop) : list sel * mstate :=
  match ops with
  | [] => ([], s)
  | o :: r =>
      let '(s1, res) := mstep s o in
      let '(rs, s2) := mrun_sel e s1 r in
      (match o, res with
       | MSelect e' _, Some x => if String.eqb e' e then x :: rs else rs
       | _, _ => rs
       end, s2)
  end.

Definition sel_of_next (r : option N) : sel := match r with Some u => SLocal u | None => SNil end.

(* ------------------------------------------------------------------ the invariant *)
Definition cnt_opt (n : nat) : option N := if Nat.eqb n 0 then None else Some (N.of_nat n).
Definition adv_opt (n : nat) : option string := if Nat.eqb n 0 then None else Some (itoa (Z.of_nat n)).

Record minv (s : mstate) : Prop := {
  inv_lbs : forall e b, lookup e (m_lbs s) = Some b -> ups b <> [] /\ nxt b < List.length (ups b);
  inv_cnt : forall e, lookup e (m_counts s) = cnt_opt (registered_count e s);
  inv_gsp : forall e, gossip_live (ep_key e) (m_gossip s) = adv_opt (registered_count e s);
  inv_rem : NoDup (keys (m_remote s)) /\ ~ In (m_local s) (keys (m_remote s))
}.

Lemma minv_init id g p a : minv (minit id g p a).
Proof.
  constructor.
  - intros e b H. cbn in H. discriminate.
  - intros e. reflexivity.
  - intros e. rewrite gl_init. reflexivity.
  - cbn. split; [constructor|tauto].
Qed.

Lemma rc_ext e s1 s2 : m_lbs s1 = m_lbs s2 -> registered_count e s1 = registered_count e s2.
Proof. unfold registered_count. intros ->. reflexivity. Qed.

Lemma lbs_remove_local e s : m_lbs (remove_local_endpoint e s) = m_lbs s.
Proof. unfold remove_local_endpoint. destruct (lookup e (m_counts s)) as [c|]; [destruct (c =? 0)%N|]; reflexivity. Qed.
Lemma remote_remove_local e s : m_remote (remove_local_endpoint e s) = m_remote s.
Proof. unfold remove_local_endpoint. destruct (lookup e (m_counts s)) as [c|]; [destruct (c =? 0)%N|]; reflexivity. Qed.
Lemma local_remove_local e s : m_local (remove_local_endpoint e s) = m_local s.
Proof. unfold remove_local_endpoint. destruct (lookup e (m_counts s)) as [c|]; [destruct (c =? 0)%N|]; reflexivity. Qed.

Lemma ep_key_ne e e' : e <> e' -> ep_key e <> ep_key e'.
Proof. intros H Hk. apply H, ep_key_inj, Hk. Qed.

(* AddLocalEndpoint + subscriber: the count of e0 goes from n to n+1, cluster and gossip side alike *)
Lemma add_local_spec e0 s n :
  lookup e0 (m_counts s) = cnt_opt n ->
  let s' := add_local_endpoint e0 s in
  lookup e0 (m_counts s') = cnt_opt (S n) /\
  gossip_live (ep_key e0) (m_gossip s') = adv_opt (S n) /\
  (forall e, e <> e0 -> lookup e (m_counts s') = lookup e (m_counts s) /\
                        gossip_live (ep_key e) (m_gossip s') = gossip_live (ep_key e) (m_gossip s)).
Proof.
  intros Hc. cbn zeta.
  unfold add_local_endpoint, on_local_endpoint_update, local_listeners.
  cbn [set_counts set_gossip m_counts m_gossip m_lbs m_remote m_local].
  rewrite lookup_insert_eq, Hc.
  assert (Hv : (match cnt_opt n with Some c => c | None => 0 end + 1)%N = N.of_nat (S n)).
  { unfold cnt_opt. destruct (Nat.eqb n 0) eqn:E; [apply Nat.eqb_eq in E; subst; reflexivity|lia]. }
  rewrite Hv.
  assert (Hpos : (0 <? N.of_nat (S n))%N = true) by (apply N.ltb_lt; lia).
  rewrite Hpos. rewrite nat_N_Z.
  split; [reflexivity|]. split; [apply gl_upsert_eq|].
  intros e Hne. split.
  - apply lookup_insert_ne, Hne.
  - apply gl_upsert_ne, ep_key_ne, Hne.
Qed.

(* RemoveLocalEndpoint + subscriber: from n+1 to n *)
Lemma remove_local_spec e0 s n :
  lookup e0 (m_counts s) = cnt_opt (S n) ->
  let s' := remove_local_endpoint e0 s in
  lookup e0 (m_counts s') = cnt_opt n /\
  gossip_live (ep_key e0) (m_gossip s') = adv_opt n /\
  (forall e, e <> e0 -> lookup e (m_counts s') = lookup e (m_counts s) /\
                        gossip_live (ep_key e) (m_gossip s') = gossip_live (ep_key e) (m_gossip s)).
Proof.
  intros Hc.
  assert (H0 : (N.of_nat (S n) =? 0)%N = false) by (apply N.eqb_neq; lia).
  assert (Hs : remove_local_endpoint e0 s =
               on_local_endpoint_update e0
                 (set_counts s (if (1 <? N.of_nat (S n))%N then insert e0 (N.of_nat (S n) - 1)%N (m_counts s)
                                else remove e0 (m_counts s)))).
  { unfold remove_local_endpoint. rewrite Hc. unfold cnt_opt. cbn [Nat.eqb]. rewrite H0. reflexivity. }
  cbn zeta. rewrite Hs. clear Hs.
  unfold on_local_endpoint_update, local_listeners.
  cbn [set_counts set_gossip m_counts m_gossip m_lbs m_remote m_local].
  destruct (1 <? N.of_nat (S n))%N eqn:E1.
  - apply N.ltb_lt in E1. assert (Hn : n <> 0) by lia.
    rewrite lookup_insert_eq.
    assert (Hv : (N.of_nat (S n) - 1)%N = N.of_nat n) by lia. rewrite Hv.
    assert (Hpos : (0 <? N.of_nat n)%N = true) by (apply N.ltb_lt; lia). rewrite Hpos, nat_N_Z.
    unfold cnt_opt, adv_opt. apply Nat.eqb_neq in Hn. rewrite Hn.
    split; [reflexivity|]. split; [apply gl_upsert_eq|].
    intros e Hne. split; [apply lookup_insert_ne, Hne|apply gl_upsert_ne, ep_key_ne, Hne].
  - apply N.ltb_ge in E1. assert (Hn : n = 0) by lia. subst n.
    rewrite lookup_remove_eq. cbn [N.ltb N.compare].
    split; [reflexivity|]. split; [apply gl_delete_eq|].
    intros e Hne. split; [apply lookup_remove_ne, Hne|apply gl_delete_ne, ep_key_ne, Hne].
Qed.

Lemma lbs_add_local e s : m_lbs (add_local_endpoint e s) = m_lbs s. Proof. reflexivity. Qed.
Lemma remote_add_local e s : m_remote (add_local_endpoint e s) = m_remote s. Proof. reflexivity. Qed.
Lemma local_add_local e s : m_local (add_local_endpoint e s) = m_local s. Proof. reflexivity. Qed.

Lemma eqb_dec (a b : string) : {a = b} + {a <> b}.
Proof. destruct (String.eqb a b) eqn:E; [left; apply String.eqb_eq, E|right; apply String.eqb_neq, E]. Qed.

(* ---- AddConn ---- *)
Lemma add_conn_lbs u e0 s :
  m_lbs (add_conn u e0 s) = insert e0 (lb_add u (view e0 s)) (m_lbs s).
Proof. unfold add_conn, view. reflexivity. Qed.

Lemma rc_insert e e0 b s l :
  m_lbs s = insert e0 b l ->
  registered_count e s = if String.eqb e e0 then List.length (ups b) else match lookup e l with Some b' => List.length (ups b') | None => O end.
Proof. unfold registered_count. intros ->. rewrite lookup_insert. destruct (String.eqb e e0); reflexivity. Qed.

Lemma minv_add_conn u e0 s : minv s -> minv (add_conn u e0 s).
Proof.
  intros [Hl Hc Hg Hr].
  assert (Hrc0 : registered_count e0 (add_conn u e0 s) = S (registered_count e0 s)).
  { rewrite (rc_insert e0 e0 _ _ _ (add_conn_lbs u e0 s)), String.eqb_refl.
    unfold lb_add, view, registered_count. cbn [ups]. rewrite app_length. cbn [List.length].
    destruct (lookup e0 (m_lbs s)); cbn; lia. }
  assert (Hrcne : forall e, e <> e0 -> registered_count e (add_conn u e0 s) = registered_count e s).
  { intros e Hne. rewrite (rc_insert e e0 _ _ _ (add_conn_lbs u e0 s)).
    apply String.eqb_neq in Hne. rewrite Hne. reflexivity. }
  pose proof (add_local_spec e0 (set_lbs s (insert e0 (lb_add u (view e0 s)) (m_lbs s))) (registered_count e0 s) (Hc e0))
    as [H1 [H2 H3]].
  change (add_local_endpoint e0 (set_lbs s (insert e0 (lb_add u (view e0 s)) (m_lbs s)))) with (add_conn u e0 s) in *.
  constructor.
  - intros e b. rewrite add_conn_lbs, lookup_insert.
    destruct (String.eqb e e0) eqn:E.
    + intros [= <-]. split; [apply lb_add_nonempty|].
      unfold lb_add, view. cbn [ups nxt]. rewrite app_length. cbn [List.length].
      destruct (lookup e0 (m_lbs s)) as [b0|] eqn:E0; [destruct (Hl _ _ E0); lia|cbn; lia].
    + apply Hl.
  - intros e. destruct (eqb_dec e e0) as [->|Hne].
    + rewrite Hrc0. exact H1.
    + rewrite (Hrcne e Hne). destruct (H3 e Hne) as [H4 _]. rewrite H4. apply Hc.
  - intros e. destruct (eqb_dec e e0) as [->|Hne].
    + rewrite Hrc0. exact H2.
    + rewrite (Hrcne e Hne). destruct (H3 e Hne) as [_ H4]. rewrite H4. apply Hg.
  - exact Hr.
Qed.

(* ---- RemoveConn ---- *)
(* the three outcomes of Remove on a balancer that is stored in the manager *)
Lemma lb_remove_cases u b :
  ups b <> [] -> nxt b < List.length (ups b) ->
  (remove_first u (ups b) = None /\ lb_remove u b = (b, false)) \/
  (lb_remove u b = (lb_empty, true) /\ List.length (ups b) = 1 /\ remove1 u (ups b) = []) \/
  (exists b', lb_remove u b = (b', false) /\ ups b' = remove1 u (ups b) /\ ups b' <> [] /\
              nxt b' < List.length (ups b') /\ List.length (ups b) = S (List.length (ups b'))).
Proof.
  intros Hne Hlt. unfold lb_remove. rewrite remove_first_remove1.
  destruct (remove_first u (ups b)) as [[|x l]|] eqn:E.
  - right; left. apply remove_first_length in E. cbn in E.
    assert (nxt b = 0) by lia. split; [|split; [exact E|reflexivity]].
    unfold lb_empty. rewrite H. reflexivity.
  - right; right. eexists. split; [reflexivity|]. cbn [ups nxt].
    split; [reflexivity|]. split; [discriminate|].
    split; [apply Nat.mod_upper_bound; cbn; lia|]. apply remove_first_length in E. exact E.
  - left. split; [reflexivity|]. destruct (ups b); [contradiction|reflexivity].
Qed.

Lemma minv_remove_conn u e0 s : minv s -> minv (remove_conn u e0 s).
Proof.
  intros Hinv. pose proof Hinv as [Hl Hc Hg Hr].
  unfold remove_conn. destruct (lookup e0 (m_lbs s)) as [b|] eqn:E0; [|exact Hinv].
  destruct (Hl _ _ E0) as [Hne Hlt].
  assert (Hrc : registered_count e0 s = List.length (ups b)) by (unfold registered_count; rewrite E0; reflexivity).
  destruct (lb_remove_cases u b Hne Hlt) as [[Hnf Hrm]|[[Hrm [Hlen Hr1]]|[b' [Hrm [Hu [Hne' [Hlt' Hlen]]]]]]]; rewrite Hrm.
  - (* not registered: nothing to deregister *)
    rewrite Nat.eqb_refl.
    constructor; cbn [set_lbs m_lbs m_counts m_gossip m_remote m_local].
    + intros e b1. rewrite lookup_insert. destruct (String.eqb e e0) eqn:E; [intros [= <-]; auto|apply Hl].
    + intros e. rewrite (Hc e). f_equal. unfold registered_count. cbn [set_lbs m_lbs].
      rewrite lookup_insert. destruct (String.eqb e e0) eqn:E; [apply String.eqb_eq in E; subst; rewrite E0|]; reflexivity.
    + intros e. rewrite (Hg e). f_equal. unfold registered_count. cbn [set_lbs m_lbs].
      rewrite lookup_insert. destruct (String.eqb e e0) eqn:E; [apply String.eqb_eq in E; subst; rewrite E0|]; reflexivity.
    + exact Hr.
  - (* the last upstream of the endpoint *)
    cbn [ups lb_empty List.length]. rewrite Hlen. cbn [Nat.eqb].
    set (s1 := set_lbs s (remove e0 (m_lbs s))).
    assert (Hc1 : lookup e0 (m_counts s1) = cnt_opt 1) by (cbn [s1 set_lbs m_counts]; rewrite Hc, Hrc, Hlen; reflexivity).
    pose proof (remove_local_spec e0 s1 0 Hc1) as [H1 [H2 H3]].
    assert (Hrc0 : registered_count e0 (remove_local_endpoint e0 s1) = 0).
    { unfold registered_count. rewrite lbs_remove_local. cbn [s1 set_lbs m_lbs]. rewrite lookup_remove_eq. reflexivity. }
    assert (Hrcne : forall e, e <> e0 -> registered_count e (remove_local_endpoint e0 s1) = registered_count e s).
    { intros e Hne0. unfold registered_count. rewrite lbs_remove_local. cbn [s1 set_lbs m_lbs].
      rewrite lookup_remove_ne by exact Hne0. reflexivity. }
    constructor.
    + intros e b1. rewrite lbs_remove_local. cbn [s1 set_lbs m_lbs]. rewrite lookup_remove.
      destruct (String.eqb e e0); [discriminate|apply Hl].
    + intros e. destruct (eqb_dec e e0) as [->|Hne0].
      * rewrite Hrc0. exact H1.
      * rewrite (Hrcne e Hne0). destruct (H3 e Hne0) as [H4 _]. rewrite H4. apply Hc.
    + intros e. destruct (eqb_dec e e0) as [->|Hne0].
      * rewrite Hrc0. exact H2.
      * rewrite (Hrcne e Hne0). destruct (H3 e Hne0) as [_ H4]. rewrite H4. apply Hg.
    + rewrite remote_remove_local, local_remove_local. exact Hr.
  - (* one of several *)
    assert (Hneq : Nat.eqb (List.length (ups b')) (List.length (ups b)) = false) by (apply Nat.eqb_neq; lia).
    rewrite Hneq.
    set (s1 := set_lbs s (insert e0 b' (m_lbs s))).
    assert (Hc1 : lookup e0 (m_counts s1) = cnt_opt (S (List.length (ups b'))))
      by (cbn [s1 set_lbs m_counts]; rewrite Hc, Hrc, Hlen; reflexivity).
    pose proof (remove_local_spec e0 s1 _ Hc1) as [H1 [H2 H3]].
    assert (Hrc0 : registered_count e0 (remove_local_endpoint e0 s1) = List.length (ups b')).
    { unfold registered_count. rewrite lbs_remove_local. cbn [s1 set_lbs m_lbs]. rewrite lookup_insert_eq. reflexivity. }
    assert (Hrcne : forall e, e <> e0 -> registered_count e (remove_local_endpoint e0 s1) = registered_count e s).
    { intros e Hne0. unfold registered_count. rewrite lbs_remove_local. cbn [s1 set_lbs m_lbs].
      rewrite lookup_insert_ne by exact Hne0. reflexivity. }
    constructor.
    + intros e b1. rewrite lbs_remove_local. cbn [s1 set_lbs m_lbs]. rewrite lookup_insert.
      destruct (String.eqb e e0); [intros [= <-]; auto|apply Hl].
    + intros e. destruct (eqb_dec e e0) as [->|Hne0].
      * rewrite Hrc0. exact H1.
      * rewrite (Hrcne e Hne0). destruct (H3 e Hne0) as [H4 _]. rewrite H4. apply Hc.
    + intros e. destruct (eqb_dec e e0) as [->|Hne0].
      * rewrite Hrc0. exact H2.
      * rewrite (Hrcne e Hne0). destruct (H3 e Hne0) as [_ H4]. rewrite H4. apply Hg.
    + rewrite remote_remove_local, local_remove_local. exact Hr.
Qed.

(* ---- Select ---- *)
Lemma select_state e allow s :
  snd (select e allow s) =
  match lookup e (m_lbs s) with
  | Some b => set_lbs s (insert e (snd (lb_next b)) (m_lbs s))
  | None => s
  end.
Proof.
  unfold select. destruct (lookup e (m_lbs s)) as [b|].
  - destruct (lb_next b); reflexivity.
  - destruct allow; [destruct (candidates e s)|]; reflexivity.
Qed.

Lemma minv_select e0 allow s : minv s -> minv (snd (select e0 allow s)).
Proof.
  intros Hinv. pose proof Hinv as [Hl Hc Hg Hr]. rewrite select_state.
  destruct (lookup e0 (m_lbs s)) as [b|] eqn:E0; [|exact Hinv].
  destruct (Hl _ _ E0) as [Hne Hlt].
  assert (Hrcq : forall e, registered_count e (set_lbs s (insert e0 (snd (lb_next b)) (m_lbs s))) = registered_count e s).
  { intros e. unfold registered_count. cbn [set_lbs m_lbs]. rewrite lookup_insert.
    destruct (String.eqb e e0) eqn:E; [|reflexivity].
    apply String.eqb_eq in E; subst. rewrite E0, lb_next_ups. reflexivity. }
  constructor; cbn [set_lbs m_lbs m_counts m_gossip m_remote m_local].
  - intros e b1. rewrite lookup_insert. destruct (String.eqb e e0); [|apply Hl].
    intros [= <-]. split; [rewrite lb_next_ups; exact Hne|].
    apply lb_inv_nonempty; [exact (lb_next_inv b (or_intror Hlt))|rewrite lb_next_ups; exact Hne].
  - intros e. rewrite Hrcq. apply Hc.
  - intros e. rewrite Hrcq. apply Hg.
  - exact Hr.
Qed.

(* ---- remote-node mutators leave everything local alone ---- *)
Lemma minv_set_remote s r :
  minv s -> NoDup (keys r) -> ~ In (m_local s) (keys r) -> minv (set_remote s r).
Proof. intros [Hl Hc Hg Hr] H1 H2. constructor; cbn [set_remote m_lbs m_counts m_gossip m_remote m_local]; auto. Qed.

Lemma notin_insert k k' (v : rnode) m : k <> k' -> ~ In k (keys m) -> ~ In k (keys (insert k' v m)).
Proof.
  intros Hne Hni. unfold insert. cbn. intros [H|H]; [congruence|]. apply Hni. eapply keys_remove_subset, H.
Qed.

Lemma minv_remote_ops s o :
  minv s ->
  match o with
  | MAddNode id st eps => minv (add_node id st eps s)
  | MRemoveNode id => minv (remove_node id s)
  | MStatus id st => minv (update_remote_status id st s)
  | MRemoteEp id e n => minv (update_remote_endpoint id e n s)
  | MRemoteEpDel id e => minv (remove_remote_endpoint id e s)
  | _ => True
  end.
Proof.
  intros Hinv. pose proof Hinv as [_ _ _ [Hnd Hnl]].
  destruct o as [| | |id st eps|id|id st|id e n|id e]; try exact I;
    unfold add_node, remove_node, update_remote_status, update_remote_endpoint, remove_remote_endpoint;
    destruct (String.eqb id (m_local s)) eqn:E; try exact Hinv; apply String.eqb_neq in E.
  - apply minv_set_remote; [exact Hinv|apply NoDup_insert, Hnd|apply notin_insert; [congruence|exact Hnl]].
  - apply minv_set_remote; [exact Hinv|apply NoDup_remove, Hnd|].
    intros H. apply Hnl. eapply keys_remove_subset, H.
  - destruct (lookup id (m_remote s)); [|exact Hinv].
    apply minv_set_remote; [exact Hinv|apply NoDup_insert, Hnd|apply notin_insert; [congruence|exact Hnl]].
  - destruct (lookup id (m_remote s)); [|exact Hinv].
    apply minv_set_remote; [exact Hinv|apply NoDup_insert, Hnd|apply notin_insert; [congruence|exact Hnl]].
  - destruct (lookup id (m_remote s)); [|exact Hinv].
    apply minv_set_remote; [exact Hinv|apply NoDup_insert, Hnd|apply notin_insert; [congruence|exact Hnl]].
Qed.

Lemma minv_mstep s o : minv s -> minv (fst (mstep s o)).
Proof.
  intros Hinv. pose proof (minv_remote_ops s o Hinv) as Hrem.
  destruct o as [u e|u e|e allow|id st eps|id|id st|id e n|id e]; cbn [mstep fst]; try exact Hrem.
  - apply minv_add_conn, Hinv.
  - apply minv_remove_conn, Hinv.
  - pose proof (minv_select e allow s Hinv) as H. destruct (select e allow s). exact H.
Qed.

Lemma minv_mrun ops : forall s, minv s -> minv (mrun s ops).
Proof.
  unfold mrun. induction ops as [|o r IH]; intros s H; cbn [fold_left]; [exact H|]. apply IH, minv_mstep, H.
Qed.

Lemma mrun_app s ops1 ops2 : mrun s (ops1 ++ ops2) = mrun (mrun s ops1) ops2.
Proof. unfold mrun. apply fold_left_app. Qed.

Lemma mrun_sel_state e ops : forall s, snd (mrun_sel e s ops) = mrun s ops.
Proof.
  induction ops as [|o r IH]; intros s; cbn [mrun_sel]; [reflexivity|].
  unfold mrun. cbn [fold_left]. fold (mrun (fst (mstep s o)) r).
  destruct (mstep s o) as [s1 res]. specialize (IH s1). destruct (mrun_sel e s1 r) as [rs s2].
  cbn [snd fst] in *. exact IH.
Qed.

(* ------------------------------------------------------------------ refinement: one persistent balancer per endpoint *)
Lemma view_inv e s : minv s -> lb_inv (view e s).
Proof.
  intros [Hl _ _ _]. unfold view. destruct (lookup e (m_lbs s)) as [b|] eqn:E; [|apply lb_inv_empty].
  right. apply (Hl _ _ E).
Qed.

Lemma balancer_of_view e s : balancer_of e s = ups (view e s).
Proof. unfold balancer_of, view. destruct (lookup e (m_lbs s)); reflexivity. Qed.

Lemma view_ext e s1 s2 : m_lbs s1 = m_lbs s2 -> view e s1 = view e s2.
Proof. unfold view. intros ->. reflexivity. Qed.

Lemma remove_conn_lbs u e0 s :
  m_lbs (remove_conn u e0 s) =
  match lookup e0 (m_lbs s) with
  | None => m_lbs s
  | Some b => if snd (lb_remove u b) then remove e0 (m_lbs s) else insert e0 (fst (lb_remove u b)) (m_lbs s)
  end.
Proof.
  unfold remove_conn. destruct (lookup e0 (m_lbs s)) as [b|]; [|reflexivity].
  destruct (lb_remove u b) as [b' empty]. cbn [fst snd].
  destruct (Nat.eqb (List.length (ups b')) (List.length (ups b))); [|rewrite lbs_remove_local]; reflexivity.
Qed.

(* one step of the manager = the projected balancer ops on the persistent balancer of e; a balancer result
   [Some u] is what Select returned *)
Lemma step_refines e s o :
  minv s ->
  view e (fst (mstep s o)) = fst (lb_run (view e s) (mproj e o)) /\
  (forall u, In (Some u) (snd (lb_run (view e s) (mproj e o))) ->
             exists e' a, o = MSelect e' a /\ String.eqb e' e = true /\ snd (mstep s o) = Some (SLocal u)).
Proof.
  intros Hinv. pose proof Hinv as [Hl _ _ _].
  destruct o as [u e0|u e0|e0 allow|id st eps|id|id st|id e1 n|id e1]; cbn [mstep fst snd mproj].
  - (* add *)
    destruct (String.eqb e0 e) eqn:E; cbn [lb_run lb_step fst snd app].
    + apply String.eqb_eq in E; subst e0. split; [|intros u0 []].
      unfold view at 1. rewrite add_conn_lbs, lookup_insert_eq. reflexivity.
    + split; [|intros u0 []]. unfold view. rewrite add_conn_lbs, lookup_insert_ne; [reflexivity|].
      apply String.eqb_neq in E. congruence.
  - (* remove *)
    destruct (String.eqb e0 e) eqn:E; cbn [lb_run lb_step fst snd app].
    + apply String.eqb_eq in E; subst e0. split; [|intros u0 []].
      unfold view. rewrite remove_conn_lbs.
      destruct (lookup e (m_lbs s)) as [b|] eqn:E0.
      * destruct (Hl _ _ E0) as [Hne Hlt].
        destruct (lb_remove_cases u b Hne Hlt) as [[_ Hrm]|[[Hrm _]|[b' [Hrm _]]]]; rewrite Hrm; cbn [fst snd].
        -- rewrite lookup_insert_eq. reflexivity.
        -- rewrite lookup_remove_eq. reflexivity.
        -- rewrite lookup_insert_eq. reflexivity.
      * rewrite E0. reflexivity.
    + split; [|intros u0 []]. unfold view. rewrite remove_conn_lbs.
      apply String.eqb_neq in E.
      destruct (lookup e0 (m_lbs s)) as [b|]; [|reflexivity].
      destruct (snd (lb_remove u b)); [rewrite lookup_remove_ne by congruence|rewrite lookup_insert_ne by congruence]; reflexivity.
  - (* select *)
    pose proof (select_state e0 allow s) as Hst.
    destruct (String.eqb e0 e) eqn:E; cbn [lb_run lb_step fst snd app].
    + apply String.eqb_eq in E; subst e0.
      unfold select in *. unfold view.
      destruct (lookup e (m_lbs s)) as [b|] eqn:E0.
      * destruct (lb_next b) as [r b'] eqn:En. cbn [fst snd] in *. split.
        -- cbn [set_lbs m_lbs]. rewrite lookup_insert_eq. reflexivity.
        -- intros u0 [H|[]]. subst r. exists e, allow. split; [reflexivity|]. split; [apply String.eqb_refl|reflexivity].
      * assert (Hs : fst (let '(r, s') := if allow then match candidates e s with [] => (SNone, s) | _ :: _ => (SRemote (candidates e s), s) end else (SNone, s) in (s', Some r)) = s)
          by (destruct allow; [destruct (candidates e s)|]; reflexivity).
        split.
        -- destruct allow; [destruct (candidates e s)|]; cbn [fst]; rewrite E0; reflexivity.
        -- cbn [lb_next lb_empty ups]. intros u0 [H|[]]. discriminate.
    + split; [|intros u0 []].
      destruct (select e0 allow s) as [r s'] eqn:Es. cbn [fst snd] in *. subst s'.
      apply String.eqb_neq in E.
      destruct (lookup e0 (m_lbs s)) as [b|]; [|reflexivity].
      unfold view. cbn [set_lbs m_lbs]. rewrite lookup_insert_ne by congruence. reflexivity.
  - split; [|intros u0 []]. apply view_ext. unfold add_node. destruct (String.eqb id (m_local s)); reflexivity.
  - split; [|intros u0 []]. apply view_ext. unfold remove_node. destruct (String.eqb id (m_local s)); reflexivity.
  - split; [|intros u0 []]. apply view_ext. unfold update_remote_status.
    destruct (String.eqb id (m_local s)); [|destruct (lookup id (m_remote s))]; reflexivity.
  - split; [|intros u0 []]. apply view_ext. unfold update_remote_endpoint.
    destruct (String.eqb id (m_local s)); [|destruct (lookup id (m_remote s))]; reflexivity.
  - split; [|intros u0 []]. apply view_ext. unfold remove_remote_endpoint.
    destruct (String.eqb id (m_local s)); [|destruct (lookup id (m_remote s))]; reflexivity.
Qed.

Lemma run_refines e ops : forall s,
  minv s ->
  view e (mrun s ops) = fst (lb_run (view e s) (mprojs e ops)) /\
  (forall u, In (Some u) (snd (lb_run (view e s) (mprojs e ops))) -> In (SLocal u) (fst (mrun_sel e s ops))).
Proof.
  unfold mprojs. induction ops as [|o r IH]; intros s Hinv; cbn [flat_map mrun_sel].
  - cbn [lb_run fst snd]. split; [reflexivity|intros u []].
  - destruct (step_refines e s o Hinv) as [Hv Hres].
    pose proof (minv_mstep s o Hinv) as Hinv1.
    unfold mrun. cbn [fold_left]. fold (mrun (fst (mstep s o)) r).
    destruct (mstep s o) as [s1 res] eqn:Est. cbn [fst snd] in *.
    destruct (IH s1 Hinv1) as [IH1 IH2].
    rewrite lb_run_app. cbn [fst snd]. rewrite <- Hv. split; [exact IH1|].
    destruct (mrun_sel e s1 r) as [rs s2]. cbn [fst] in *.
    intros u Hin. apply in_app_or in Hin as [Hin|Hin].
    + destruct (Hres u Hin) as [e' [a [-> [He Hr]]]]. rewrite Hr, He. left; reflexivity.
    + specialize (IH2 u Hin).
      destruct o; try exact IH2. destruct res; [|exact IH2]. destruct (String.eqb e0 e); [right|]; exact IH2.
Qed.

(* the manager's slice for e is exactly the connect/disconnect history of e *)
Lemma proj_ups e ops : forall b,
  ups (fst (lb_run b (mprojs e ops))) = fold_left (reg_step e) ops (ups b).
Proof.
  unfold mprojs. induction ops as [|o r IH]; intros b; cbn [flat_map fold_left]; [reflexivity|].
  rewrite lb_run_app. cbn [fst]. rewrite IH. f_equal.
  destruct o as [u e0|u e0|e0 allow| | | | |]; cbn [mproj reg_step]; try reflexivity.
  - destruct (String.eqb e0 e); reflexivity.
  - destruct (String.eqb e0 e); cbn [lb_run lb_step fst]; [|reflexivity].
    pose proof (lb_remove_ups u b) as H. destruct (lb_remove u b). exact H.
  - destruct (String.eqb e0 e); cbn [lb_run lb_step fst]; [|reflexivity].
    pose proof (lb_next_ups b) as H. destruct (lb_next b). exact H.
Qed.

Lemma balancer_is_history e ops s :
  minv s -> balancer_of e (mrun s ops) = fold_left (reg_step e) ops (balancer_of e s).
Proof.
  intros Hinv. rewrite !balancer_of_view. destruct (run_refines e ops s Hinv) as [H _]. rewrite H. apply proj_ups.
Qed.

Lemma registered_init e ops id g p a : balancer_of e (mrun (minit id g p a) ops) = registered e ops.
Proof. rewrite balancer_is_history by apply minv_init. reflexivity. Qed.

(* an upstream that was disconnected and not connected again is not registered (when it was connected at most once) *)
Lemma reg_fold_notin e u ops : forall l,
  ~ In u l -> (forall o, In o ops -> o <> MAdd u e) -> ~ In u (fold_left (reg_step e) ops l).
Proof.
  induction ops as [|o r IH]; intros l Hni Hno; cbn [fold_left]; [exact Hni|].
  apply IH; [|intros o' Ho'; apply Hno; right; exact Ho'].
  destruct o as [v e0|v e0| | | | | |]; cbn [reg_step]; try exact Hni.
  - destruct (String.eqb e0 e) eqn:E; [|exact Hni].
    apply String.eqb_eq in E; subst e0. intros Hin. apply in_app_or in Hin as [Hin|[Hin|[]]]; [contradiction|].
    subst v. apply (Hno (MAdd u e)); [left; reflexivity|reflexivity].
  - destruct (String.eqb e0 e); [|exact Hni]. intros Hin. apply Hni. eapply remove1_subset, Hin.
Qed.

Lemma removed_not_registered e u ops1 ops2 :
  count_occ N.eq_dec (registered e ops1) u <= 1 ->
  (forall o, In o ops2 -> o <> MAdd u e) ->
  ~ In u (registered e (ops1 ++ MRemove u e :: ops2)).
Proof.
  intros Hc Hno. unfold registered. rewrite fold_left_app. cbn [fold_left reg_step]. rewrite String.eqb_refl.
  apply reg_fold_notin; [apply remove1_count, Hc|exact Hno].
Qed.

(* ------------------------------------------------------------------ validity of Select *)
Lemma candidates_spec e s n :
  minv s -> In n (candidates e s) ->
  n <> m_local s /\
  exists nd, lookup n (m_remote s) = Some nd /\ r_status nd = statusActive /\
             exists k, lookup e (r_eps nd) = Some k /\ (0 < k)%Z.
Proof.
  intros [_ _ _ [Hnd _]] Hin. unfold candidates in Hin.
  apply in_map_iff in Hin as [[n' nd] [Hn Hf]]. cbn in Hn. subst n'.
  apply filter_In in Hf as [Hin Hc]. unfold is_candidate in Hc. cbn [fst snd] in Hc.
  apply andb_true_iff in Hc as [Hc H3]. apply andb_true_iff in Hc as [H1 H2].
  split; [apply String.eqb_neq; apply negb_true_iff in H1; exact H1|].
  exists nd. split; [apply In_lookup; assumption|]. split; [apply String.eqb_eq, H2|].
  destruct (lookup e (r_eps nd)) as [k|]; [|discriminate]. exists k. split; [reflexivity|apply Z.ltb_lt, H3].
Qed.

Lemma select_valid e allow s :
  minv s ->
  match fst (select e allow s) with
  | SLocal u => In u (balancer_of e s)
  | SNil => False
  | SRemote c =>
      allow = true /\ lookup e (m_lbs s) = None /\ balancer_of e s = [] /\ c <> [] /\
      forall n, In n c ->
        n <> m_local s /\
        exists nd, lookup n (m_remote s) = Some nd /\ r_status nd = statusActive /\
                   exists k, lookup e (r_eps nd) = Some k /\ (0 < k)%Z
  | SNone => lookup e (m_lbs s) = None /\ balancer_of e s = [] /\ (allow = false \/ candidates e s = [])
  end.
Proof.
  intros Hinv. pose proof Hinv as [Hl _ _ _]. unfold select, balancer_of.
  destruct (lookup e (m_lbs s)) as [b|] eqn:E0.
  - destruct (Hl _ _ E0) as [Hne Hlt].
    destruct (lb_next_some b (or_intror Hlt) Hne) as [u [Hu Hin]].
    destruct (lb_next b) as [r b']. cbn [fst] in *. subst r. exact Hin.
  - destruct allow.
    + destruct (candidates e s) as [|c0 cs] eqn:Ec; cbn [fst].
      * repeat split; auto.
      * split; [reflexivity|]. split; [reflexivity|]. split; [reflexivity|]. split; [discriminate|].
        intros n Hn. apply candidates_spec; [exact Hinv|rewrite Ec; exact Hn].
    + cbn [fst]. repeat split; auto.
Qed.

(* ------------------------------------------------------------------ round robin at manager level *)
Lemma untouched_proj e ops : untouched e ops = true -> mprojs e ops = repeat BNext (sel_count e ops).
Proof.
  unfold untouched, sel_count, mprojs, count_next. induction ops as [|o r IH]; cbn [forallb flat_map]; [reflexivity|].
  intros H. apply andb_true_iff in H as [H1 H2]. specialize (IH H2).
  destruct o as [u e0|u e0|e0 allow| | | | |]; cbn [mproj app]; try exact IH.
  - apply negb_true_iff in H1. rewrite H1. exact IH.
  - apply negb_true_iff in H1. rewrite H1. exact IH.
  - destruct (String.eqb e0 e); cbn [app filter List.length repeat]; [f_equal|]; exact IH.
Qed.

(* while e is untouched every selection for e returns what the balancer's Next returns *)
Lemma stable_results e ops : forall s,
  minv s -> untouched e ops = true -> balancer_of e s <> [] ->
  fst (mrun_sel e s ops) = map sel_of_next (snd (lb_run (view e s) (mprojs e ops))).
Proof.
  unfold mprojs. induction ops as [|o r IH]; intros s Hinv Hun Hne; cbn [flat_map mrun_sel]; [reflexivity|].
  cbn [untouched forallb] in Hun. apply andb_true_iff in Hun as [Hun1 Hun2]. fold (untouched e r) in Hun2.
  destruct (step_refines e s o Hinv) as [Hv _].
  pose proof (minv_mstep s o Hinv) as Hinv1.
  rewrite lb_run_app. cbn [snd]. rewrite map_app. rewrite <- Hv.
  assert (Hne1 : balancer_of e (fst (mstep s o)) <> []).
  { rewrite balancer_of_view, Hv. rewrite balancer_of_view in Hne.
    destruct o as [u e0|u e0|e0 allow| | | | |]; cbn [mproj]; try exact Hne.
    - apply negb_true_iff in Hun1. rewrite Hun1. exact Hne.
    - apply negb_true_iff in Hun1. rewrite Hun1. exact Hne.
    - destruct (String.eqb e0 e); [|exact Hne]. cbn [lb_run lb_step fst].
      pose proof (lb_next_ups (view e s)) as H. destruct (lb_next (view e s)). cbn [snd fst] in *. rewrite H. exact Hne. }
  pose proof (IH (fst (mstep s o)) Hinv1 Hun2 Hne1) as IH1.
  destruct o as [u e0|u e0|e0 allow|id st eps|id|id st|id e1 n|id e1];
    try (cbn [mproj lb_run snd map app] in *; destruct (mstep s _) as [s1 res]; cbn [fst] in *;
         destruct (mrun_sel e s1 r) as [rs s2]; cbn [fst] in *; exact IH1).
  - apply negb_true_iff in Hun1. cbn [mproj]. rewrite Hun1. cbn [lb_run snd map app].
    destruct (mstep s (MAdd u e0)) as [s1 res]. cbn [fst] in *. destruct (mrun_sel e s1 r) as [rs s2]. exact IH1.
  - apply negb_true_iff in Hun1. cbn [mproj]. rewrite Hun1. cbn [lb_run snd map app].
    destruct (mstep s (MRemove u e0)) as [s1 res]. cbn [fst] in *. destruct (mrun_sel e s1 r) as [rs s2]. exact IH1.
  - cbn [mproj mstep] in *. destruct (String.eqb e0 e) eqn:E.
    + apply String.eqb_eq in E; subst e0. unfold select in *. unfold view, balancer_of in *.
      destruct (lookup e (m_lbs s)) as [b|] eqn:E0; [|contradiction].
      cbn [lb_run lb_step]. destruct (lb_next b) as [nr b']. cbn [fst snd app map] in *.
      destruct (mrun_sel e _ r) as [rs s2]. cbn [fst] in *. rewrite IH1.
      destruct nr; reflexivity.
    + cbn [lb_run snd map app]. destruct (select e0 allow s) as [x s1]. cbn [fst] in *.
      destruct (mrun_sel e s1 r) as [rs s2]. exact IH1.
Qed.

(* stable set of n upstreams for e: any n selections for e - with arbitrary other activity in between - return
   exactly the n upstreams, up to order *)
Lemma mgr_round_robin e ops s b :
  minv s -> lookup e (m_lbs s) = Some b -> untouched e ops = true ->
  sel_count e ops = List.length (ups b) ->
  Permutation (fst (mrun_sel e s ops)) (map SLocal (ups b)).
Proof.
  intros Hinv E0 Hun Hcnt. pose proof Hinv as [Hl _ _ _]. destruct (Hl _ _ E0) as [Hne Hlt].
  assert (Hv : view e s = b) by (unfold view; rewrite E0; reflexivity).
  rewrite stable_results; [|exact Hinv|exact Hun|unfold balancer_of; rewrite E0; exact Hne].
  rewrite Hv, (untouched_proj e ops Hun), Hcnt.
  change (map SLocal (ups b)) with (map (fun u => sel_of_next (Some u)) (ups b)).
  rewrite <- (map_map Some sel_of_next). apply Permutation_map.
  apply (lb_round_robin b (or_intror Hlt) Hne).
Qed.

(* ------------------------------------------------------------------ bounded waiting at manager level *)
Lemma mgr_no_starvation e u ops s :
  minv s -> In u (balancer_of e s) ->
  (forall o, In o ops -> o <> MRemove u e) ->
  (1 + rem_count e ops) * (List.length (balancer_of e s) + add_count e ops) <= sel_count e ops ->
  In (SLocal u) (fst (mrun_sel e s ops)).
Proof.
  intros Hinv Hin Hno Hcnt. rewrite balancer_of_view in *.
  destruct (run_refines e ops s Hinv) as [_ Hres]. apply Hres.
  apply lb_no_starvation; [apply view_inv, Hinv|exact Hin| |exact Hcnt].
  intros v Hv Hvu. subst v. unfold mprojs in Hv. apply in_flat_map in Hv as [o [Ho Hp]].
  destruct o as [u0 e0|u0 e0|e0 allow| | | | |]; cbn [mproj] in Hp; try contradiction.
  - destruct (String.eqb e0 e); [destruct Hp as [Hp|[]]; discriminate|contradiction].
  - destruct (String.eqb e0 e) eqn:E; [|contradiction]. destruct Hp as [Hp|[]]. injection Hp as ->.
    apply String.eqb_eq in E; subst e0. exact (Hno _ Ho eq_refl).
  - destruct (String.eqb e0 e); [destruct Hp as [Hp|[]]; discriminate|contradiction].
Qed.

(* ------------------------------------------------------------------ C05: the three counts *)
Lemma registered_count_balancer e s : registered_count e s = List.length (balancer_of e s).
Proof. unfold registered_count, balancer_of. destruct (lookup e (m_lbs s)); reflexivity. Qed.

Lemma counts_equal e s :
  minv s ->
  local_listeners e s = N.of_nat (registered_count e s) /\
  lookup e (m_counts s) = cnt_opt (registered_count e s) /\
  gossip_live (ep_key e) (m_gossip s) = adv_opt (registered_count e s) /\
  ((Z.of_nat (registered_count e s) < 2^63)%Z -> advertised_count e s = Some (Z.of_nat (registered_count e s))).
Proof.
  intros [_ Hc Hg _]. split; [|split; [apply Hc|split; [apply Hg|]]].
  - unfold local_listeners. rewrite Hc. unfold cnt_opt.
    destruct (Nat.eqb (registered_count e s) 0) eqn:E; [apply Nat.eqb_eq in E; rewrite E|]; reflexivity.
  - intros Hb. unfold advertised_count. rewrite Hg. unfold adv_opt.
    destruct (Nat.eqb (registered_count e s) 0) eqn:E; [apply Nat.eqb_eq in E; rewrite E; reflexivity|].
    apply atoi_itoa. lia.
Qed.

Lemma advertised_iff_connected e s :
  minv s ->
  ((exists v, gossip_live (ep_key e) (m_gossip s) = Some v) <-> 0 < registered_count e s) /\
  ((exists c, lookup e (m_counts s) = Some c) <-> 0 < registered_count e s) /\
  ((exists b, lookup e (m_lbs s) = Some b) <-> 0 < registered_count e s).
Proof.
  intros Hinv. pose proof Hinv as [Hl Hc Hg _]. rewrite Hc, Hg. unfold cnt_opt, adv_opt.
  destruct (Nat.eqb (registered_count e s) 0) eqn:E; [apply Nat.eqb_eq in E|apply Nat.eqb_neq in E].
  - rewrite E. split; [|split]; split; try (intros [? H]; discriminate); try lia.
    intros [b Hb]. unfold registered_count in E. rewrite Hb in E. destruct (Hl _ _ Hb) as [Hne _].
    destruct (ups b); [contradiction|discriminate].
  - split; [|split]; split; try (intros _; lia); intros _; try (eexists; reflexivity).
    unfold registered_count in E. destruct (lookup e (m_lbs s)) as [b|]; [exists b; reflexivity|contradiction].
Qed.
