(* Fairness of the round-robin balancer under churn, sharper than BalancerP.lb_no_starvation:

     only a removal IN FRONT of u (an upstream stored before u in the slice) can make u wait longer; connects (always
     appended behind) and disconnects of upstreams stored behind u - in particular a flapping connection that keeps
     re-connecting - never do.

   If the slice never holds more than M upstreams during the run and f removals hit an upstream in front of u, then u
   is selected within (1 + f) * (M - 1) + 1 selections. With a stable set M = n, f = 0: within n selections.
   The potential is the cyclic distance from the cursor to u, plus the room (M - length) the slice may still grow by
   while the cursor is past u (appends then lengthen the way round). *)
From Coq Require Import List String NArith ZArith Bool Arith Lia.
From Piko Require Import Base.Maps Base.Strs Gossip.Types Gossip.Local Upstream.Balancer Upstream.Manager.
From Piko Require Import UpstreamP.BalancerP UpstreamP.ManagerP UpstreamP.Statements.
Import ListNotations.
Open Scope list_scope. Open Scope nat_scope.

(* index of the first occurrence of u (the length when absent) *)
Fixpoint pos (u : N) (l : list N) : nat :=
  match l with
  | [] => 0
  | x :: r => if N.eqb x u then 0 else S (pos u r)
  end.

Lemma pos_le u l : pos u l <= List.length l.
Proof. induction l as [|x l IH]; cbn; [lia|]. destruct (N.eqb x u); lia. Qed.

Lemma pos_lt u l : In u l -> pos u l < List.length l.
Proof.
  induction l as [|x l IH]; intros H; [destruct H|]. cbn.
  destruct (N.eqb x u) eqn:E; [lia|]. destruct H as [H|H]; [subst; rewrite N.eqb_refl in E; discriminate|].
  specialize (IH H). lia.
Qed.

Lemma pos_nth u l : In u l -> nth_error l (pos u l) = Some u.
Proof.
  induction l as [|x l IH]; intros H; [destruct H|]. cbn.
  destruct (N.eqb x u) eqn:E; [apply N.eqb_eq in E; subst; reflexivity|].
  destruct H as [H|H]; [subst; rewrite N.eqb_refl in E; discriminate|]. cbn. apply IH, H.
Qed.

Lemma pos_app u l m : In u l -> pos u (l ++ m) = pos u l.
Proof.
  induction l as [|x l IH]; intros H; [destruct H|]. cbn.
  destruct (N.eqb x u) eqn:E; [reflexivity|].
  destruct H as [H|H]; [subst; rewrite N.eqb_refl in E; discriminate|]. rewrite IH by exact H. reflexivity.
Qed.

(* removing the first occurrence of another upstream v moves u one to the left iff v was stored in front of u *)
Lemma pos_remove_first v u l l' :
  remove_first v l = Some l' -> v <> u -> In u l ->
  pos u l' = if pos v l <? pos u l then pos u l - 1 else pos u l.
Proof.
  revert l'. induction l as [|x l IH]; intros l' Hr Hvu Hin; [destruct Hin|].
  cbn in Hr. cbn [pos].
  destruct (N.eqb x v) eqn:Ev.
  - apply N.eqb_eq in Ev. subst x. injection Hr as <-.
    destruct (N.eqb v u) eqn:Eu; [apply N.eqb_eq in Eu; contradiction|].
    cbn. lia.
  - destruct (remove_first v l) as [l1|] eqn:Er; [|discriminate]. cbn in Hr. injection Hr as <-.
    cbn [pos]. destruct (N.eqb x u) eqn:Eu; [cbn; reflexivity|].
    destruct Hin as [Hin|Hin]; [subst; rewrite N.eqb_refl in Eu; discriminate|].
    rewrite (IH l1 eq_refl Hvu Hin).
    pose proof (pos_lt u l Hin) as Hp.
    change (S (pos v l) <? S (pos u l)) with (pos v l <? pos u l).
    destruct (pos v l <? pos u l) eqn:E; [apply Nat.ltb_lt in E; lia|reflexivity].
Qed.

(* the largest slice length met while running ops from b *)
Fixpoint maxlen (b : lb) (ops : list bop) : nat :=
  match ops with
  | [] => List.length (ups b)
  | o :: r => Nat.max (List.length (ups b)) (maxlen (fst (lb_step b o)) r)
  end.

(* the number of removals in ops that hit an upstream stored in front of u at that moment *)
Definition in_front (u : N) (b : lb) (o : bop) : nat :=
  match o with
  | BRemove v => if pos v (ups b) <? pos u (ups b) then 1 else 0
  | _ => 0
  end.
Fixpoint front_removals (u : N) (b : lb) (ops : list bop) : nat :=
  match ops with
  | [] => 0
  | o :: r => in_front u b o + front_removals u (fst (lb_step b o)) r
  end.

Lemma maxlen_ge b ops : List.length (ups b) <= maxlen b ops.
Proof. destruct ops; cbn; lia. Qed.

(* the potential *)
Definition phi (p c n M : nat) : nat := cyc p c n + (if c <=? p then 0 else M - n).

Lemma phi_le p c n M : c < n -> p < n -> n <= M -> phi p c n M <= M - 1.
Proof.
  intros Hc Hp Hn. unfold phi, cyc.
  destruct (c <=? p) eqn:E; [apply Nat.leb_le in E|apply Nat.leb_gt in E]; lia.
Qed.

Lemma churn_core u ops : forall b M,
  nxt b < List.length (ups b) -> In u (ups b) ->
  (forall v, In (BRemove v) ops -> v <> u) ->
  maxlen b ops <= M ->
  ~ In (Some u) (snd (lb_run b ops)) ->
  count_next ops <= phi (pos u (ups b)) (nxt b) (List.length (ups b)) M + front_removals u b ops * (M - 1).
Proof.
  unfold count_next.
  induction ops as [|o r IH]; intros b M Hlt Hin Hrm HM Hnot; [cbn; lia|].
  pose proof (pos_lt u _ Hin) as Hp.
  assert (Hrm' : forall v, In (BRemove v) r -> v <> u) by (intros v Hv; apply Hrm; right; exact Hv).
  cbn [maxlen] in HM.
  assert (HM1 : maxlen (fst (lb_step b o)) r <= M) by lia.
  assert (HnM : List.length (ups b) <= M) by lia.
  cbn [front_removals].
  destruct o as [v|v|]; cbn [lb_run lb_step] in Hnot; cbn [filter List.length lb_step fst in_front] in *.
  - (* add: appended behind everything *)
    destruct (lb_run (lb_add v b) r) as [b2 o2] eqn:E2. cbn [snd app] in Hnot.
    assert (Hlen : List.length (ups (lb_add v b)) = S (List.length (ups b)))
      by (unfold lb_add; cbn [ups]; rewrite app_length; cbn; lia).
    assert (Hin1 : In u (ups (lb_add v b))) by (unfold lb_add; cbn [ups]; apply in_or_app; left; exact Hin).
    assert (Hp1 : pos u (ups (lb_add v b)) = pos u (ups b)) by (unfold lb_add; cbn [ups]; apply pos_app, Hin).
    pose proof (maxlen_ge (lb_add v b) r) as Hge.
    pose proof (IH (lb_add v b) M ltac:(rewrite Hlen; cbn [lb_add nxt]; lia) Hin1 Hrm' HM1) as H.
    rewrite E2 in H. cbn [snd] in H. specialize (H Hnot).
    rewrite Hp1, Hlen in H. cbn [lb_add nxt] in H.
    assert (Hphi : phi (pos u (ups b)) (nxt b) (S (List.length (ups b))) M
                   <= phi (pos u (ups b)) (nxt b) (List.length (ups b)) M).
    { unfold phi, cyc. destruct (nxt b <=? pos u (ups b)) eqn:E; [lia|]. apply Nat.leb_gt in E. lia. }
    lia.
  - (* remove of another upstream *)
    assert (Hvu : v <> u) by (apply Hrm; left; reflexivity).
    destruct (lb_run (fst (lb_remove v b)) r) as [b2 o2] eqn:E2. cbn [snd app] in Hnot.
    unfold lb_remove in E2, HM1 |- *.
    destruct (remove_first v (ups b)) as [l|] eqn:Er.
    + pose proof (remove_first_length _ _ _ Er) as Hlen.
      assert (Hin' : In u l) by (eapply remove_first_keeps; [exact Er|congruence|exact Hin]).
      pose proof (pos_remove_first v u _ _ Er Hvu Hin) as Hpos.
      destruct l as [|x l]; [contradiction|]. cbn [fst] in E2, HM1 |- *.
      set (n1 := List.length (x :: l)) in *.
      set (b1 := {| ups := x :: l; nxt := nxt b mod n1 |}) in *.
      assert (Hn1 : n1 <> 0) by (unfold n1; cbn; lia).
      assert (Hlt1 : nxt b1 < List.length (ups b1)) by (cbn [b1 ups nxt]; apply Nat.mod_upper_bound, Hn1).
      pose proof (IH b1 M Hlt1 Hin' Hrm' HM1) as H. rewrite E2 in H. cbn [snd] in H. specialize (H Hnot).
      cbn [b1 ups nxt] in H. fold n1 in H.
      pose proof (pos_lt u _ Hin') as Hp'.
      destruct (pos v (ups b) <? pos u (ups b)) eqn:Ef.
      * (* in front of u: the potential may jump, but never above M - 1 *)
        assert (Hb : phi (pos u (x :: l)) (nxt b mod n1) n1 M <= M - 1).
        { apply phi_le; [apply Nat.mod_upper_bound, Hn1|exact Hp'|lia]. }
        cbn [Nat.mul]. lia.
      * (* behind u: the potential does not grow *)
        apply Nat.ltb_ge in Ef.
        assert (Hvin : In v (ups b)) by (eapply remove_first_Some_In, Er).
        pose proof (pos_lt v _ Hvin) as Hpv.
        assert (Hne : pos v (ups b) <> pos u (ups b)).
        { intros Heq. pose proof (pos_nth v _ Hvin) as A. pose proof (pos_nth u _ Hin) as B.
          rewrite Heq in A. congruence. }
        rewrite Hpos in H.
        assert (Hmod : nxt b mod n1 = if nxt b <? n1 then nxt b else nxt b - n1) by (apply mod_lt_2n; lia).
        assert (Hphi : phi (pos u (ups b)) (nxt b mod n1) n1 M
                       <= phi (pos u (ups b)) (nxt b) (List.length (ups b)) M).
        { rewrite Hmod. unfold phi, cyc.
          destruct (nxt b <? n1) eqn:E3; [apply Nat.ltb_lt in E3|apply Nat.ltb_ge in E3].
          - destruct (nxt b <=? pos u (ups b)) eqn:E4; [lia|]. apply Nat.leb_gt in E4. lia.
          - replace (nxt b - n1) with 0 by lia. cbn [Nat.leb].
            destruct (nxt b <=? pos u (ups b)) eqn:E4; [apply Nat.leb_le in E4; lia|]. lia. }
        lia.
    + (* v is not registered: nothing changes *)
      cbn [fst] in E2, HM1 |- *.
      pose proof (IH b M Hlt Hin Hrm' HM1) as H. rewrite E2 in H. cbn [snd] in H. specialize (H Hnot).
      destruct (pos v (ups b) <? pos u (ups b)); cbn [Nat.mul Nat.add]; lia.
  - (* next *)
    unfold lb_next in Hnot, HM1 |- *. destruct (ups b) as [|x l] eqn:E; [cbn in Hlt; lia|]. rewrite <- E in *.
    set (n := List.length (ups b)) in *.
    cbn [fst snd] in HM1 |- *.
    set (b1 := {| ups := ups b; nxt := S (nxt b) mod n |}) in *.
    destruct (lb_run b1 r) as [b2 o2] eqn:E2. cbn [snd app] in Hnot.
    assert (Hn : n <> 0) by lia.
    assert (Hcp : nxt b <> pos u (ups b)).
    { intros Hc. apply Hnot. left. rewrite Hc. apply pos_nth, Hin. }
    assert (Hlt1 : nxt b1 < List.length (ups b1)) by (cbn [b1 ups nxt]; apply Nat.mod_upper_bound, Hn).
    pose proof (IH b1 M Hlt1 Hin Hrm' HM1) as H. rewrite E2 in H. cbn [snd] in H.
    specialize (H ltac:(intros Hx; apply Hnot; right; exact Hx)).
    cbn [b1 ups nxt] in H. fold n in H.
    assert (Hphi : S (phi (pos u (ups b)) (S (nxt b) mod n) n M) <= phi (pos u (ups b)) (nxt b) n M).
    { rewrite (mod_lt_2n (S (nxt b)) n Hn) by lia. unfold phi, cyc.
      destruct (S (nxt b) <? n) eqn:E3; [apply Nat.ltb_lt in E3|apply Nat.ltb_ge in E3].
      - destruct (nxt b <=? pos u (ups b)) eqn:E4; [apply Nat.leb_le in E4|apply Nat.leb_gt in E4];
          destruct (S (nxt b) <=? pos u (ups b)) eqn:E5; try apply Nat.leb_le in E5; try apply Nat.leb_gt in E5; lia.
      - replace (S (nxt b) - n) with 0 by lia. cbn [Nat.leb].
        destruct (nxt b <=? pos u (ups b)) eqn:E4; [apply Nat.leb_le in E4; lia|]. lia. }
    cbn [Nat.add]. lia.
Qed.

(* Bounded waiting under churn: from any state in which u is registered, run ANY sequence of additions, removals of
   other upstreams and selections during which the slice never holds more than M upstreams. If u is not selected,
   the number of selections is at most (1 + removals in front of u) * (M - 1). *)
Lemma lb_churn_bound u ops b M :
  lb_inv b -> In u (ups b) ->
  (forall v, In (BRemove v) ops -> v <> u) ->
  maxlen b ops <= M ->
  ~ In (Some u) (snd (lb_run b ops)) ->
  count_next ops <= (1 + front_removals u b ops) * (M - 1).
Proof.
  intros Hinv Hin Hrm HM Hnot.
  assert (Hne : ups b <> []) by (intros E; rewrite E in Hin; exact Hin).
  pose proof (lb_inv_nonempty _ Hinv Hne) as Hlt.
  pose proof (churn_core u ops b M Hlt Hin Hrm HM Hnot) as H.
  pose proof (phi_le (pos u (ups b)) (nxt b) (List.length (ups b)) M Hlt (pos_lt u _ Hin)
                     ltac:(pose proof (maxlen_ge b ops); lia)) as Hb.
  cbn [Nat.mul Nat.add]. lia.
Qed.

Lemma lb_no_starvation_churn u ops b M :
  lb_inv b -> In u (ups b) ->
  (forall v, In (BRemove v) ops -> v <> u) ->
  maxlen b ops <= M ->
  (1 + front_removals u b ops) * (M - 1) < count_next ops ->
  In (Some u) (snd (lb_run b ops)).
Proof.
  intros Hinv Hin Hrm HM Hcnt.
  destruct (in_dec optN_eq_dec (Some u) (snd (lb_run b ops))) as [H|H]; [exact H|exfalso].
  pose proof (lb_churn_bound u ops b M Hinv Hin Hrm HM H). lia.
Qed.

(* ------------------------------------------------------------------ a flapping connection *)
(* x connects, one request is served, x disconnects - k times over *)
Fixpoint flap (x : N) (k : nat) : list bop :=
  match k with O => [] | S k' => BAdd x :: BNext :: BRemove x :: flap x k' end.

Lemma flap_counts x k : count_next (flap x k) = k /\ (forall v, In (BRemove v) (flap x k) -> v = x).
Proof.
  unfold count_next. induction k as [|k [I1 I2]]; cbn; [split; [reflexivity|intros v []]|].
  split; [rewrite I1; reflexivity|]. intros v [H|[H|[H|H]]]; try discriminate; [congruence|apply I2, H].
Qed.

(* a variant of Remove that restarts the rotation at the first upstream after every removal (the seeded change
   C15-2): under a flapping connection only the first upstream is ever served. It satisfies the coarse bound
   BalancerP.lb_no_starvation_bound, and is excluded by lb_no_starvation_churn. *)
Definition lb_remove_reset (u : N) (b : lb) : lb :=
  match remove_first u (ups b) with
  | None => b
  | Some l => {| ups := l; nxt := 0 |}
  end.
Definition lb_step_reset (b : lb) (o : bop) : lb * list (option N) :=
  match o with
  | BAdd u => (lb_add u b, [])
  | BRemove u => (lb_remove_reset u b, [])
  | BNext => let '(r, b') := lb_next b in (b', [r])
  end.
Fixpoint lb_run_reset (b : lb) (ops : list bop) : lb * list (option N) :=
  match ops with
  | [] => (b, [])
  | o :: r => let '(b1, o1) := lb_step_reset b o in let '(b2, o2) := lb_run_reset b1 r in (b2, o1 ++ o2)
  end.

Lemma reset_variant_starves a u x k :
  a <> x -> u <> x ->
  lb_run_reset {| ups := [a; u]; nxt := 0 |} (flap x k) = ({| ups := [a; u]; nxt := 0 |}, repeat (Some a) k).
Proof.
  intros Ha Hu. induction k as [|k IH]; [reflexivity|].
  apply N.eqb_neq in Ha, Hu.
  cbn [flap lb_run_reset lb_step_reset]. unfold lb_add, lb_next, lb_remove_reset. cbn [ups nxt app nth_error List.length].
  change (1 mod 3) with 1. cbn [ups remove_first]. rewrite Ha, Hu, N.eqb_refl.
  cbn [option_map]. rewrite IH. reflexivity.
Qed.

(* the real Remove keeps the cursor: under the same flapping both stable upstreams are served within 3 selections *)
Lemma flap_serves_both a u x k :
  a <> x -> u <> x -> a <> u -> 3 <= k ->
  let r := snd (lb_run {| ups := [a; u]; nxt := 0 |} (flap x k)) in In (Some a) r /\ In (Some u) r.
Proof.
  intros Ha Hu Hau Hk. cbn zeta.
  assert (Hinv : lb_inv {| ups := [a; u]; nxt := 0 |}) by (right; cbn; lia).
  destruct (flap_counts x k) as [Hc Hr].
  assert (Hmax : forall b, List.length (ups b) = 2 -> ~ In x (ups b) -> maxlen b (flap x k) <= 3).
  { clear. induction k as [|k IH]; intros b Hl Hx; cbn [flap maxlen]; [lia|].
    cbn [lb_step fst]. unfold lb_next.
    assert (Hadd : List.length (ups (lb_add x b)) = 3) by (unfold lb_add; cbn [ups]; rewrite app_length; cbn; lia).
    destruct (ups (lb_add x b)) as [|y l] eqn:E; [cbn in Hadd; lia|]. rewrite <- E. cbn [fst snd ups].
    set (b1 := {| ups := ups (lb_add x b); nxt := S (nxt (lb_add x b)) mod List.length (ups (lb_add x b)) |}).
    assert (Hr : ups (fst (lb_remove x b1)) = ups b).
    { rewrite lb_remove_ups. cbn [b1 ups]. unfold lb_add. cbn [ups].
      clear - Hx. induction (ups b) as [|z l IH]; cbn; [rewrite N.eqb_refl; reflexivity|].
      destruct (N.eqb z x) eqn:Ez; [apply N.eqb_eq in Ez; subst; exfalso; apply Hx; left; reflexivity|].
      rewrite IH; [reflexivity|]. intros H. apply Hx. right. exact H. }
    pose proof (IH (fst (lb_remove x b1)) ltac:(rewrite Hr; exact Hl) ltac:(rewrite Hr; exact Hx)) as HI.
    cbn [b1 ups]. rewrite E, Hadd. lia. }
  pose proof (Hmax {| ups := [a; u]; nxt := 0 |} eq_refl ltac:(cbn; intros [H|[H|[]]]; congruence)) as HM.
  (* x is always appended behind a and u: no removal in front of either *)
  assert (Hfr : forall w, w <> x -> forall b, In w (ups b) -> ~ In x (ups b) -> front_removals w b (flap x k) = 0).
  { clear. intros w Hw. induction k as [|k IH]; intros b Hin Hx; [reflexivity|].
    cbn [flap front_removals in_front lb_step fst]. unfold lb_next.
    destruct (ups (lb_add x b)) as [|y l] eqn:E; [unfold lb_add in E; cbn [ups] in E; destruct (ups b); discriminate|].
    rewrite <- E. cbn [fst snd ups].
    set (b1 := {| ups := ups (lb_add x b); nxt := S (nxt (lb_add x b)) mod List.length (ups (lb_add x b)) |}).
    assert (Hr : ups (fst (lb_remove x b1)) = ups b).
    { rewrite lb_remove_ups. cbn [b1 ups]. unfold lb_add. cbn [ups].
      clear - Hx. induction (ups b) as [|z l IH]; cbn; [rewrite N.eqb_refl; reflexivity|].
      destruct (N.eqb z x) eqn:Ez; [apply N.eqb_eq in Ez; subst; exfalso; apply Hx; left; reflexivity|].
      rewrite IH; [reflexivity|]. intros H. apply Hx. right. exact H. }
    rewrite (IH (fst (lb_remove x b1)) ltac:(rewrite Hr; exact Hin) ltac:(rewrite Hr; exact Hx)).
    cbn [b1 ups]. unfold lb_add. cbn [ups].
    assert (Hpx : pos x (ups b ++ [x]) = List.length (ups b)).
    { clear - Hx. induction (ups b) as [|z l IH]; cbn; [rewrite N.eqb_refl; reflexivity|].
      destruct (N.eqb z x) eqn:Ez; [apply N.eqb_eq in Ez; subst; exfalso; apply Hx; left; reflexivity|].
      rewrite IH; [reflexivity|]. intros H. apply Hx. right. exact H. }
    rewrite Hpx, (pos_app w (ups b) [x] Hin).
    pose proof (pos_lt w _ Hin) as Hp.
    destruct (List.length (ups b) <? pos w (ups b)) eqn:El; [apply Nat.ltb_lt in El; lia|reflexivity]. }
  split.
  - apply (lb_no_starvation_churn a (flap x k) _ 3 Hinv); [left; reflexivity| |exact HM|].
    + intros v Hv. rewrite (Hr v Hv). congruence.
    + rewrite (Hfr a Ha); [rewrite Hc; cbn; lia|left; reflexivity|cbn; intros [H|[H|[]]]; congruence].
  - apply (lb_no_starvation_churn u (flap x k) _ 3 Hinv); [right; left; reflexivity| |exact HM|].
    + intros v Hv. rewrite (Hr v Hv). congruence.
    + rewrite (Hfr u Hu); [rewrite Hc; cbn; lia|right; left; reflexivity|cbn; intros [H|[H|[]]]; congruence].
Qed.

(* ------------------------------------------------------------------ at manager level *)
(* the balancer of endpoint e inside the manager is the persistent balancer [view e s]; the ops of a manager history
   that concern e are [mprojs e ops] *)
Lemma mgr_no_starvation_churn e u ops s M :
  minv s -> In u (balancer_of e s) ->
  (forall o, In o ops -> o <> MRemove u e) ->
  maxlen (view e s) (mprojs e ops) <= M ->
  (1 + front_removals u (view e s) (mprojs e ops)) * (M - 1) < sel_count e ops ->
  In (SLocal u) (fst (mrun_sel e s ops)).
Proof.
  intros Hinv Hin Hno HM Hcnt. rewrite balancer_of_view in *.
  destruct (run_refines e ops s Hinv) as [_ Hres]. apply Hres.
  apply (lb_no_starvation_churn u _ _ M); [apply view_inv, Hinv|exact Hin| |exact HM|exact Hcnt].
  intros v Hv Hvu. subst v. unfold mprojs in Hv. apply in_flat_map in Hv as [o [Ho Hp]].
  destruct o as [u0 e0|u0 e0|e0 allow| | | | |]; cbn [mproj] in Hp; try contradiction.
  - destruct (String.eqb e0 e); [destruct Hp as [Hp|[]]; discriminate|contradiction].
  - destruct (String.eqb e0 e) eqn:E; [|contradiction]. destruct Hp as [Hp|[]]. injection Hp as ->.
    apply String.eqb_eq in E; subst e0. exact (Hno _ Ho eq_refl).
  - destruct (String.eqb e0 e); [destruct Hp as [Hp|[]]; discriminate|contradiction].
Qed.

(* the statements quoted by Properties/C15.v *)
Lemma c15_no_starvation_churn id g p a ops e u more M :
  let s := mrun (minit id g p a) ops in
  In u (registered e ops) ->
  (forall o, In o more -> o <> MRemove u e) ->
  maxlen (view e s) (mprojs e more) <= M ->
  (1 + front_removals u (view e s) (mprojs e more)) * (M - 1) < sel_count e more ->
  In (SLocal u) (fst (mrun_sel e s more)).
Proof.
  cbn zeta. rewrite <- (registered_init e ops id g p a). apply mgr_no_starvation_churn, reach_inv.
Qed.

Lemma c15_no_starvation_churn_balancer ops more u M :
  let b := fst (lb_run lb_empty ops) in
  In u (ups b) -> (forall v, In (BRemove v) more -> v <> u) ->
  maxlen b more <= M ->
  (1 + front_removals u b more) * (M - 1) < count_next more ->
  In (Some u) (snd (lb_run b more)).
Proof. cbn zeta. intros. apply (lb_no_starvation_churn u more _ M); auto. apply lb_run_inv, lb_inv_empty. Qed.
