(* The final statements of C15 and C05, in exactly the form quoted by Properties/C15.v and Properties/C05.v. *)
From Coq Require Import List String NArith ZArith Bool Arith Lia Permutation.
From Piko Require Import Base.Maps Base.Strs Gossip.Types Gossip.Local Upstream.Balancer Upstream.Manager.
From Piko Require Import UpstreamP.BalancerP UpstreamP.GossipLive UpstreamP.ManagerP.
Import ListNotations.
Open Scope string_scope. Open Scope list_scope. Open Scope nat_scope.

(* ------------------------------------------------------------------ C15 *)
Lemma c15_inv_balancer ops :
  let b := fst (lb_run lb_empty ops) in nxt b < List.length (ups b) \/ ups b = [].
Proof.
  cbn zeta. destruct (lb_run_inv ops lb_empty lb_inv_empty) as [[H _]|H]; [right; exact H|left; exact H].
Qed.

Lemma c15_next_never_nil ops :
  let b := fst (lb_run lb_empty ops) in ups b <> [] -> exists u, fst (lb_next b) = Some u /\ In u (ups b).
Proof. cbn zeta. apply lb_next_some, lb_run_inv, lb_inv_empty. Qed.

Lemma reach_inv id g p a ops : minv (mrun (minit id g p a) ops).
Proof. apply minv_mrun, minv_init. Qed.

Lemma c15_inv id g p a ops e b :
  lookup e (m_lbs (mrun (minit id g p a) ops)) = Some b -> ups b <> [] /\ nxt b < List.length (ups b).
Proof. apply (inv_lbs _ (reach_inv id g p a ops)). Qed.

Lemma c15_valid id g p a ops e allow :
  let s := mrun (minit id g p a) ops in
  match fst (select e allow s) with
  | SLocal u => In u (registered e ops)
  | SNil => False
  | SRemote c =>
      allow = true /\ lookup e (m_lbs s) = None /\ registered e ops = [] /\ c <> [] /\
      forall n, In n c ->
        n <> m_local s /\
        exists nd, lookup n (m_remote s) = Some nd /\ r_status nd = statusActive /\
                   exists k, lookup e (r_eps nd) = Some k /\ (0 < k)%Z
  | SNone => lookup e (m_lbs s) = None /\ registered e ops = [] /\ (allow = false \/ candidates e s = [])
  end.
Proof.
  cbn zeta. rewrite <- (registered_init e ops id g p a). apply select_valid, reach_inv.
Qed.

Lemma c15_select_never_nil id g p a ops e allow :
  fst (select e allow (mrun (minit id g p a) ops)) <> SNil.
Proof.
  pose proof (select_valid e allow _ (reach_inv id g p a ops)) as H. intros E. rewrite E in H. exact H.
Qed.

Lemma c15_removed_not_selected id g p a ops1 ops2 u e allow :
  count_occ N.eq_dec (registered e ops1) u <= 1 ->
  (forall o, In o ops2 -> o <> MAdd u e) ->
  fst (select e allow (mrun (minit id g p a) (ops1 ++ MRemove u e :: ops2))) <> SLocal u.
Proof.
  intros Hc Hno E.
  pose proof (c15_valid id g p a (ops1 ++ MRemove u e :: ops2) e allow) as H. cbn zeta in H. rewrite E in H.
  exact (removed_not_registered e u ops1 ops2 Hc Hno H).
Qed.

Lemma c15_round_robin_balancer ops k :
  let b := fst (lb_run lb_empty ops) in
  ups b <> [] ->
  Permutation (snd (lb_nexts (List.length (ups b)) (fst (lb_nexts k b)))) (map Some (ups b)).
Proof. cbn zeta. apply lb_round_robin_window, lb_run_inv, lb_inv_empty. Qed.

Lemma c15_round_robin_each_once ops k u :
  let b := fst (lb_run lb_empty ops) in
  NoDup (ups b) -> In u (ups b) ->
  count_occ optN_eq_dec (snd (lb_nexts (List.length (ups b)) (fst (lb_nexts k b)))) (Some u) = 1.
Proof. cbn zeta. apply lb_round_robin_once, lb_run_inv, lb_inv_empty. Qed.

Lemma c15_round_robin id g p a ops e b sels :
  let s := mrun (minit id g p a) ops in
  lookup e (m_lbs s) = Some b -> untouched e sels = true -> sel_count e sels = List.length (ups b) ->
  Permutation (fst (mrun_sel e s sels)) (map SLocal (ups b)).
Proof. cbn zeta. apply mgr_round_robin, reach_inv. Qed.

Lemma c15_no_starvation id g p a ops e u more :
  let s := mrun (minit id g p a) ops in
  In u (registered e ops) ->
  (forall o, In o more -> o <> MRemove u e) ->
  (1 + rem_count e more) * (List.length (registered e ops) + add_count e more) <= sel_count e more ->
  In (SLocal u) (fst (mrun_sel e s more)).
Proof.
  cbn zeta. rewrite <- (registered_init e ops id g p a). apply mgr_no_starvation, reach_inv.
Qed.

Lemma c15_no_starvation_adds ops more u :
  let b := fst (lb_run lb_empty ops) in
  In u (ups b) -> count_remove more = 0 ->
  List.length (ups b) + count_add more <= count_next more ->
  In (Some u) (snd (lb_run b more)).
Proof. cbn zeta. apply lb_no_starvation_adds, lb_run_inv, lb_inv_empty. Qed.

Lemma c15_no_starvation_stable ops u k :
  let b := fst (lb_run lb_empty ops) in
  In u (ups b) -> List.length (ups b) <= k -> In (Some u) (snd (lb_nexts k b)).
Proof. cbn zeta. apply lb_no_starvation_stable, lb_run_inv, lb_inv_empty. Qed.

Lemma c15_starvation_bound_tight u a x k :
  a <> u -> x <> u ->
  let b := fst (lb_run lb_empty [BAdd u; BAdd a; BNext]) in
  let ops := add_next_rounds x k in
  In u (ups b) /\ count_next ops = k /\ count_add ops = k /\ count_remove ops = 0 /\
  ~ In (Some u) (snd (lb_run b ops)).
Proof.
  intros Ha Hx. cbn zeta.
  assert (Hb : fst (lb_run lb_empty [BAdd u; BAdd a; BNext]) = {| ups := u :: [a]; nxt := List.length [a] |}) by reflexivity.
  rewrite Hb. destruct (add_next_counts x k) as [H1 [H2 H3]].
  split; [left; reflexivity|]. split; [exact H1|]. split; [exact H2|]. split; [exact H3|].
  apply starve_by_additions; [exact Hx|discriminate|intros [H|[]]; contradiction].
Qed.

(* ------------------------------------------------------------------ C05 *)
Lemma c05_counts_equal id g p a ops e :
  let s := mrun (minit id g p a) ops in
  registered_count e s = List.length (registered e ops) /\
  local_listeners e s = N.of_nat (registered_count e s) /\
  lookup e (m_counts s) = (if Nat.eqb (registered_count e s) 0 then None else Some (N.of_nat (registered_count e s))) /\
  gossip_live (ep_key e) (m_gossip s) =
    (if Nat.eqb (registered_count e s) 0 then None else Some (itoa (Z.of_nat (registered_count e s)))) /\
  ((Z.of_nat (registered_count e s) < 2^63)%Z -> advertised_count e s = Some (Z.of_nat (registered_count e s))).
Proof.
  cbn zeta. split.
  - rewrite registered_count_balancer, registered_init. reflexivity.
  - apply counts_equal, reach_inv.
Qed.

Lemma c05_advertised_iff_connected id g p a ops e :
  let s := mrun (minit id g p a) ops in
  ((exists v, gossip_live (ep_key e) (m_gossip s) = Some v) <-> registered e ops <> []) /\
  ((exists c, lookup e (m_counts s) = Some c) <-> registered e ops <> []) /\
  ((exists b, lookup e (m_lbs s) = Some b) <-> registered e ops <> []).
Proof.
  cbn zeta.
  assert (Hq : 0 < registered_count e (mrun (minit id g p a) ops) <-> registered e ops <> []).
  { rewrite registered_count_balancer, registered_init. destruct (registered e ops); cbn; split; intros H.
    - lia.
    - exfalso; apply H; reflexivity.
    - discriminate.
    - lia. }
  destruct (advertised_iff_connected e _ (reach_inv id g p a ops)) as [H1 [H2 H3]].
  rewrite <- Hq. auto.
Qed.

Definition d1_witness : list mop := [MAdd 1 "e"; MAdd 2 "e"; MRemove 1 "e"; MRemove 1 "e"].

Lemma c05_refuted_pinned id g p a :
  let s := mrun_pinned (minit id g p a) d1_witness in
  registered_count "e" s = 1 /\ local_listeners "e" s = 0%N /\
  gossip_live (ep_key "e") (m_gossip s) = None /\ advertised_count "e" s = Some 0%Z.
Proof. cbn zeta. vm_compute. auto. Qed.

Lemma c05_witness_fixed id g p a :
  let s := mrun (minit id g p a) d1_witness in
  registered_count "e" s = 1 /\ local_listeners "e" s = 1%N /\
  gossip_live (ep_key "e") (m_gossip s) = Some "1" /\ advertised_count "e" s = Some 1%Z.
Proof. cbn zeta. vm_compute. auto. Qed.
